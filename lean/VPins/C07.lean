/- PINNED copy of the statement skeletons of the Go functions the C07 model mirrors (written by tools/pin.sh
   when the model was last validated against the code). Compared with the regenerated VGen.SkelC07 in VProps/PinC07.lean. -/
namespace VPins.C07

def eventauth_AuthEvents_AddEvent : List String := [
  "func func(event PDU) error",
  "if event.StateKey() == nil {",
  "return fmt.Errorf(\"AddEvent: event %q does not have a state key\", event.Type())",
  "}",
  "a.roomIDs[event.RoomID().String()] = struct{}{}",
  "a.events[StateKeyTuple{event.Type(), *event.StateKey()}] = event",
  "return nil"
]

def eventauth_AuthEvents_Clear : List String := [
  "func func()",
  "for k := range a.events {",
  "delete(a.events, k)",
  "}",
  "for k := range a.roomIDs {",
  "delete(a.roomIDs, k)",
  "}"
]

def eventauth_AuthEvents_Create : List String := [
  "func func() (PDU, error)",
  "return a.events[StateKeyTuple{spec.MRoomCreate, \"\"}], nil"
]

def eventauth_AuthEvents_JoinRules : List String := [
  "func func() (PDU, error)",
  "return a.events[StateKeyTuple{spec.MRoomJoinRules, \"\"}], nil"
]

def eventauth_AuthEvents_Member : List String := [
  "func func(stateKey spec.SenderID) (PDU, error)",
  "return a.events[StateKeyTuple{spec.MRoomMember, string(stateKey)}], nil"
]

def eventauth_AuthEvents_PowerLevels : List String := [
  "func func() (PDU, error)",
  "return a.events[StateKeyTuple{spec.MRoomPowerLevels, \"\"}], nil"
]

def eventauth_AuthEvents_ThirdPartyInvite : List String := [
  "func func(stateKey string) (PDU, error)",
  "return a.events[StateKeyTuple{spec.MRoomThirdPartyInvite, stateKey}], nil"
]

def eventauth_AuthEvents_Valid : List String := [
  "func func() bool",
  "return len(a.roomIDs) <= 1"
]

def eventauth_NotAllowed_Error : List String := [
  "func func() string",
  "return \"eventauth: \" + a.Message"
]

def eventauth_StateNeeded_AuthEventReferences : List String := [
  "func func(provider AuthEventProvider) (refs []string, err error)",
  "refs = make([]string, 0, 5)",
  "var e PDU",
  "if s.Create {",
  "if e, err = provider.Create(); err != nil {",
  "return",
  "} else if e != nil {",
  "refs = append(refs, e.EventID())",
  "}",
  "}",
  "if s.JoinRules {",
  "if e, err = provider.JoinRules(); err != nil {",
  "return",
  "} else if e != nil {",
  "refs = append(refs, e.EventID())",
  "}",
  "}",
  "if s.PowerLevels {",
  "if e, err = provider.PowerLevels(); err != nil {",
  "return",
  "} else if e != nil {",
  "refs = append(refs, e.EventID())",
  "}",
  "}",
  "for _, userID := range s.Member {",
  "if e, err = provider.Member(spec.SenderID(userID)); err != nil {",
  "return",
  "} else if e != nil {",
  "refs = append(refs, e.EventID())",
  "}",
  "}",
  "for _, token := range s.ThirdPartyInvite {",
  "if e, err = provider.ThirdPartyInvite(token); err != nil {",
  "return",
  "} else if e != nil {",
  "refs = append(refs, e.EventID())",
  "}",
  "}",
  "return"
]

def eventauth_StateNeeded_Tuples : List String := [
  "func func() (res []StateKeyTuple)",
  "if s.Create {",
  "res = append(res, StateKeyTuple{spec.MRoomCreate, \"\"})",
  "}",
  "if s.JoinRules {",
  "res = append(res, StateKeyTuple{spec.MRoomJoinRules, \"\"})",
  "}",
  "if s.PowerLevels {",
  "res = append(res, StateKeyTuple{spec.MRoomPowerLevels, \"\"})",
  "}",
  "for _, senderID := range s.Member {",
  "res = append(res, StateKeyTuple{spec.MRoomMember, senderID})",
  "}",
  "for _, token := range s.ThirdPartyInvite {",
  "res = append(res, StateKeyTuple{spec.MRoomThirdPartyInvite, token})",
  "}",
  "return"
]

def eventauth__Allowed : List String := [
  "func func(event PDU, authEvents AuthEventProvider, userIDQuerier spec.UserIDForSender) error",
  "if !authEvents.Valid() {",
  "return errorf(\"authEvents contains events from different rooms\")",
  "}",
  "return newAllowerContext(authEvents, userIDQuerier, event.RoomID()).allowed(event)"
]

def eventauth__NewAuthEvents : List String := [
  "func func(events []PDU) (*AuthEvents, error)",
  "a := AuthEvents{events: make(map[StateKeyTuple]PDU, len(events)), roomIDs: make(map[string]struct{})}",
  "for _, e := range events {",
  "if err := a.AddEvent(e); err != nil {",
  "return nil, err",
  "}",
  "}",
  "return &a, nil"
]

def eventauth__StateNeededForAuth : List String := [
  "func func(events []PDU) (result StateNeeded)",
  "for _, event := range events {",
  "var content *membershipContent",
  "if event.Type() == spec.MRoomMember {",
  "_ = json.Unmarshal(exactMembersOnly(event.Content(), content), &content)",
  "}",
  "_ = accumulateStateNeeded(&result, event.Type(), event.SenderID(), event.StateKey(), content)",
  "}",
  "result.Member = util.UniqueStrings(result.Member)",
  "result.ThirdPartyInvite = util.UniqueStrings(result.ThirdPartyInvite)",
  "return"
]

def eventauth__StateNeededForProtoEvent : List String := [
  "func func(protoEvent *ProtoEvent) (result StateNeeded, err error)",
  "var content *membershipContent",
  "if protoEvent.Type == spec.MRoomMember {",
  "if err = json.Unmarshal(exactMembersOnly(protoEvent.Content, content), &content); err != nil {",
  "err = errorf(\"unparseable member event content: %s\", err.Error())",
  "return",
  "}",
  "}",
  "err = accumulateStateNeeded(&result, protoEvent.Type, spec.SenderID(protoEvent.SenderID), protoEvent.StateKey, content)",
  "result.Member = util.UniqueStrings(result.Member)",
  "result.ThirdPartyInvite = util.UniqueStrings(result.ThirdPartyInvite)",
  "return"
]

def eventauth__accumulateStateNeeded : List String := [
  "func func(result *StateNeeded, eventType string, sender spec.SenderID, stateKey *string, content *membershipContent) (err error)",
  "switch eventType {",
  "case spec.MRoomCreate:",
  "case spec.MRoomAliases:",
  "result.Create = true",
  "case spec.MRoomMember:",
  "if content == nil {",
  "err = errorf(\"missing memberContent for m.room.member event\")",
  "return",
  "}",
  "result.Create = true",
  "result.PowerLevels = true",
  "result.Member = append(result.Member, string(sender))",
  "if stateKey != nil {",
  "result.Member = append(result.Member, *stateKey)",
  "}",
  "if content.Membership == spec.Join || content.Membership == spec.Knock || content.Membership == spec.Invite {",
  "result.JoinRules = true",
  "}",
  "if content.AuthorizedVia != \"\" {",
  "result.Member = append(result.Member, content.AuthorizedVia)",
  "}",
  "if content.ThirdPartyInvite != nil {",
  "token, tokErr := thirdPartyInviteToken(content.ThirdPartyInvite)",
  "if tokErr != nil {",
  "err = errorf(\"could not get third-party token: %s\", tokErr)",
  "return",
  "}",
  "result.ThirdPartyInvite = append(result.ThirdPartyInvite, token)",
  "}",
  "default:",
  "result.Create = true",
  "result.PowerLevels = true",
  "result.Member = append(result.Member, string(sender))",
  "}",
  "return"
]

def eventauth__allowRestrictedJoins : List String := [
  "func func() error",
  "return nil"
]

def eventauth__checkEventLevels : List String := [
  "func func(senderLevel int64, oldPowerLevels, newPowerLevels PowerLevelContent) error",
  "type levelPair struct { old int64 new int64 }",
  "levelChecks := []levelPair{{oldPowerLevels.Ban, newPowerLevels.Ban}, {oldPowerLevels.Invite, newPowerLevels.Invite}, {oldPowerLevels.Kick, newPowerLevels.Kick}, {oldPowerLevels.Redact, newPowerLevels.Redact}, {oldPowerLevels.StateDefault, newPowerLevels.StateDefault}, {oldPowerLevels.EventsDefault, newPowerLevels.EventsDefault}, {oldPowerLevels.UsersDefault, newPowerLevels.UsersDefault}}",
  "const ( isStateEvent = false )",
  "for eventType := range newPowerLevels.Events {",
  "levelChecks = append(levelChecks, levelPair{oldPowerLevels.EventLevel(eventType, isStateEvent), newPowerLevels.EventLevel(eventType, isStateEvent)})",
  "}",
  "for eventType := range oldPowerLevels.Events {",
  "levelChecks = append(levelChecks, levelPair{oldPowerLevels.EventLevel(eventType, isStateEvent), newPowerLevels.EventLevel(eventType, isStateEvent)})",
  "}",
  "for _, level := range levelChecks {",
  "if level.old == level.new {",
  "continue",
  "}",
  "if senderLevel < level.new {",
  "return errorf(\"sender with level %d is not allowed to change level from %d to %d\"+\" because the new level is above the level of the sender\", senderLevel, level.old, level.new)",
  "}",
  "if senderLevel < level.old {",
  "return errorf(\"sender with level %d is not allowed to change level from %d to %d\"+\" because the current level is above the level of the sender\", senderLevel, level.old, level.new)",
  "}",
  "}",
  "return nil"
]

def eventauth__checkKnocking : List String := [
  "func func(roomVer, sender, target, joinRule, prevMembership string) error",
  "supported := joinRule == spec.Knock || joinRule == spec.KnockRestricted",
  "if !supported {",
  "return errorf(\"%q is not allowed to change the membership of %q from %q as room version %q does not support knocking on rooms with join rule %q\", sender, target, prevMembership, roomVer, joinRule)",
  "}",
  "switch prevMembership {",
  "case spec.Join, spec.Invite, spec.Ban:",
  "return errorf(\"%q is not allowed to change the membership of %q from %q as sender is already joined/invited/banned\", sender, target, prevMembership)",
  "}",
  "return nil"
]

def eventauth__checkNotificationLevels : List String := [
  "func func(senderLevel int64, oldPowerLevels, newPowerLevels PowerLevelContent) error",
  "type levelPair struct { old int64 new int64 userID string }",
  "notificationLevelChecks := []levelPair{}",
  "for notification := range newPowerLevels.Notifications {",
  "notificationLevelChecks = append(notificationLevelChecks, levelPair{oldPowerLevels.NotificationLevel(notification), newPowerLevels.NotificationLevel(notification), notification})",
  "}",
  "for notification := range oldPowerLevels.Notifications {",
  "notificationLevelChecks = append(notificationLevelChecks, levelPair{oldPowerLevels.NotificationLevel(notification), newPowerLevels.NotificationLevel(notification), notification})",
  "}",
  "for _, level := range notificationLevelChecks {",
  "if level.old == level.new {",
  "continue",
  "}",
  "if senderLevel < level.new {",
  "return errorf(\"sender with level %d is not allowed change notification level from %d to %d\"+\" because the new level is above the level of the sender\", senderLevel, level.old, level.new)",
  "}",
  "if senderLevel <= level.old {",
  "return errorf(\"sender with level %d is not allowed to change notification level from %d to %d\"+\" because the old level is equal to or above the level of the sender\", senderLevel, level.old, level.new)",
  "}",
  "}",
  "return nil"
]

def eventauth__checkPowerLevelEventV1 : List String := [
  "func func(sender string, createEvent PDU, oldPowerLevels, newPowerLevels PowerLevelContent) error",
  "return nil"
]

def eventauth__checkPowerLevelEventV2 : List String := [
  "func func(sender string, createEvent PDU, oldPowerLevels, newPowerLevels PowerLevelContent) error",
  "senderLevel := oldPowerLevels.UserLevel(spec.SenderID(sender))",
  "return checkNotificationLevels(senderLevel, oldPowerLevels, newPowerLevels)"
]

def eventauth__checkPowerLevelEventV3 : List String := [
  "func func(sender string, createEvent PDU, oldPowerLevels, newPowerLevels PowerLevelContent) error",
  "var content CreateContent",
  "if err := json.Unmarshal(exactMembersOnly(createEvent.Content(), &content), &content); err != nil {",
  "return errorf(\"checkPowerLevelEventV3 unparseable create event content: %s\", err.Error())",
  "}",
  "creators := []string{string(createEvent.SenderID())}",
  "creators = append(creators, content.AdditionalCreators...)",
  "senderLevel := oldPowerLevels.UserLevel(spec.SenderID(sender))",
  "if slices.Contains(creators, sender) {",
  "senderLevel = CreatorPowerLevel",
  "}",
  "if err := checkNotificationLevels(senderLevel, oldPowerLevels, newPowerLevels); err != nil {",
  "return err",
  "}",
  "for userID := range newPowerLevels.Users {",
  "if slices.Contains(creators, userID) {",
  "return &EventValidationError{Code: 400, Message: fmt.Sprintf(\"new power levels event must not contain creator '%s'\", userID)}",
  "}",
  "}",
  "return nil"
]

def eventauth__checkUserLevels : List String := [
  "func func(senderLevel int64, senderID spec.SenderID, oldPowerLevels, newPowerLevels PowerLevelContent) error",
  "type levelPair struct { old int64 new int64 }",
  "userLevelChecks := map[spec.SenderID]levelPair{}",
  "for userSenderID := range newPowerLevels.Users {",
  "userLevelChecks[spec.SenderID(userSenderID)] = levelPair{old: oldPowerLevels.UserLevel(spec.SenderID(userSenderID)), new: newPowerLevels.UserLevel(spec.SenderID(userSenderID))}",
  "}",
  "for userSenderID := range oldPowerLevels.Users {",
  "userLevelChecks[spec.SenderID(userSenderID)] = levelPair{old: oldPowerLevels.UserLevel(spec.SenderID(userSenderID)), new: newPowerLevels.UserLevel(spec.SenderID(userSenderID))}",
  "}",
  "for userSenderID, level := range userLevelChecks {",
  "if level.old == level.new {",
  "continue",
  "}",
  "if senderLevel < level.new {",
  "return errorf(\"sender %q with level %d is not allowed change user %q level from %d to %d\"+\" because the new level is above the level of the sender\", senderID, senderLevel, userSenderID, level.old, level.new)",
  "}",
  "if userSenderID == senderID {",
  "continue",
  "}",
  "if senderLevel <= level.old {",
  "return errorf(\"sender %q with level %d is not allowed to change user %q level from %d to %d\"+\" because the old level is equal to or above the level of the sender\", senderID, senderLevel, userSenderID, level.old, level.new)",
  "}",
  "}",
  "return nil"
]

def eventauth__disallowKnocking : List String := [
  "func func(roomVer, sender, target, joinRule, prevMembership string) error",
  "if sender == target {",
  "return errorf(\"%q is not allowed to change their membership from %q as room version %q does not support knocking on rooms with join rule %q\", sender, prevMembership, roomVer, joinRule)",
  "}",
  "return errorf(\"%q is not allowed to change the membership of %q from %q as room version %q does not support knocking on rooms with join rule %q\", sender, target, prevMembership, roomVer, joinRule)"
]

def eventauth__disallowRestrictedJoins : List String := [
  "func func() error",
  "return errorf(\"restricted joins are not supported in this room version\")"
]

def eventauth__errorf : List String := [
  "func func(message string, args ...interface{}) error",
  "return &NotAllowed{Message: fmt.Sprintf(message, args...)}"
]

def eventauth__newAllowerContext : List String := [
  "func func(provider AuthEventProvider, userIDQuerier spec.UserIDForSender, roomID spec.RoomID) *allowerContext",
  "a := &allowerContext{userIDQuerier: userIDQuerier, roomID: roomID}",
  "a.update(provider)",
  "return a"
]

def eventauth__thirdPartyInviteToken : List String := [
  "func func(thirdPartyInvite *MemberThirdPartyInvite) (string, error)",
  "if thirdPartyInvite.Signed.Token == \"\" {",
  "return \"\", fmt.Errorf(\"missing 'third_party_invite.signed.token' JSON key\")",
  "}",
  "return thirdPartyInvite.Signed.Token, nil"
]

def eventauth_allowerContext_aliasEventAllowed : List String := [
  "func func(event PDU) error",
  "sender, err := a.userIDQuerier(a.roomID, event.SenderID())",
  "if err != nil {",
  "return err",
  "}",
  "if sender == nil {",
  "return errorf(\"userID not found for sender %q in room %q\", event.SenderID(), event.RoomID().String())",
  "}",
  "if event.RoomID().String() != a.create.roomID {",
  "return errorf(\"create event has different roomID: %q (%s) != %q (%s)\", event.RoomID().String(), event.EventID(), a.create.roomID, a.create.eventID)",
  "}",
  "if err := a.create.DomainAllowed(string(sender.Domain())); err != nil {",
  "return err",
  "}",
  "if event.StateKey() == nil {",
  "return errorf(\"alias event must be a state event\")",
  "}",
  "switch event.Version() {",
  "case RoomVersionPseudoIDs:",
  "if !event.StateKeyEquals(string(event.SenderID())) {",
  "return errorf(\"alias state_key does not match sender domain, %q != %q\", event.SenderID(), *event.StateKey())",
  "}",
  "default:",
  "if !event.StateKeyEquals(string(sender.Domain())) {",
  "return errorf(\"alias state_key does not match sender domain, %q != %q\", sender.Domain(), *event.StateKey())",
  "}",
  "}",
  "return nil"
]

def eventauth_allowerContext_allowed : List String := [
  "func func(event PDU) error",
  "if !a.provider.Valid() {",
  "return errorf(\"authEvents contains events from different rooms\")",
  "}",
  "switch event.Type() {",
  "case spec.MRoomCreate:",
  "return a.createEventAllowed(event)",
  "case spec.MRoomAliases:",
  "return a.aliasEventAllowed(event)",
  "}",
  "if a.powerLevelsErr != nil {",
  "return a.powerLevelsErr",
  "}",
  "switch event.Type() {",
  "case spec.MRoomMember:",
  "return a.memberEventAllowed(event)",
  "case spec.MRoomPowerLevels:",
  "return a.powerLevelsEventAllowed(event)",
  "case spec.MRoomRedaction:",
  "return a.redactEventAllowed(event)",
  "default:",
  "return a.defaultEventAllowed(event)",
  "}"
]

def eventauth_allowerContext_createEventAllowed : List String := [
  "func func(event PDU) error",
  "if !event.StateKeyEquals(\"\") {",
  "return errorf(\"create event state key is not empty: %v\", event.StateKey())",
  "}",
  "if len(event.PrevEventIDs()) > 0 {",
  "return errorf(\"create event must be the first event in the room: found %d prev_events\", len(event.PrevEventIDs()))",
  "}",
  "sender, err := a.userIDQuerier(a.roomID, event.SenderID())",
  "if err != nil {",
  "return err",
  "}",
  "if sender == nil {",
  "return errorf(\"userID not found for sender %q in room %q\", event.SenderID(), event.RoomID().String())",
  "}",
  "verImpl, err := GetRoomVersion(event.Version())",
  "if err != nil {",
  "return nil",
  "}",
  "if err = verImpl.CheckCreateEvent(event, *sender, KnownRoomVersion); err != nil {",
  "return err",
  "}",
  "return nil"
]

def eventauth_allowerContext_defaultEventAllowed : List String := [
  "func func(event PDU) error",
  "allower, err := a.newEventAllower(event.SenderID())",
  "if err != nil {",
  "return err",
  "}",
  "return allower.commonChecks(event)"
]

def eventauth_allowerContext_memberEventAllowed : List String := [
  "func func(event PDU) error",
  "allower, err := a.newMembershipAllower(a.provider, event)",
  "if err != nil {",
  "return err",
  "}",
  "return allower.membershipAllowed(event)"
]

def eventauth_allowerContext_newEventAllower : List String := [
  "func func(senderID spec.SenderID) (e eventAllower, err error)",
  "e.allowerContext = a",
  "if e.member, err = NewMemberContentFromAuthEvents(a.provider, senderID); err != nil {",
  "return",
  "}",
  "return"
]

def eventauth_allowerContext_newMembershipAllower : List String := [
  "func func(authEvents AuthEventProvider, event PDU) (m membershipAllower, err error)",
  "m.allowerContext = a",
  "m.joinRule = a.joinRule",
  "m.roomVersionImpl, err = GetRoomVersion(event.Version())",
  "if err != nil {",
  "return",
  "}",
  "stateKey := event.StateKey()",
  "if stateKey == nil {",
  "err = errorf(\"m.room.member must be a state event\")",
  "return",
  "}",
  "m.targetID = *stateKey",
  "m.senderID = string(event.SenderID())",
  "if m.newMember, err = NewMemberContentFromEvent(event); err != nil {",
  "return",
  "}",
  "if m.oldMember, err = NewMemberContentFromAuthEvents(authEvents, spec.SenderID(m.targetID)); err != nil {",
  "return",
  "}",
  "if m.senderMember, err = NewMemberContentFromAuthEvents(authEvents, spec.SenderID(m.senderID)); err != nil {",
  "return",
  "}",
  "if m.newMember.ThirdPartyInvite != nil && m.newMember.Membership == spec.Invite {",
  "var token string",
  "if token, err = thirdPartyInviteToken(m.newMember.ThirdPartyInvite); err != nil {",
  "err = errorf(\"could not get third-party token: %s\", err)",
  "return",
  "}",
  "if m.thirdPartyInvite, err = NewThirdPartyInviteContentFromAuthEvents(authEvents, token); err != nil {",
  "return",
  "}",
  "}",
  "return"
]

def eventauth_allowerContext_powerLevelsEventAllowed : List String := [
  "func func(event PDU) error",
  "allower, err := a.newEventAllower(event.SenderID())",
  "if err != nil {",
  "return err",
  "}",
  "if err = allower.commonChecks(event); err != nil {",
  "return err",
  "}",
  "newPowerLevels, err := NewPowerLevelContentFromEvent(event)",
  "if err != nil {",
  "return err",
  "}",
  "for senderID := range newPowerLevels.Users {",
  "sender, err := a.userIDQuerier(a.roomID, spec.SenderID(senderID))",
  "if err != nil {",
  "return err",
  "}",
  "if sender == nil || !isValidUserID(sender.String()) {",
  "return errorf(\"Not a valid user ID: %q\", senderID)",
  "}",
  "}",
  "oldPowerLevels := a.powerLevels",
  "senderLevel := a.userPowerLevel(event.SenderID())",
  "if err = checkEventLevels(senderLevel, oldPowerLevels, newPowerLevels); err != nil {",
  "return err",
  "}",
  "verImpl, err := GetRoomVersion(event.Version())",
  "if err != nil {",
  "return nil",
  "}",
  "if err = verImpl.CheckPowerLevelEvent(string(event.SenderID()), a.createEvent, oldPowerLevels, newPowerLevels); err != nil {",
  "return err",
  "}",
  "return checkUserLevels(senderLevel, event.SenderID(), oldPowerLevels, newPowerLevels)"
]

def eventauth_allowerContext_redactEventAllowed : List String := [
  "func func(event PDU) error",
  "allower, err := a.newEventAllower(event.SenderID())",
  "if err != nil {",
  "return err",
  "}",
  "if err = allower.commonChecks(event); err != nil {",
  "return err",
  "}",
  "roomVersion := allower.create.RoomVersion",
  "if roomVersion != nil && *roomVersion != \"1\" && *roomVersion != \"2\" {",
  "return nil",
  "}",
  "redactDomain, err := domainFromID(event.Redacts())",
  "if err != nil {",
  "return err",
  "}",
  "sender, err := a.userIDQuerier(a.roomID, event.SenderID())",
  "if err != nil {",
  "return err",
  "}",
  "if string(sender.Domain()) == redactDomain {",
  "return nil",
  "}",
  "senderLevel := allower.userPowerLevel(event.SenderID())",
  "redactLevel := allower.powerLevels.Redact",
  "if senderLevel >= redactLevel {",
  "return nil",
  "}",
  "return errorf(\"%q is not allowed to redact message from %q. %d < %d\", sender, redactDomain, senderLevel, redactLevel)"
]

def eventauth_allowerContext_resetCreate : List String := [
  "func func()",
  "a.create = CreateContent{}",
  "a.creators = nil",
  "a.privilegedCreators = false"
]

def eventauth_allowerContext_update : List String := [
  "func func(provider AuthEventProvider)",
  "if provider != a.provider {",
  "a.provider = provider",
  "a.createEvent, a.powerLevelsEvent, a.joinRuleEvent = nil, nil, nil",
  "a.resetCreate()",
  "a.powerLevels = PowerLevelContent{}",
  "a.powerLevelsErr = nil",
  "a.joinRule = JoinRuleContent{}",
  "}",
  "if e, _ := provider.Create(); a.createEvent == nil || a.createEvent != e {",
  "if c, err := NewCreateContentFromAuthEvents(provider, a.userIDQuerier); err == nil {",
  "a.createEvent = e",
  "a.create = c",
  "a.creators = CreatorsFromCreateEvent(e)",
  "verImpl := MustGetRoomVersion(e.Version())",
  "a.privilegedCreators = verImpl.PrivilegedCreators()",
  "} else {",
  "a.createEvent = nil",
  "a.resetCreate()",
  "}",
  "}",
  "if e, _ := provider.PowerLevels(); a.powerLevelsEvent == nil || a.powerLevelsEvent != e {",
  "creator := \"\"",
  "if a.createEvent != nil {",
  "creator = string(a.createEvent.SenderID())",
  "}",
  "if p, err := NewPowerLevelContentFromAuthEvents(provider, creator); err == nil {",
  "a.powerLevelsEvent = e",
  "a.powerLevels = p",
  "a.powerLevelsErr = nil",
  "} else {",
  "a.powerLevelsEvent = nil",
  "a.powerLevels = PowerLevelContent{}",
  "a.powerLevelsErr = err",
  "}",
  "}",
  "if e, _ := provider.JoinRules(); a.joinRuleEvent == nil || a.joinRuleEvent != e {",
  "if j, err := NewJoinRuleContentFromAuthEvents(provider); err == nil {",
  "a.joinRuleEvent, _ = provider.JoinRules()",
  "a.joinRule = j",
  "} else {",
  "a.joinRuleEvent = nil",
  "a.joinRule = JoinRuleContent{}",
  "}",
  "}"
]

def eventauth_allowerContext_userPowerLevel : List String := [
  "func func(userID spec.SenderID) int64",
  "if a.privilegedCreators {",
  "if slices.Contains(a.creators, string(userID)) {",
  "return CreatorPowerLevel",
  "}",
  "}",
  "if a.powerLevelsEvent == nil {",
  "if userID == a.createEvent.SenderID() {",
  "return CreatorPowerLevel - 1",
  "}",
  "return 0",
  "}",
  "return a.powerLevels.UserLevel(userID)"
]

def eventauth_eventAllower_commonChecks : List String := [
  "func func(event PDU) error",
  "if event.RoomID().String() != e.create.roomID {",
  "return errorf(\"create event has different roomID1: %q (%s) != %q (%s)\", event.RoomID().String(), event.EventID(), e.create.roomID, e.create.eventID)",
  "}",
  "stateKey := event.StateKey()",
  "userID, err := e.userIDQuerier(e.roomID, event.SenderID())",
  "if err != nil {",
  "return err",
  "}",
  "if userID == nil {",
  "return errorf(\"userID not found for sender %q in room %q\", event.SenderID(), event.RoomID().String())",
  "}",
  "if err := e.create.UserIDAllowed(*userID); err != nil {",
  "return err",
  "}",
  "if e.member.Membership != spec.Join {",
  "return errorf(\"sender %q not in room\", event.SenderID())",
  "}",
  "senderLevel := e.userPowerLevel(event.SenderID())",
  "eventLevel := e.powerLevels.EventLevel(event.Type(), stateKey != nil)",
  "if senderLevel < eventLevel {",
  "return errorf(\"sender %q is not allowed to send event. %d < %d\", event.SenderID(), senderLevel, eventLevel)",
  "}",
  "if event.Type() != spec.MRoomThirdPartyInvite && stateKey != nil && len(*stateKey) > 0 && (*stateKey)[0] == '@' {",
  "if spec.SenderID(*stateKey) != event.SenderID() {",
  "return errorf(\"sender %q is not allowed to modify the state belonging to %q\", event.SenderID(), *stateKey)",
  "}",
  "}",
  "return nil"
]

def eventauth_membershipAllower_membershipAllowed : List String := [
  "func func(event PDU) error",
  "if m.create.roomID != event.RoomID().String() {",
  "return errorf(\"create event has different roomID: %q (%s) != %q (%s)\", event.RoomID().String(), event.EventID(), m.create.roomID, m.create.eventID)",
  "}",
  "var sender *spec.UserID",
  "var err error",
  "if event.Type() == spec.MRoomMember {",
  "mapping := membershipContent{}",
  "if err := json.Unmarshal(exactMembersOnly(event.Content(), &mapping), &mapping); err != nil {",
  "return err",
  "}",
  "if mapping.MXIDMapping != nil && event.Version() == RoomVersionPseudoIDs {",
  "sender, err = spec.NewUserID(mapping.MXIDMapping.UserID, true)",
  "if err != nil {",
  "return err",
  "}",
  "}",
  "}",
  "if sender == nil {",
  "sender, err = m.userIDQuerier(m.roomID, spec.SenderID(m.senderID))",
  "if err != nil {",
  "return err",
  "}",
  "}",
  "if sender == nil {",
  "return errorf(\"userID not found for sender %q in room %q\", m.senderID, event.RoomID().String())",
  "}",
  "if err := m.create.UserIDAllowed(*sender); err != nil {",
  "return err",
  "}",
  "if m.targetID == string(m.createEvent.SenderID()) && m.newMember.Membership == spec.Join && m.senderID == m.targetID && len(event.PrevEventIDs()) == 1 {",
  "prevEventID := event.PrevEventIDs()[0]",
  "if prevEventID == m.create.eventID {",
  "return nil",
  "}",
  "}",
  "if m.newMember.Membership == spec.Invite && m.newMember.ThirdPartyInvite != nil {",
  "return m.membershipAllowedFromThirdPartyInvite()",
  "}",
  "if m.targetID == m.senderID {",
  "return m.membershipAllowedSelf()",
  "}",
  "return m.membershipAllowedOther()"
]

def eventauth_membershipAllower_membershipAllowedFromThirdPartyInvite : List String := [
  "func func() error",
  "if m.targetID != m.newMember.ThirdPartyInvite.Signed.MXID {",
  "return errorf(\"The invite target %s doesn't match with the Matrix ID provided by the identity server %s\", m.targetID, m.newMember.ThirdPartyInvite.Signed.MXID)",
  "}",
  "marshalledSigned, err := json.Marshal(m.newMember.ThirdPartyInvite.Signed)",
  "if err != nil {",
  "return err",
  "}",
  "for _, publicKey := range m.thirdPartyInvite.PublicKeys {",
  "for domain, signatures := range m.newMember.ThirdPartyInvite.Signed.Signatures {",
  "for keyID := range signatures {",
  "if strings.HasPrefix(keyID, \"ed25519\") {",
  "if err = VerifyJSON(domain, KeyID(keyID), ed25519.PublicKey(publicKey.PublicKey), marshalledSigned); err == nil {",
  "return nil",
  "}",
  "}",
  "}",
  "}",
  "}",
  "return errorf(\"Couldn't verify signature on third-party invite for %s\", m.targetID)"
]

def eventauth_membershipAllower_membershipAllowedOther : List String := [
  "func func() error",
  "senderLevel := m.userPowerLevel(spec.SenderID(m.senderID))",
  "targetLevel := m.userPowerLevel(spec.SenderID(m.targetID))",
  "if m.senderMember.Membership != spec.Join {",
  "return errorf(\"sender %q is not in the room\", m.senderID)",
  "}",
  "switch m.newMember.Membership {",
  "case spec.Ban:",
  "if senderLevel >= m.powerLevels.Ban && senderLevel > targetLevel {",
  "return nil",
  "}",
  "return m.membershipFailed(\"sender has insufficient power to ban (sender level %d, target level %d, ban level %d)\", senderLevel, targetLevel, m.powerLevels.Ban)",
  "case spec.Leave:",
  "if m.oldMember.Membership == spec.Ban {",
  "if senderLevel >= m.powerLevels.Ban {",
  "return nil",
  "}",
  "return m.membershipFailed(\"sender has insufficient power to unban (sender level %d, ban level %d)\", senderLevel, m.powerLevels.Ban)",
  "}",
  "if senderLevel >= m.powerLevels.Kick && senderLevel > targetLevel {",
  "return nil",
  "}",
  "return m.membershipFailed(\"sender has insufficient power to kick (sender level %d, target level %d, kick level %d)\", senderLevel, targetLevel, m.powerLevels.Kick)",
  "case spec.Invite:",
  "if senderLevel < m.powerLevels.Invite {",
  "return m.membershipFailed(\"sender has insufficient power to invite (sender level %d, invite level %d)\", senderLevel, m.powerLevels.Invite)",
  "}",
  "switch m.oldMember.Membership {",
  "case spec.Join, spec.Ban:",
  "return m.membershipFailed(\"target cannot be invited when their membership is %q\", m.oldMember.Membership)",
  "default:",
  "return nil",
  "}",
  "case spec.Knock, spec.Join:",
  "return m.membershipFailed(\"sender cannot set membership of another user to %q\", m.newMember.Membership)",
  "default:",
  "return m.membershipFailed(\"membership %q is unknown\", m.newMember.Membership)",
  "}"
]

def eventauth_membershipAllower_membershipAllowedSelf : List String := [
  "func func() error",
  "if m.oldMember.Membership == spec.Leave && m.newMember.Membership == spec.Leave {",
  "return nil",
  "}",
  "if m.oldMember.Membership == spec.Ban {",
  "return m.membershipFailed(\"sender cannot set their own membership to %q\", m.newMember.Membership)",
  "}",
  "switch m.newMember.Membership {",
  "case spec.Knock:",
  "return m.roomVersionImpl.CheckKnockingAllowed(string(m.roomVersionImpl.Version()), m.senderID, m.targetID, m.joinRule.JoinRule, m.oldMember.Membership)",
  "case spec.Join:",
  "if m.joinRule.JoinRule == spec.Restricted || m.joinRule.JoinRule == spec.KnockRestricted {",
  "if err := m.membershipAllowedSelfForRestrictedJoin(); err != nil {",
  "return err",
  "}",
  "if m.joinRule.JoinRule == spec.Public {",
  "return nil",
  "}",
  "}",
  "if m.oldMember.Membership == spec.Invite {",
  "return nil",
  "}",
  "if m.oldMember.Membership == spec.Join {",
  "return nil",
  "}",
  "if m.joinRule.JoinRule == spec.Public {",
  "return nil",
  "}",
  "return m.membershipFailed(\"join rule %q forbids it\", m.joinRule.JoinRule)",
  "case spec.Leave:",
  "switch m.oldMember.Membership {",
  "case spec.Join:",
  "return nil",
  "case spec.Invite:",
  "return nil",
  "case spec.Knock:",
  "return m.roomVersionImpl.CheckKnockingAllowed(string(m.roomVersionImpl.Version()), m.senderID, m.targetID, spec.Knock, m.oldMember.Membership)",
  "default:",
  "return m.membershipFailed(\"sender cannot leave from membership state %q\", m.oldMember.Membership)",
  "}",
  "case spec.Invite, spec.Ban:",
  "return m.membershipFailed(\"sender cannot set their own membership to %q\", m.newMember.Membership)",
  "default:",
  "return m.membershipFailed(\"membership %q is unknown\", m.newMember.Membership)",
  "}"
]

def eventauth_membershipAllower_membershipAllowedSelfForRestrictedJoin : List String := [
  "func func() error",
  "if err := m.roomVersionImpl.CheckRestrictedJoinsAllowed(); err != nil {",
  "return errorf(\"restricted joins are not supported in this room version\")",
  "}",
  "if m.oldMember.Membership == spec.Join || m.oldMember.Membership == spec.Invite || m.newMember.AuthorisedVia == \"\" {",
  "m.joinRule.JoinRule = spec.Invite",
  "return nil",
  "}",
  "switch m.roomVersionImpl.Version() {",
  "case RoomVersionPseudoIDs:",
  "default:",
  "if _, _, err := SplitID('@', m.newMember.AuthorisedVia); err != nil {",
  "return errorf(\"the 'join_authorised_via_users_server' contains an invalid value %q\", m.newMember.AuthorisedVia)",
  "}",
  "}",
  "otherMember, err := m.provider.Member(spec.SenderID(m.newMember.AuthorisedVia))",
  "if err != nil {",
  "return errorf(\"failed to find the membership event for 'join_authorised_via_users_server' user %q\", m.newMember.AuthorisedVia)",
  "}",
  "if otherMember == nil {",
  "return errorf(\"failed to find the membership event for 'join_authorised_via_users_server' user %q\", m.newMember.AuthorisedVia)",
  "}",
  "otherMembership, err := otherMember.Membership()",
  "if err != nil {",
  "return errorf(\"failed to find the membership status for 'join_authorised_via_users_server' user %q\", m.newMember.AuthorisedVia)",
  "}",
  "if otherMembership != spec.Join {",
  "return errorf(\"the nominated 'join_authorised_via_users_server' user %q is not joined to the room\", m.newMember.AuthorisedVia)",
  "}",
  "if pl := m.userPowerLevel(spec.SenderID(m.newMember.AuthorisedVia)); pl < m.powerLevels.Invite {",
  "return errorf(\"the nominated 'join_authorised_via_users_server' user %q does not have permission to invite (%d < %d)\", m.newMember.AuthorisedVia, pl, m.powerLevels.Invite)",
  "}",
  "m.joinRule.JoinRule = spec.Public",
  "return nil"
]

def eventauth_membershipAllower_membershipFailed : List String := [
  "func func(format string, args ...interface{}) error",
  "if m.senderID == m.targetID {",
  "return errorf(\"%q is not allowed to change their membership from %q to %q as \"+format, append([]interface{}{m.targetID, m.oldMember.Membership, m.newMember.Membership}, args...)...)",
  "}",
  "return errorf(\"%q is not allowed to change the membership of %q from %q to %q as \"+format, append([]interface{}{m.senderID, m.targetID, m.oldMember.Membership, m.newMember.Membership}, args...)...)"
]

def eventauth_type_AuthEventProvider : List String := [
  "type AuthEventProvider interface { Create() (PDU, error) JoinRules() (PDU, error) PowerLevels() (PDU, error) Member(stateKey spec.SenderID) (PDU, error) ThirdPartyInvite(stateKey string) (PDU, error) Valid() bool }"
]

def eventauth_type_AuthEvents : List String := [
  "type AuthEvents struct { events map[StateKeyTuple]PDU roomIDs map[string]struct{} }"
]

def eventauth_type_NotAllowed : List String := [
  "type NotAllowed struct{ Message string }"
]

def eventauth_type_StateNeeded : List String := [
  "type StateNeeded struct { Create bool JoinRules bool PowerLevels bool Member []string ThirdPartyInvite []string }"
]

def eventauth_type_allowerContext : List String := [
  "type allowerContext struct { provider AuthEventProvider userIDQuerier spec.UserIDForSender createEvent PDU powerLevelsEvent PDU joinRuleEvent PDU create CreateContent creators []string privilegedCreators bool powerLevels PowerLevelContent joinRule JoinRuleContent powerLevelsErr error roomID spec.RoomID }"
]

def eventauth_type_eventAllower : List String := [
  "type eventAllower struct { *allowerContext member MemberContent }"
]

def eventauth_type_membershipAllower : List String := [
  "type membershipAllower struct { *allowerContext roomVersionImpl IRoomVersion thirdPartyInvite ThirdPartyInviteContent targetID string senderID string senderMember MemberContent oldMember MemberContent newMember MemberContent joinRule JoinRuleContent }"
]

def eventauth_type_membershipContent : List String := [
  "type membershipContent struct { Membership string `json:\"membership\"` ThirdPartyInvite *MemberThirdPartyInvite `json:\"third_party_invite,omitempty\"` AuthorizedVia string `json:\"join_authorised_via_users_server,omitempty\"` MXIDMapping *MXIDMapping `json:\"mxid_mapping,omitempty\"` }"
]

def eventcontent_CreateContent_DomainAllowed : List String := [
  "func func(domain string) error",
  "if domain == c.senderDomain {",
  "return nil",
  "}",
  "if c.Federate == nil || *c.Federate {",
  "return nil",
  "}",
  "return errorf(\"room is unfederatable\")"
]

def eventcontent_CreateContent_UserIDAllowed : List String := [
  "func func(id spec.UserID) error",
  "return c.DomainAllowed(string(id.Domain()))"
]

def eventcontent_HistoryVisibility_Scan : List String := [
  "func func(src interface{}) error",
  "switch v := src.(type) { case int64: s, ok := hisVisIntToStringMapping[uint8(v)] if !ok { *h = HistoryVisibilityShared return nil } *h = s return nil case float64: s, ok := hisVisIntToStringMapping[uint8(v)] if !ok { *h = HistoryVisibilityShared return nil } *h = s return nil default: return fmt.Errorf(\"unknown source type: %T for HistoryVisibilty\", src) }"
]

def eventcontent_HistoryVisibility_Value : List String := [
  "func func() (driver.Value, error)",
  "v, ok := hisVisStringToIntMapping[h]",
  "if !ok {",
  "return int64(hisVisStringToIntMapping[HistoryVisibilityShared]), nil",
  "}",
  "return int64(v), nil"
]

def eventcontent_MXIDMapping_Sign : List String := [
  "func func(serverName spec.ServerName, keyID KeyID, privateKey ed25519.PrivateKey) error",
  "m.Signatures = nil",
  "unsorted, err := json.Marshal(m)",
  "if err != nil {",
  "return err",
  "}",
  "canonical, err := CanonicalJSON(unsorted)",
  "if err != nil {",
  "return err",
  "}",
  "signature := spec.Base64Bytes(ed25519.Sign(privateKey, canonical))",
  "if m.Signatures == nil {",
  "m.Signatures = make(map[spec.ServerName]map[KeyID]spec.Base64Bytes)",
  "}",
  "if m.Signatures[serverName] == nil {",
  "m.Signatures[serverName] = make(map[KeyID]spec.Base64Bytes)",
  "}",
  "m.Signatures[serverName][keyID] = signature",
  "return nil"
]

def eventcontent_PowerLevelContent_Defaults : List String := [
  "func func()",
  "c.Invite = 0",
  "c.Ban = 50",
  "c.Kick = 50",
  "c.Redact = 50",
  "c.UsersDefault = 0",
  "c.EventsDefault = 0",
  "c.StateDefault = 50",
  "c.Notifications = map[string]int64{\"room\": 50}"
]

def eventcontent__CreatorsFromCreateEvent : List String := [
  "func func(createEvent PDU) (creators []string)",
  "creators = append(creators, string(createEvent.SenderID()))",
  "var content CreateContent",
  "err := json.Unmarshal(exactMembersOnly(createEvent.Content(), &content), &content)",
  "if err != nil {",
  "panic(\"invalid create event content: \" + string(createEvent.JSON()))",
  "}",
  "creators = append(creators, content.AdditionalCreators...)",
  "return creators"
]

def eventcontent__NewCreateContentFromAuthEvents : List String := [
  "func func(authEvents AuthEventProvider, userIDForSender spec.UserIDForSender) (c CreateContent, err error)",
  "var createEvent PDU",
  "if createEvent, err = authEvents.Create(); err != nil {",
  "return",
  "}",
  "if createEvent == nil {",
  "err = errorf(\"missing create event\")",
  "return",
  "}",
  "if err = json.Unmarshal(exactMembersOnly(createEvent.Content(), &c), &c); err != nil {",
  "err = errorf(\"unparseable create event content: %s\", err.Error())",
  "return",
  "}",
  "c.roomID = createEvent.RoomID().String()",
  "c.eventID = createEvent.EventID()",
  "sender, err := userIDForSender(createEvent.RoomID(), createEvent.SenderID())",
  "if err != nil {",
  "err = errorf(\"invalid sender userID: %s\", err.Error())",
  "return",
  "}",
  "if sender == nil {",
  "err = errorf(\"userID not found for sender: %s in room %s\", createEvent.SenderID(), createEvent.RoomID().String())",
  "return",
  "}",
  "c.senderDomain = string(sender.Domain())",
  "return"
]

def eventcontent__NewJoinRuleContentFromAuthEvents : List String := [
  "func func(authEvents AuthEventProvider) (c JoinRuleContent, err error)",
  "c.JoinRule = spec.Invite",
  "joinRulesEvent, err := authEvents.JoinRules()",
  "if err != nil {",
  "return",
  "}",
  "if joinRulesEvent == nil {",
  "return",
  "}",
  "if err = json.Unmarshal(exactMembersOnly(joinRulesEvent.Content(), &c), &c); err != nil {",
  "err = errorf(\"unparseable join_rules event content: %s\", err.Error())",
  "return",
  "}",
  "return"
]

def eventcontent__NewMemberContentFromAuthEvents : List String := [
  "func func(authEvents AuthEventProvider, senderID spec.SenderID) (c MemberContent, err error)",
  "var memberEvent PDU",
  "if memberEvent, err = authEvents.Member(senderID); err != nil {",
  "return",
  "}",
  "if memberEvent == nil {",
  "c.Membership = spec.Leave",
  "return",
  "}",
  "return NewMemberContentFromEvent(memberEvent)"
]

def eventcontent__NewMemberContentFromEvent : List String := [
  "func func(event PDU) (c MemberContent, err error)",
  "content, err := exactFieldsOnly(event.Content(), &c)",
  "if err != nil {",
  "err = errorf(\"unparseable member event content: %s\", err.Error())",
  "return",
  "}",
  "if err = json.Unmarshal(content, &c); err != nil {",
  "var partial membershipContent",
  "if err = json.Unmarshal(content, &partial); err != nil {",
  "err = errorf(\"unparseable member event content: %s\", err.Error())",
  "return",
  "}",
  "c.Membership = partial.Membership",
  "c.ThirdPartyInvite = partial.ThirdPartyInvite",
  "c.AuthorisedVia = partial.AuthorizedVia",
  "c.MXIDMapping = partial.MXIDMapping",
  "}",
  "return"
]

def eventcontent__NewPowerLevelContentFromAuthEvents : List String := [
  "func func(authEvents AuthEventProvider, creatorUserID string) (c PowerLevelContent, err error)",
  "powerLevelsEvent, err := authEvents.PowerLevels()",
  "if err != nil {",
  "return",
  "}",
  "if powerLevelsEvent != nil {",
  "return NewPowerLevelContentFromEvent(powerLevelsEvent)",
  "}",
  "c.Defaults()",
  "c.Users = map[string]int64{creatorUserID: 9007199254740991}",
  "c.StateDefault = 50",
  "return"
]

def eventcontent__NewPowerLevelContentFromEvent : List String := [
  "func func(event PDU) (c PowerLevelContent, err error)",
  "c.Defaults()",
  "verImpl, err := GetRoomVersion(event.Version())",
  "if err != nil {",
  "return c, err",
  "}",
  "if err = verImpl.ParsePowerLevels(event.Content(), &c); err != nil {",
  "err = errorf(\"unparseable power_levels event content: %s\", err.Error())",
  "return",
  "}",
  "return"
]

def eventcontent__NewThirdPartyInviteContentFromAuthEvents : List String := [
  "func func(authEvents AuthEventProvider, token string) (t ThirdPartyInviteContent, err error)",
  "var thirdPartyInviteEvent PDU",
  "if thirdPartyInviteEvent, err = authEvents.ThirdPartyInvite(token); err != nil {",
  "return",
  "}",
  "if thirdPartyInviteEvent == nil {",
  "err = errorf(\"Couldn't find third party invite event\")",
  "return",
  "}",
  "if err = json.Unmarshal(exactMembersOnly(thirdPartyInviteEvent.Content(), &t), &t); err != nil {",
  "err = errorf(\"unparseable third party invite event content: %s\", err.Error())",
  "}",
  "return"
]

def eventcontent__checkCreateEventV1 : List String := [
  "func func(event PDU, sender spec.UserID, knownRoomVersion KnownRoomVersionFunc) error",
  "if sender.Domain() != event.RoomID().Domain() {",
  "return errorf(\"create event room ID domain does not match sender: %q != %q\", event.RoomID().Domain(), sender.String())",
  "}",
  "c := struct { Creator *string `json:\"creator\"` RoomVersion *RoomVersion `json:\"room_version\"` }{}",
  "if err := json.Unmarshal(exactMembersOnly(event.Content(), &c), &c); err != nil {",
  "return errorf(\"create event has invalid content: %s\", err.Error())",
  "}",
  "if c.Creator == nil {",
  "return errorf(\"create event has no creator field\")",
  "}",
  "if c.RoomVersion != nil {",
  "if !knownRoomVersion(*c.RoomVersion) {",
  "return errorf(\"create event has unrecognised room version %q\", *c.RoomVersion)",
  "}",
  "}",
  "return nil"
]

def eventcontent__checkCreateEventV2 : List String := [
  "func func(event PDU, sender spec.UserID, knownRoomVersion KnownRoomVersionFunc) error",
  "if sender.Domain() != event.RoomID().Domain() {",
  "return errorf(\"create event room ID domain does not match sender: %q != %q\", event.RoomID().Domain(), sender.String())",
  "}",
  "c := struct { RoomVersion *RoomVersion `json:\"room_version\"` }{}",
  "if err := json.Unmarshal(exactMembersOnly(event.Content(), &c), &c); err != nil {",
  "return errorf(\"create event has invalid content: %s\", err.Error())",
  "}",
  "if c.RoomVersion != nil {",
  "if !knownRoomVersion(*c.RoomVersion) {",
  "return errorf(\"create event has unrecognised room version %q\", *c.RoomVersion)",
  "}",
  "}",
  "return nil"
]

def eventcontent__checkCreateEventV3 : List String := [
  "func func(event PDU, sender spec.UserID, knownRoomVersion KnownRoomVersionFunc) error",
  "c := struct { RoomVersion *RoomVersion `json:\"room_version\"` AdditionalCreators []string `json:\"additional_creators\"` }{}",
  "if err := json.Unmarshal(exactMembersOnly(event.Content(), &c), &c); err != nil {",
  "return errorf(\"create event has invalid content: %s\", err.Error())",
  "}",
  "if c.RoomVersion != nil {",
  "if !knownRoomVersion(*c.RoomVersion) {",
  "return errorf(\"create event has unrecognised room version %q\", *c.RoomVersion)",
  "}",
  "}",
  "if c.AdditionalCreators != nil {",
  "for _, creator := range c.AdditionalCreators {",
  "_, err := spec.NewUserID(creator, true)",
  "if err != nil {",
  "return errorf(\"additional creator '%s' invalid: %s\", creator, err)",
  "}",
  "}",
  "}",
  "ev := struct { RoomID string `json:\"room_id\"` }{}",
  "if err := json.Unmarshal(event.JSON(), &ev); err != nil {",
  "return errorf(\"create event cannot be valid json: %s\", err.Error())",
  "}",
  "if ev.RoomID != \"\" {",
  "return errorf(\"create event must not have a room_id set\")",
  "}",
  "return nil"
]

def eventcontent__domainFromID : List String := [
  "func func(id string) (string, error)",
  "parts := strings.SplitN(id, \":\", 2)",
  "if len(parts) != 2 {",
  "return \"\", errorf(\"invalid ID: %q\", id)",
  "}",
  "return parts[1], nil"
]

def eventcontent__isValidUserID : List String := [
  "func func(userID string) bool",
  "return userID[0] == '@' && strings.IndexByte(userID, ':') != -1"
]

def eventcontent__parseIntegerPowerLevels : List String := [
  "func func(contentBytes []byte, c *PowerLevelContent) error",
  "contentBytes = exactMembersOnly(contentBytes, c)",
  "var nulls struct { Ban notNullLevel `json:\"ban\"` Invite notNullLevel `json:\"invite\"` Kick notNullLevel `json:\"kick\"` Redact notNullLevel `json:\"redact\"` Users notNullLevels `json:\"users\"` UsersDefault notNullLevel `json:\"users_default\"` Events notNullLevels `json:\"events\"` EventsDefault notNullLevel `json:\"events_default\"` StateDefault notNullLevel `json:\"state_default\"` Notifications notNullLevels `json:\"notifications\"` }",
  "if err := json.Unmarshal(contentBytes, &nulls); err != nil {",
  "return err",
  "}",
  "return json.Unmarshal(contentBytes, c)"
]

def eventcontent__parsePowerLevels : List String := [
  "func func(contentBytes []byte, c *PowerLevelContent) error",
  "contentBytes = exactMembersOnly(contentBytes, c)",
  "var content struct { InviteLevel levelJSONValue `json:\"invite\"` BanLevel levelJSONValue `json:\"ban\"` KickLevel levelJSONValue `json:\"kick\"` RedactLevel levelJSONValue `json:\"redact\"` UserLevels map[string]levelJSONValue `json:\"users\"` UsersDefaultLevel levelJSONValue `json:\"users_default\"` EventLevels map[string]levelJSONValue `json:\"events\"` StateDefaultLevel levelJSONValue `json:\"state_default\"` EventDefaultLevel levelJSONValue `json:\"events_default\"` NotificationLevels map[string]levelJSONValue `json:\"notifications\"` }",
  "if err := json.Unmarshal(contentBytes, &content); err != nil {",
  "return errorf(\"unparseable power_levels event content: %s\", err.Error())",
  "}",
  "content.InviteLevel.assignIfExists(&c.Invite)",
  "content.BanLevel.assignIfExists(&c.Ban)",
  "content.KickLevel.assignIfExists(&c.Kick)",
  "content.RedactLevel.assignIfExists(&c.Redact)",
  "content.UsersDefaultLevel.assignIfExists(&c.UsersDefault)",
  "content.StateDefaultLevel.assignIfExists(&c.StateDefault)",
  "content.EventDefaultLevel.assignIfExists(&c.EventsDefault)",
  "for k, v := range content.UserLevels {",
  "if c.Users == nil {",
  "c.Users = make(map[string]int64)",
  "}",
  "c.Users[k] = v.value",
  "}",
  "for k, v := range content.EventLevels {",
  "if c.Events == nil {",
  "c.Events = make(map[string]int64)",
  "}",
  "c.Events[k] = v.value",
  "}",
  "for k, v := range content.NotificationLevels {",
  "if c.Notifications == nil {",
  "c.Notifications = make(map[string]int64)",
  "}",
  "c.Notifications[k] = v.value",
  "}",
  "return nil"
]

def eventcontent_levelJSONValue_UnmarshalJSON : List String := [
  "func func(data []byte) error",
  "var stringValue string",
  "var int64Value int64",
  "var floatValue float64",
  "var err error",
  "if int64Value, err = strconv.ParseInt(string(data), 10, 64); err != nil {",
  "if err = json.Unmarshal(data, &stringValue); err != nil {",
  "if floatValue, err = strconv.ParseFloat(string(data), 64); err != nil {",
  "return err",
  "}",
  "int64Value = int64(floatValue)",
  "} else {",
  "int64Value, err = strconv.ParseInt(strings.TrimSpace(stringValue), 10, 64)",
  "if err != nil {",
  "return err",
  "}",
  "}",
  "}",
  "v.exists = true",
  "v.value = int64Value",
  "return nil"
]

def eventcontent_levelJSONValue_assignIfExists : List String := [
  "func func(to *int64)",
  "if v.exists {",
  "*to = v.value",
  "}"
]

def eventcontent_notNullLevel_UnmarshalJSON : List String := [
  "func func(data []byte) error",
  "if string(data) == \"null\" {",
  "return fmt.Errorf(\"power level is null\")",
  "}",
  "return nil"
]

def eventcontent_notNullLevels_UnmarshalJSON : List String := [
  "func func(data []byte) error",
  "var levels map[string]notNullLevel",
  "if err := json.Unmarshal(data, &levels); err != nil {",
  "return err",
  "}",
  "if levels == nil {",
  "return fmt.Errorf(\"map of power levels is null\")",
  "}",
  "return nil"
]

def eventcontent_type_CreateContent : List String := [
  "type CreateContent struct { senderDomain string roomID string eventID string Federate *bool `json:\"m.federate,omitempty\"` Creator string `json:\"creator\"` RoomVersion *RoomVersion `json:\"room_version,omitempty\"` Predecessor *PreviousRoom `json:\"predecessor,omitempty\"` RoomType string `json:\"type,omitempty\"` AdditionalCreators []string `json:\"additional_creators,omitempty\"` }"
]

def eventcontent_type_HistoryVisibility : List String := [
  "type HistoryVisibility string"
]

def eventcontent_type_HistoryVisibilityContent : List String := [
  "type HistoryVisibilityContent struct { HistoryVisibility HistoryVisibility `json:\"history_visibility\"` }"
]

def eventcontent_type_JoinRuleContent : List String := [
  "type JoinRuleContent struct { JoinRule string `json:\"join_rule\"` Allow []JoinRuleContentAllowRule `json:\"allow,omitempty\"` }"
]

def eventcontent_type_JoinRuleContentAllowRule : List String := [
  "type JoinRuleContentAllowRule struct { Type string `json:\"type\"` RoomID string `json:\"room_id\"` }"
]

def eventcontent_type_MXIDMapping : List String := [
  "type MXIDMapping struct { UserRoomKey spec.SenderID `json:\"user_room_key\"` UserID string `json:\"user_id\"` Signatures map[spec.ServerName]map[KeyID]spec.Base64Bytes `json:\"signatures,omitempty\"` }"
]

def eventcontent_type_MemberContent : List String := [
  "type MemberContent struct { Membership string `json:\"membership\"` DisplayName string `json:\"displayname,omitempty\"` AvatarURL string `json:\"avatar_url,omitempty\"` Reason string `json:\"reason,omitempty\"` IsDirect bool `json:\"is_direct,omitempty\"` ThirdPartyInvite *MemberThirdPartyInvite `json:\"third_party_invite,omitempty\"` AuthorisedVia string `json:\"join_authorised_via_users_server,omitempty\"` MXIDMapping *MXIDMapping `json:\"mxid_mapping,omitempty\"` }"
]

def eventcontent_type_MemberThirdPartyInvite : List String := [
  "type MemberThirdPartyInvite struct { DisplayName string `json:\"display_name\"` Signed MemberThirdPartyInviteSigned `json:\"signed\"` }"
]

def eventcontent_type_MemberThirdPartyInviteSigned : List String := [
  "type MemberThirdPartyInviteSigned struct { MXID string `json:\"mxid\"` Signatures map[string]map[string]string `json:\"signatures\"` Token string `json:\"token\"` }"
]

def eventcontent_type_PowerLevelContent : List String := [
  "type PowerLevelContent struct { Ban int64 `json:\"ban\"` Invite int64 `json:\"invite\"` Kick int64 `json:\"kick\"` Redact int64 `json:\"redact\"` Users map[string]int64 `json:\"users\"` UsersDefault int64 `json:\"users_default\"` Events map[string]int64 `json:\"events\"` EventsDefault int64 `json:\"events_default\"` StateDefault int64 `json:\"state_default\"` Notifications map[string]int64 `json:\"notifications\"` }"
]

def eventcontent_type_PreviousRoom : List String := [
  "type PreviousRoom struct { RoomID string `json:\"room_id\"` EventID string `json:\"event_id\"` }"
]

def eventcontent_type_PublicKey : List String := [
  "type PublicKey struct { PublicKey spec.Base64Bytes `json:\"public_key\"` KeyValidityURL string `json:\"key_validity_url\"` }"
]

def eventcontent_type_RelatesTo : List String := [
  "type RelatesTo struct { EventID string `json:\"event_id\"` RelationType string `json:\"rel_type\"` }"
]

def eventcontent_type_RelationContent : List String := [
  "type RelationContent struct { Relations *RelatesTo `json:\"m.relates_to\"` }"
]

def eventcontent_type_ThirdPartyInviteContent : List String := [
  "type ThirdPartyInviteContent struct { DisplayName string `json:\"display_name\"` KeyValidityURL string `json:\"key_validity_url\"` PublicKey string `json:\"public_key\"` PublicKeys []PublicKey `json:\"public_keys\"` }"
]

def eventcontent_type_levelJSONValue : List String := [
  "type levelJSONValue struct { exists bool value int64 }"
]

def eventcontent_type_notNullLevel : List String := [
  "type notNullLevel struct{}"
]

def eventcontent_type_notNullLevels : List String := [
  "type notNullLevels struct{}"
]

def functions : List String := ["eventauth.go:AuthEvents.AddEvent", "eventauth.go:AuthEvents.Clear", "eventauth.go:AuthEvents.Create", "eventauth.go:AuthEvents.JoinRules", "eventauth.go:AuthEvents.Member", "eventauth.go:AuthEvents.PowerLevels", "eventauth.go:AuthEvents.ThirdPartyInvite", "eventauth.go:AuthEvents.Valid", "eventauth.go:NotAllowed.Error", "eventauth.go:StateNeeded.AuthEventReferences", "eventauth.go:StateNeeded.Tuples", "eventauth.go:.Allowed", "eventauth.go:.NewAuthEvents", "eventauth.go:.StateNeededForAuth", "eventauth.go:.StateNeededForProtoEvent", "eventauth.go:.accumulateStateNeeded", "eventauth.go:.allowRestrictedJoins", "eventauth.go:.checkEventLevels", "eventauth.go:.checkKnocking", "eventauth.go:.checkNotificationLevels", "eventauth.go:.checkPowerLevelEventV1", "eventauth.go:.checkPowerLevelEventV2", "eventauth.go:.checkPowerLevelEventV3", "eventauth.go:.checkUserLevels", "eventauth.go:.disallowKnocking", "eventauth.go:.disallowRestrictedJoins", "eventauth.go:.errorf", "eventauth.go:.newAllowerContext", "eventauth.go:.thirdPartyInviteToken", "eventauth.go:allowerContext.aliasEventAllowed", "eventauth.go:allowerContext.allowed", "eventauth.go:allowerContext.createEventAllowed", "eventauth.go:allowerContext.defaultEventAllowed", "eventauth.go:allowerContext.memberEventAllowed", "eventauth.go:allowerContext.newEventAllower", "eventauth.go:allowerContext.newMembershipAllower", "eventauth.go:allowerContext.powerLevelsEventAllowed", "eventauth.go:allowerContext.redactEventAllowed", "eventauth.go:allowerContext.resetCreate", "eventauth.go:allowerContext.update", "eventauth.go:allowerContext.userPowerLevel", "eventauth.go:eventAllower.commonChecks", "eventauth.go:membershipAllower.membershipAllowed", "eventauth.go:membershipAllower.membershipAllowedFromThirdPartyInvite", "eventauth.go:membershipAllower.membershipAllowedOther", "eventauth.go:membershipAllower.membershipAllowedSelf", "eventauth.go:membershipAllower.membershipAllowedSelfForRestrictedJoin", "eventauth.go:membershipAllower.membershipFailed", "eventauth.go:type AuthEventProvider", "eventauth.go:type AuthEvents", "eventauth.go:type NotAllowed", "eventauth.go:type StateNeeded", "eventauth.go:type allowerContext", "eventauth.go:type eventAllower", "eventauth.go:type membershipAllower", "eventauth.go:type membershipContent", "eventcontent.go:CreateContent.DomainAllowed", "eventcontent.go:CreateContent.UserIDAllowed", "eventcontent.go:HistoryVisibility.Scan", "eventcontent.go:HistoryVisibility.Value", "eventcontent.go:MXIDMapping.Sign", "eventcontent.go:PowerLevelContent.Defaults", "eventcontent.go:.CreatorsFromCreateEvent", "eventcontent.go:.NewCreateContentFromAuthEvents", "eventcontent.go:.NewJoinRuleContentFromAuthEvents", "eventcontent.go:.NewMemberContentFromAuthEvents", "eventcontent.go:.NewMemberContentFromEvent", "eventcontent.go:.NewPowerLevelContentFromAuthEvents", "eventcontent.go:.NewPowerLevelContentFromEvent", "eventcontent.go:.NewThirdPartyInviteContentFromAuthEvents", "eventcontent.go:.checkCreateEventV1", "eventcontent.go:.checkCreateEventV2", "eventcontent.go:.checkCreateEventV3", "eventcontent.go:.domainFromID", "eventcontent.go:.isValidUserID", "eventcontent.go:.parseIntegerPowerLevels", "eventcontent.go:.parsePowerLevels", "eventcontent.go:levelJSONValue.UnmarshalJSON", "eventcontent.go:levelJSONValue.assignIfExists", "eventcontent.go:notNullLevel.UnmarshalJSON", "eventcontent.go:notNullLevels.UnmarshalJSON", "eventcontent.go:type CreateContent", "eventcontent.go:type HistoryVisibility", "eventcontent.go:type HistoryVisibilityContent", "eventcontent.go:type JoinRuleContent", "eventcontent.go:type JoinRuleContentAllowRule", "eventcontent.go:type MXIDMapping", "eventcontent.go:type MemberContent", "eventcontent.go:type MemberThirdPartyInvite", "eventcontent.go:type MemberThirdPartyInviteSigned", "eventcontent.go:type PowerLevelContent", "eventcontent.go:type PreviousRoom", "eventcontent.go:type PublicKey", "eventcontent.go:type RelatesTo", "eventcontent.go:type RelationContent", "eventcontent.go:type ThirdPartyInviteContent", "eventcontent.go:type levelJSONValue", "eventcontent.go:type notNullLevel", "eventcontent.go:type notNullLevels"]

end VPins.C07
