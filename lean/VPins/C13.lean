/- PINNED copy of the statement skeletons of the Go functions the C13 model mirrors (written by tools/pin.sh
   when the model was last validated against the code). Compared with the regenerated VGen.SkelC13 in VProps/PinC13.lean. -/
namespace VPins.C13

def fclient_request_FederationRequest_Content : List String := [
  "func func() []byte",
  "return []byte(r.fields.Content)"
]

def fclient_request_FederationRequest_Destination : List String := [
  "func func() spec.ServerName",
  "return r.fields.Destination"
]

def fclient_request_FederationRequest_HTTPRequest : List String := [
  "func func() (*http.Request, error)",
  "urlStr := fmt.Sprintf(\"matrix://%s%s\", r.fields.Destination, r.fields.RequestURI)",
  "var content io.Reader",
  "if r.fields.Content != nil {",
  "content = bytes.NewReader([]byte(r.fields.Content))",
  "}",
  "httpReq, err := http.NewRequest(r.fields.Method, urlStr, content)",
  "if err != nil {",
  "return nil, err",
  "}",
  "if httpReq.URL.RequestURI() != r.fields.RequestURI {",
  "return nil, fmt.Errorf(\"gomatrixserverlib: Request URI didn't encode properly. Wanted %q. Got %q\", r.fields.RequestURI, httpReq.URL.RequestURI())",
  "}",
  "if r.fields.Content != nil {",
  "httpReq.Header.Set(\"Content-Type\", \"application/json\")",
  "}",
  "for keyID, sig := range r.fields.Signatures[r.fields.Origin] {",
  "if !isSafeInHTTPQuotedString(string(r.fields.Origin)) {",
  "return nil, fmt.Errorf(\"gomatrixserverlib: Request Origin isn't safe to include in an HTTP header\")",
  "}",
  "if !isSafeInHTTPQuotedString(string(keyID)) {",
  "return nil, fmt.Errorf(\"gomatrixserverlib: Request key ID isn't safe to include in an HTTP header\")",
  "}",
  "if !isSafeInHTTPQuotedString(string(r.fields.Destination)) {",
  "return nil, fmt.Errorf(\"gomatrixserverlib: Request Destination isn't safe to include in an HTTP header\")",
  "}",
  "httpReq.Header.Add(\"Authorization\", fmt.Sprintf(\"X-Matrix origin=\\\"%s\\\",key=\\\"%s\\\",sig=\\\"%s\\\",destination=\\\"%s\\\"\", r.fields.Origin, keyID, sig, r.fields.Destination))",
  "}",
  "return httpReq, nil"
]

def fclient_request_FederationRequest_Method : List String := [
  "func func() string",
  "return r.fields.Method"
]

def fclient_request_FederationRequest_Origin : List String := [
  "func func() spec.ServerName",
  "return r.fields.Origin"
]

def fclient_request_FederationRequest_RequestURI : List String := [
  "func func() string",
  "return r.fields.RequestURI"
]

def fclient_request_FederationRequest_SetContent : List String := [
  "func func(content interface{}) error",
  "if r.fields.Content != nil {",
  "return fmt.Errorf(\"gomatrixserverlib: content already set on the request\")",
  "}",
  "if r.fields.Signatures != nil {",
  "return fmt.Errorf(\"gomatrixserverlib: the request is signed and cannot be modified\")",
  "}",
  "data, err := json.Marshal(content)",
  "if err != nil {",
  "return err",
  "}",
  "r.fields.Content = spec.RawJSON(data)",
  "return nil"
]

def fclient_request_FederationRequest_Sign : List String := [
  "func func(serverName spec.ServerName, keyID gomatrixserverlib.KeyID, privateKey ed25519.PrivateKey) error",
  "if r.fields.Origin != \"\" && r.fields.Origin != serverName {",
  "return fmt.Errorf(\"gomatrixserverlib: the request is already signed by a different server\")",
  "}",
  "r.fields.Origin = serverName",
  "if err := r.checkFieldsUTF8(); err != nil {",
  "return err",
  "}",
  "data, err := json.Marshal(r.fields)",
  "if err != nil {",
  "return err",
  "}",
  "signedData, err := gomatrixserverlib.SignJSON(string(serverName), keyID, privateKey, data)",
  "if err != nil {",
  "return err",
  "}",
  "return json.Unmarshal(signedData, &r.fields)"
]

def fclient_request_FederationRequest_checkFieldsUTF8 : List String := [
  "func func() error",
  "for _, field := range []string{r.fields.Method, r.fields.RequestURI, string(r.fields.Origin), string(r.fields.Destination)} {",
  "if !utf8.ValidString(field) {",
  "return fmt.Errorf(\"gomatrixserverlib: the request method, URI, origin and destination must be valid UTF-8, not %q\", field)",
  "}",
  "}",
  "return nil"
]

def fclient_request__NewFederationRequest : List String := [
  "func func(method string, origin, destination spec.ServerName, requestURI string) FederationRequest",
  "var r FederationRequest",
  "r.fields.Origin = origin",
  "r.fields.Destination = destination",
  "r.fields.Method = strings.ToUpper(method)",
  "r.fields.RequestURI = requestURI",
  "return r"
]

def fclient_request__ParseAuthorization : List String := [
  "func func(header string) (scheme string, origin, destination spec.ServerName, key gomatrixserverlib.KeyID, sig string)",
  "parts := strings.SplitN(header, \" \", 2)",
  "scheme = parts[0]",
  "if scheme != \"X-Matrix\" {",
  "return",
  "}",
  "if len(parts) != 2 {",
  "return",
  "}",
  "for _, data := range strings.Split(parts[1], \",\") {",
  "pair := strings.SplitN(data, \"=\", 2)",
  "if len(pair) != 2 {",
  "continue",
  "}",
  "name := strings.TrimSpace(pair[0])",
  "value := strings.Trim(strings.TrimSpace(pair[1]), \"\\\"\")",
  "if name == \"origin\" {",
  "origin = spec.ServerName(value)",
  "}",
  "if name == \"key\" {",
  "key = gomatrixserverlib.KeyID(value)",
  "}",
  "if name == \"sig\" {",
  "sig = value",
  "}",
  "if name == \"destination\" {",
  "destination = spec.ServerName(value)",
  "}",
  "}",
  "return"
]

def fclient_request__VerifyHTTPRequest : List String := [
  "func func(req *http.Request, now time.Time, destination spec.ServerName, isLocalServerName func(spec.ServerName) bool, keys gomatrixserverlib.JSONVerifier) (*FederationRequest, util.JSONResponse)",
  "request, err := readHTTPRequest(req)",
  "if err != nil {",
  "util.GetLogger(req.Context()).WithError(err).Print(\"Error parsing HTTP headers\")",
  "return nil, util.MessageResponse(400, \"Bad Request\")",
  "}",
  "if request.fields.Destination != \"\" {",
  "switch {",
  "case isLocalServerName != nil && !isLocalServerName(request.fields.Destination):",
  "fallthrough",
  "case isLocalServerName == nil && destination != request.fields.Destination:",
  "message := fmt.Sprintf(\"Unrecognised server name %q for Destination\", request.fields.Destination)",
  "util.GetLogger(req.Context()).Warn(message)",
  "return nil, util.MessageResponse(400, message)",
  "}",
  "} else if request.fields.Destination == \"\" {",
  "request.fields.Destination = destination",
  "}",
  "toVerify, err := json.Marshal(request.fields)",
  "if err != nil {",
  "util.GetLogger(req.Context()).WithError(err).Print(\"Error parsing JSON\")",
  "return nil, util.MessageResponse(400, \"Invalid JSON\")",
  "}",
  "if request.Origin() == \"\" {",
  "message := \"Missing \\\"Authorization: X-Matrix ...\\\" HTTP header\"",
  "util.GetLogger(req.Context()).WithError(err).Print(message)",
  "return nil, util.MessageResponse(401, message)",
  "}",
  "_, _, valid := spec.ParseAndValidateServerName(request.Origin())",
  "if !valid {",
  "message := \"Invalid server name for Origin\"",
  "util.GetLogger(req.Context()).WithError(err).Print(message)",
  "return nil, util.MessageResponse(400, message)",
  "}",
  "results, err := keys.VerifyJSONs(req.Context(), []gomatrixserverlib.VerifyJSONRequest{{ServerName: request.Origin(), AtTS: spec.AsTimestamp(now), Message: toVerify, ValidityCheckingFunc: gomatrixserverlib.StrictValiditySignatureCheck}})",
  "if err != nil {",
  "message := \"Error authenticating request\"",
  "util.GetLogger(req.Context()).WithError(err).Print(message)",
  "return nil, util.MessageResponse(500, message)",
  "}",
  "if results[0].Error != nil {",
  "message := \"Invalid request signature\"",
  "util.GetLogger(req.Context()).WithError(results[0].Error).Print(message)",
  "return nil, util.MessageResponse(401, message)",
  "}",
  "return request, util.JSONResponse{Code: 200, JSON: struct{}{}}"
]

def fclient_request__readHTTPRequest : List String := [
  "func func(req *http.Request) (*FederationRequest, error)",
  "var result FederationRequest",
  "result.fields.Method = req.Method",
  "result.fields.RequestURI = req.URL.RequestURI()",
  "if err := result.checkFieldsUTF8(); err != nil {",
  "return nil, err",
  "}",
  "content, err := io.ReadAll(req.Body)",
  "if err != nil {",
  "return nil, err",
  "}",
  "if len(content) != 0 {",
  "mimetype, _, err := mime.ParseMediaType(req.Header.Get(\"Content-Type\"))",
  "if err != nil {",
  "return nil, fmt.Errorf(\"gomatrixserverlib: The request had an invalid Content-Type header: %w\", err)",
  "}",
  "if mimetype != \"application/json\" {",
  "return nil, fmt.Errorf(\"gomatrixserverlib: The request must be \\\"application/json\\\" not %q\", mimetype)",
  "}",
  "if !utf8.Valid(content) {",
  "return nil, fmt.Errorf(\"gomatrixserverlib: The request contained invalid UTF-8\")",
  "}",
  "result.fields.Content = spec.RawJSON(content)",
  "}",
  "for _, authorization := range req.Header[\"Authorization\"] {",
  "scheme, origin, destination, key, sig := ParseAuthorization(authorization)",
  "if scheme != \"X-Matrix\" {",
  "continue",
  "}",
  "if origin == \"\" || key == \"\" || sig == \"\" {",
  "return nil, fmt.Errorf(\"gomatrixserverlib: invalid X-Matrix authorization header\")",
  "}",
  "if result.fields.Origin != \"\" && result.fields.Origin != origin {",
  "return nil, fmt.Errorf(\"gomatrixserverlib: different origins in X-Matrix authorization headers\")",
  "}",
  "result.fields.Origin = origin",
  "result.fields.Destination = destination",
  "if err := result.checkFieldsUTF8(); err != nil {",
  "return nil, err",
  "}",
  "if result.fields.Signatures == nil {",
  "result.fields.Signatures = map[spec.ServerName]map[gomatrixserverlib.KeyID]string{origin: {key: sig}}",
  "} else {",
  "result.fields.Signatures[origin][key] = sig",
  "}",
  "}",
  "return &result, nil"
]

def fclient_request_type_FederationRequest : List String := [
  "type FederationRequest struct { fields struct { Content spec.RawJSON `json:\"content,omitempty\"` Destination spec.ServerName `json:\"destination\"` Method string `json:\"method\"` Origin spec.ServerName `json:\"origin\"` RequestURI string `json:\"uri\"` Signatures map[spec.ServerName]map[gomatrixserverlib.KeyID]string `json:\"signatures,omitempty\"` } }"
]

def keyring_DirectKeyFetcher_FetchKeys : List String := [
  "func func(ctx context.Context, requests map[PublicKeyLookupRequest]spec.Timestamp) (map[PublicKeyLookupRequest]PublicKeyLookupResult, error)",
  "localServerRequests := []PublicKeyLookupRequest{}",
  "byServer := map[spec.ServerName]map[PublicKeyLookupRequest]spec.Timestamp{}",
  "for req, ts := range requests {",
  "if d.IsLocalServerName(req.ServerName) {",
  "localServerRequests = append(localServerRequests, req)",
  "continue",
  "}",
  "server := byServer[req.ServerName]",
  "if server == nil {",
  "server = map[PublicKeyLookupRequest]spec.Timestamp{}",
  "byServer[req.ServerName] = server",
  "}",
  "server[req] = ts",
  "}",
  "numWorkers := 64",
  "if len(byServer) < numWorkers {",
  "numWorkers = len(byServer)",
  "}",
  "results := map[PublicKeyLookupRequest]PublicKeyLookupResult{}",
  "localKey := &PublicKeyLookupResult{VerifyKey: VerifyKey{Key: d.LocalPublicKey}, ExpiredTS: PublicKeyNotExpired, ValidUntilTS: spec.AsTimestamp(time.Unix(1<<37, 0))}",
  "for _, req := range localServerRequests {",
  "results[req] = *localKey",
  "}",
  "var resultsMutex sync.Mutex",
  "var wait sync.WaitGroup",
  "wait.Add(numWorkers)",
  "pending := make(chan spec.ServerName, len(byServer))",
  "for serverName := range byServer {",
  "pending <- serverName",
  "}",
  "close(pending)",
  "worker := func(ch <-chan spec.ServerName) { defer wait.Done() for server := range ch { serverResults, err := d.fetchKeysForServer(ctx, server) if err != nil { serverResults, err = d.fetchNotaryKeysForServer(ctx, server) if err != nil { continue } } resultsMutex.Lock() for req, keys := range serverResults { results[req] = keys } resultsMutex.Unlock() } }",
  "for i := 0; i < numWorkers; i++ {",
  "go worker(pending)",
  "}",
  "wait.Wait()",
  "return results, nil"
]

def keyring_DirectKeyFetcher_FetcherName : List String := [
  "func func() string",
  "return \"DirectKeyFetcher\""
]

def keyring_DirectKeyFetcher_fetchKeysForServer : List String := [
  "func func(ctx context.Context, serverName spec.ServerName) (map[PublicKeyLookupRequest]PublicKeyLookupResult, error)",
  "ctx, cancel := context.WithTimeout(ctx, time.Second*15)",
  "defer cancel()",
  "keys, err := d.Client.GetServerKeys(ctx, serverName)",
  "if err != nil {",
  "if err != nil {",
  "return nil, err",
  "}",
  "}",
  "checks, _ := CheckKeys(serverName, time.Unix(0, 0), keys)",
  "if !checks.AllChecksOK {",
  "return nil, fmt.Errorf(\"gomatrixserverlib: key response direct from %q failed checks\", serverName)",
  "}",
  "results := map[PublicKeyLookupRequest]PublicKeyLookupResult{}",
  "mapServerKeysToPublicKeyLookupResult(keys, results)",
  "return results, nil"
]

def keyring_DirectKeyFetcher_fetchNotaryKeysForServer : List String := [
  "func func(ctx context.Context, serverName spec.ServerName) (map[PublicKeyLookupRequest]PublicKeyLookupResult, error)",
  "ctx, cancel := context.WithTimeout(ctx, time.Second*15)",
  "defer cancel()",
  "var keys ServerKeys",
  "allKeys, err := d.Client.LookupServerKeys(ctx, serverName, map[PublicKeyLookupRequest]spec.Timestamp{{serverName, \"\"}: spec.AsTimestamp(time.Now())})",
  "if err != nil {",
  "return nil, err",
  "}",
  "found := false",
  "for _, serverKeys := range allKeys {",
  "if serverKeys.ServerName == serverName {",
  "keys = serverKeys",
  "found = true",
  "break",
  "}",
  "}",
  "if !found {",
  "return nil, fmt.Errorf(\"gomatrixserverlib: notary key response contained no results for %q\", serverName)",
  "}",
  "checks, _ := CheckKeys(serverName, time.Unix(0, 0), keys)",
  "if !checks.AllChecksOK {",
  "return nil, fmt.Errorf(\"gomatrixserverlib: notary key response direct from %q failed checks\", serverName)",
  "}",
  "results := map[PublicKeyLookupRequest]PublicKeyLookupResult{}",
  "mapServerKeysToPublicKeyLookupResult(keys, results)",
  "return results, nil"
]

def keyring_JSONVerifierSelf_VerifyJSONs : List String := [
  "func func(ctx context.Context, requests []VerifyJSONRequest) ([]VerifyJSONResult, error)",
  "results := make([]VerifyJSONResult, len(requests))",
  "for i := range requests {",
  "key, err := spec.SenderID(requests[i].ServerName).RawBytes()",
  "if err != nil {",
  "results[i].Error = fmt.Errorf(\"unable to get key from senderID for %s: %w\", requests[i].ServerName, err)",
  "continue",
  "}",
  "if err = VerifyJSON(string(requests[i].ServerName), \"ed25519:1\", ed25519.PublicKey(key), requests[i].Message); err != nil {",
  "results[i].Error = err",
  "continue",
  "}",
  "}",
  "return results, nil"
]

def keyring_KeyRing_VerifyJSONs : List String := [
  "func func(ctx context.Context, requests []VerifyJSONRequest) ([]VerifyJSONResult, error)",
  "logger := util.GetLogger(ctx)",
  "results := make([]VerifyJSONResult, len(requests))",
  "keyIDs := make([][]KeyID, len(requests))",
  "numRequests := len(requests)",
  "for i := range requests {",
  "ids, err := ListKeyIDs(string(requests[i].ServerName), requests[i].Message)",
  "if err != nil {",
  "results[i].Error = fmt.Errorf(\"gomatrixserverlib: error extracting key IDs\")",
  "continue",
  "}",
  "for _, keyID := range ids {",
  "if k.isAlgorithmSupported(keyID) {",
  "keyIDs[i] = append(keyIDs[i], keyID)",
  "}",
  "}",
  "if len(keyIDs[i]) == 0 {",
  "results[i].Error = fmt.Errorf(\"gomatrixserverlib: not signed by %q with a supported algorithm\", requests[i].ServerName)",
  "continue",
  "}",
  "results[i].Error = fmt.Errorf(\"gomatrixserverlib: could not download key for %q\", requests[i].ServerName)",
  "}",
  "keyRequests := k.publicKeyRequests(requests, results, keyIDs)",
  "if len(keyRequests) == 0 {",
  "return results, nil",
  "}",
  "keysFromDatabase, err := k.KeyDatabase.FetchKeys(ctx, keyRequests)",
  "if err != nil {",
  "return nil, err",
  "}",
  "keysFetched := map[PublicKeyLookupRequest]PublicKeyLookupResult{}",
  "keysToStore := map[PublicKeyLookupRequest]PublicKeyLookupResult{}",
  "now := spec.AsTimestamp(time.Now())",
  "for req, res := range keysFromDatabase {",
  "if res.ExpiredTS != PublicKeyNotExpired {",
  "keysFetched[req] = res",
  "delete(keyRequests, req)",
  "continue",
  "}",
  "keysFetched[req] = res",
  "if now < res.ValidUntilTS && res.ExpiredTS == PublicKeyNotExpired {",
  "delete(keyRequests, req)",
  "}",
  "}",
  "if len(keysFetched) == numRequests {",
  "k.checkUsingKeys(requests, results, keyIDs, keysFetched)",
  "errored := false",
  "for _, r := range results {",
  "if r.Error != nil {",
  "errored = true",
  "break",
  "}",
  "}",
  "if !errored {",
  "return results, nil",
  "}",
  "}",
  "for _, fetcher := range k.KeyFetchers {",
  "if len(keyRequests) == 0 {",
  "break",
  "}",
  "fetcherLogger := logger.WithField(\"fetcher\", fetcher.FetcherName())",
  "fetcherLogger.WithField(\"num_key_requests\", len(keyRequests)).Debug(\"Requesting keys from fetcher\")",
  "fetched, err := fetcher.FetchKeys(ctx, keyRequests)",
  "if err != nil {",
  "continue",
  "}",
  "if len(fetched) == 0 {",
  "continue",
  "}",
  "fetcherLogger.WithField(\"num_keys_fetched\", len(fetched)).Debug(\"Got keys from fetcher\")",
  "for req, res := range fetched {",
  "if _, requested := keyRequests[req]; !requested {",
  "if _, have := keysFetched[req]; have {",
  "continue",
  "}",
  "}",
  "keysFetched[req] = res",
  "keysToStore[req] = res",
  "delete(keyRequests, req)",
  "}",
  "}",
  "if len(keyRequests) > 0 {",
  "requestedServers := make([]string, 0, len(keyRequests))",
  "for reqs := range keyRequests {",
  "requestedServers = append(requestedServers, string(reqs.ServerName))",
  "}",
  "logger.WithFields(logrus.Fields{\"servers\": requestedServers, \"fetchers\": len(k.KeyFetchers)}).Warn(\"failed to fetch keys for some servers\")",
  "}",
  "k.checkUsingKeys(requests, results, keyIDs, keysFetched)",
  "if err := k.KeyDatabase.StoreKeys(ctx, keysToStore); err != nil {",
  "return nil, err",
  "}",
  "return results, nil"
]

def keyring_KeyRing_checkUsingKeys : List String := [
  "func func(requests []VerifyJSONRequest, results []VerifyJSONResult, keyIDs [][]KeyID, keys map[PublicKeyLookupRequest]PublicKeyLookupResult)",
  "for i := range requests {",
  "if results[i].Error == nil {",
  "continue",
  "}",
  "for _, keyID := range keyIDs[i] {",
  "serverKey, ok := keys[PublicKeyLookupRequest{requests[i].ServerName, keyID}]",
  "if !ok {",
  "continue",
  "}",
  "if !serverKey.WasValidAt(requests[i].AtTS, requests[i].ValidityCheckingFunc) {",
  "results[i].Error = fmt.Errorf(\"gomatrixserverlib: key with ID %q for %q not valid at %d\", keyID, requests[i].ServerName, requests[i].AtTS)",
  "continue",
  "}",
  "if err := VerifyJSON(string(requests[i].ServerName), keyID, ed25519.PublicKey(serverKey.Key), requests[i].Message); err != nil {",
  "results[i].Error = err",
  "continue",
  "}",
  "results[i].Error = nil",
  "break",
  "}",
  "}"
]

def keyring_KeyRing_isAlgorithmSupported : List String := [
  "func func(keyID KeyID) bool",
  "return strings.HasPrefix(string(keyID), \"ed25519:\")"
]

def keyring_KeyRing_publicKeyRequests : List String := [
  "func func(requests []VerifyJSONRequest, results []VerifyJSONResult, keyIDs [][]KeyID) map[PublicKeyLookupRequest]spec.Timestamp",
  "keyRequests := map[PublicKeyLookupRequest]spec.Timestamp{}",
  "for i := range requests {",
  "if results[i].Error == nil {",
  "continue",
  "}",
  "for _, keyID := range keyIDs[i] {",
  "k := PublicKeyLookupRequest{requests[i].ServerName, keyID}",
  "maxTS := keyRequests[k]",
  "if maxTS <= requests[i].AtTS {",
  "keyRequests[k] = requests[i].AtTS",
  "}",
  "}",
  "}",
  "return keyRequests"
]

def keyring_PerspectiveKeyFetcher_FetchKeys : List String := [
  "func func(ctx context.Context, requests map[PublicKeyLookupRequest]spec.Timestamp) (map[PublicKeyLookupRequest]PublicKeyLookupResult, error)",
  "serverKeys, err := p.Client.LookupServerKeys(ctx, p.PerspectiveServerName, requests)",
  "if err != nil {",
  "return nil, fmt.Errorf(\"gomatrixserverlib: unable to lookup server keys: %w\", err)",
  "}",
  "results := map[PublicKeyLookupRequest]PublicKeyLookupResult{}",
  "for _, keys := range serverKeys {",
  "var valid bool",
  "keyIDs, err := ListKeyIDs(string(p.PerspectiveServerName), keys.Raw)",
  "if err != nil {",
  "return nil, fmt.Errorf(\"gomatrixserverlib: unable to list key IDs: %w\", err)",
  "}",
  "for _, keyID := range keyIDs {",
  "perspectiveKey, ok := p.PerspectiveServerKeys[keyID]",
  "if !ok {",
  "continue",
  "}",
  "if err := VerifyJSON(string(p.PerspectiveServerName), keyID, perspectiveKey, keys.Raw); err != nil {",
  "return nil, fmt.Errorf(\"gomatrixserverlib: unable to verify response: %w\", err)",
  "}",
  "valid = true",
  "break",
  "}",
  "if !valid {",
  "return nil, fmt.Errorf(\"gomatrixserverlib: not signed with a known key for the perspective server\")",
  "}",
  "checks, _ := CheckKeys(keys.ServerName, time.Unix(0, 0), keys)",
  "if !checks.AllChecksOK {",
  "return nil, fmt.Errorf(\"gomatrixserverlib: key response from perspective server failed checks\")",
  "}",
  "mapServerKeysToPublicKeyLookupResult(keys, results)",
  "}",
  "return results, nil"
]

def keyring_PerspectiveKeyFetcher_FetcherName : List String := [
  "func func() string",
  "return fmt.Sprintf(\"perspective server %s\", p.PerspectiveServerName)"
]

def keyring_PublicKeyLookupRequest_MarshalText : List String := [
  "func func() ([]byte, error)",
  "return []byte(fmt.Sprintf(\"%s/%s\", r.ServerName, r.KeyID)), nil"
]

def keyring_PublicKeyLookupRequest_UnmarshalText : List String := [
  "func func(text []byte) error",
  "parts := strings.SplitN(string(text), \"/\", 2)",
  "if len(parts) < 2 {",
  "return errors.New(\"expected at least one / separator in \" + string(text))",
  "}",
  "r.ServerName, r.KeyID = spec.ServerName(parts[0]), KeyID(parts[1])",
  "return nil"
]

def keyring__NoStrictValidityCheck : List String := [
  "func func(_, _ spec.Timestamp) bool",
  "return true"
]

def keyring__StrictValiditySignatureCheck : List String := [
  "func func(atTs, validUntil spec.Timestamp) bool",
  "if validUntil == PublicKeyNotValid {",
  "return false",
  "}",
  "sevenDaysFuture := time.Now().Add(time.Hour * 24 * 7)",
  "validUntilTS := validUntil",
  "if sevenDaysFutureTS := spec.AsTimestamp(sevenDaysFuture); validUntilTS > sevenDaysFutureTS {",
  "validUntilTS = sevenDaysFutureTS",
  "}",
  "if atTs > validUntilTS {",
  "return false",
  "}",
  "return true"
]

def keyring__mapServerKeysToPublicKeyLookupResult : List String := [
  "func func(serverKeys ServerKeys, results map[PublicKeyLookupRequest]PublicKeyLookupResult)",
  "for keyID, key := range serverKeys.VerifyKeys {",
  "results[PublicKeyLookupRequest{ServerName: serverKeys.ServerName, KeyID: keyID}] = PublicKeyLookupResult{VerifyKey: key, ValidUntilTS: serverKeys.ValidUntilTS, ExpiredTS: PublicKeyNotExpired}",
  "}",
  "for keyID, key := range serverKeys.OldVerifyKeys {",
  "results[PublicKeyLookupRequest{ServerName: serverKeys.ServerName, KeyID: keyID}] = PublicKeyLookupResult{VerifyKey: key.VerifyKey, ValidUntilTS: PublicKeyNotValid, ExpiredTS: key.ExpiredTS}",
  "}"
]

def keyring_type_DirectKeyFetcher : List String := [
  "type DirectKeyFetcher struct { Client KeyClient IsLocalServerName func(server spec.ServerName) bool LocalPublicKey spec.Base64Bytes }"
]

def keyring_type_JSONVerifier : List String := [
  "type JSONVerifier interface { VerifyJSONs(ctx context.Context, requests []VerifyJSONRequest) ([]VerifyJSONResult, error) }"
]

def keyring_type_JSONVerifierSelf : List String := [
  "type JSONVerifierSelf struct{}"
]

def keyring_type_KeyClient : List String := [
  "type KeyClient interface { GetServerKeys(ctx context.Context, matrixServer spec.ServerName) (ServerKeys, error) LookupServerKeys(ctx context.Context, matrixServer spec.ServerName, keyRequests map[PublicKeyLookupRequest]spec.Timestamp) ([]ServerKeys, error) }"
]

def keyring_type_KeyDatabase : List String := [
  "type KeyDatabase interface { KeyFetcher StoreKeys(ctx context.Context, results map[PublicKeyLookupRequest]PublicKeyLookupResult) error }"
]

def keyring_type_KeyFetcher : List String := [
  "type KeyFetcher interface { FetchKeys(ctx context.Context, requests map[PublicKeyLookupRequest]spec.Timestamp) (map[PublicKeyLookupRequest]PublicKeyLookupResult, error) FetcherName() string }"
]

def keyring_type_KeyRing : List String := [
  "type KeyRing struct { KeyFetchers []KeyFetcher KeyDatabase KeyDatabase }"
]

def keyring_type_PerspectiveKeyFetcher : List String := [
  "type PerspectiveKeyFetcher struct { PerspectiveServerName spec.ServerName PerspectiveServerKeys map[KeyID]ed25519.PublicKey Client KeyClient }"
]

def keyring_type_PublicKeyLookupRequest : List String := [
  "type PublicKeyLookupRequest struct { ServerName spec.ServerName `json:\"server_name\"` KeyID KeyID `json:\"key_id\"` }"
]

def keyring_type_PublicKeyLookupResult : List String := [
  "type PublicKeyLookupResult struct { VerifyKey ExpiredTS spec.Timestamp `json:\"expired_ts\"` ValidUntilTS spec.Timestamp `json:\"valid_until_ts\"` }"
]

def keyring_type_PublicKeyNotaryLookupRequest : List String := [
  "type PublicKeyNotaryLookupRequest struct { ServerKeys map[spec.ServerName]map[KeyID]PublicKeyNotaryQueryCriteria `json:\"server_keys\"` }"
]

def keyring_type_PublicKeyNotaryQueryCriteria : List String := [
  "type PublicKeyNotaryQueryCriteria struct { MinimumValidUntilTS spec.Timestamp `json:\"minimum_valid_until_ts\"` }"
]

def keyring_type_SignatureValidityCheckFunc : List String := [
  "type SignatureValidityCheckFunc func(atTS, validUntil spec.Timestamp) bool"
]

def keyring_type_VerifyJSONRequest : List String := [
  "type VerifyJSONRequest struct { ServerName spec.ServerName AtTS spec.Timestamp Message []byte ValidityCheckingFunc SignatureValidityCheckFunc }"
]

def keyring_type_VerifyJSONResult : List String := [
  "type VerifyJSONResult struct{ Error error }"
]

def keys_ServerKeys_MarshalJSON : List String := [
  "func func() ([]byte, error)",
  "if len(keys.Raw) == 0 {",
  "js, err := json.Marshal(keys.ServerKeyFields)",
  "if err != nil {",
  "return nil, err",
  "}",
  "return js, nil",
  "}",
  "return keys.Raw, nil"
]

def keys_ServerKeys_PublicKey : List String := [
  "func func(keyID KeyID, atTS spec.Timestamp) []byte",
  "if currentKey, ok := keys.VerifyKeys[keyID]; ok && (atTS <= keys.ValidUntilTS) {",
  "return currentKey.Key",
  "}",
  "if oldKey, ok := keys.OldVerifyKeys[keyID]; ok && (atTS < oldKey.ExpiredTS) {",
  "return oldKey.Key",
  "}",
  "return nil"
]

def keys_ServerKeys_UnmarshalJSON : List String := [
  "func func(data []byte) error",
  "keys.Raw = data",
  "return json.Unmarshal(data, &keys.ServerKeyFields)"
]

def keys__CheckKeys : List String := [
  "func func(serverName spec.ServerName, now time.Time, keys ServerKeys) (checks KeyChecks, ed25519Keys map[KeyID]spec.Base64Bytes)",
  "checks.MatchingServerName = serverName == keys.ServerName",
  "checks.FutureValidUntilTS = keys.ValidUntilTS.Time().After(now)",
  "checks.AllChecksOK = checks.MatchingServerName && checks.FutureValidUntilTS",
  "ed25519Keys = checkVerifyKeys(keys, &checks)",
  "if !checks.AllChecksOK {",
  "ed25519Keys = nil",
  "}",
  "return"
]

def keys__checkVerifyKeys : List String := [
  "func func(keys ServerKeys, checks *KeyChecks) map[KeyID]spec.Base64Bytes",
  "allEd25519ChecksOK := true",
  "checks.Ed25519Checks = map[KeyID]Ed25519Checks{}",
  "verifyKeys := map[KeyID]spec.Base64Bytes{}",
  "for keyID, keyData := range keys.VerifyKeys {",
  "algorithm := strings.SplitN(string(keyID), \":\", 2)[0]",
  "publicKey := keyData.Key",
  "if algorithm == \"ed25519\" {",
  "checks.HasEd25519Key = true",
  "checks.AllEd25519ChecksOK = &allEd25519ChecksOK",
  "entry := Ed25519Checks{ValidEd25519: len(publicKey) == 32}",
  "if entry.ValidEd25519 {",
  "err := VerifyJSON(string(keys.ServerName), keyID, []byte(publicKey), keys.Raw)",
  "entry.MatchingSignature = err == nil",
  "}",
  "checks.Ed25519Checks[keyID] = entry",
  "if entry.MatchingSignature {",
  "verifyKeys[keyID] = publicKey",
  "} else {",
  "allEd25519ChecksOK = false",
  "}",
  "}",
  "}",
  "if checks.AllChecksOK {",
  "checks.AllChecksOK = checks.HasEd25519Key && allEd25519ChecksOK",
  "}",
  "return verifyKeys"
]

def keys_type_Ed25519Checks : List String := [
  "type Ed25519Checks struct { ValidEd25519 bool MatchingSignature bool }"
]

def keys_type_KeyChecks : List String := [
  "type KeyChecks struct { AllChecksOK bool MatchingServerName bool FutureValidUntilTS bool HasEd25519Key bool AllEd25519ChecksOK *bool Ed25519Checks map[KeyID]Ed25519Checks }"
]

def keys_type_OldVerifyKey : List String := [
  "type OldVerifyKey struct { VerifyKey ExpiredTS spec.Timestamp `json:\"expired_ts\"` }"
]

def keys_type_ServerKeyFields : List String := [
  "type ServerKeyFields struct { ServerName spec.ServerName `json:\"server_name\"` VerifyKeys map[KeyID]VerifyKey `json:\"verify_keys\"` ValidUntilTS spec.Timestamp `json:\"valid_until_ts\"` OldVerifyKeys map[KeyID]OldVerifyKey `json:\"old_verify_keys\"` }"
]

def keys_type_ServerKeys : List String := [
  "type ServerKeys struct { Raw []byte ServerKeyFields }"
]

def keys_type_VerifyKey : List String := [
  "type VerifyKey struct { Key spec.Base64Bytes `json:\"key\"` }"
]

def signing__ListKeyIDs : List String := [
  "func func(signingName string, message []byte) ([]KeyID, error)",
  "var members map[string]json.RawMessage",
  "if err := json.Unmarshal(message, &members); err != nil {",
  "return nil, err",
  "}",
  "var object struct { Signatures map[string]map[KeyID]json.RawMessage }",
  "if raw, ok := members[\"signatures\"]; ok {",
  "if err := json.Unmarshal(raw, &object.Signatures); err != nil {",
  "return nil, err",
  "}",
  "}",
  "var result []KeyID",
  "for keyID := range object.Signatures[signingName] {",
  "result = append(result, keyID)",
  "}",
  "return result, nil"
]

def signing__SignJSON : List String := [
  "func func(signingName string, keyID KeyID, privateKey ed25519.PrivateKey, message []byte) (signed []byte, err error)",
  "preserve := struct { Signatures map[string]map[KeyID]spec.Base64Bytes `json:\"signatures\"` Unsigned spec.RawJSON `json:\"unsigned\"` }{Signatures: map[string]map[KeyID]spec.Base64Bytes{}}",
  "if err = checkStrictJSON(message, false, false); err != nil {",
  "return nil, err",
  "}",
  "var object map[string]json.RawMessage",
  "if err = json.Unmarshal(message, &object); err != nil {",
  "return nil, err",
  "}",
  "if raw, ok := object[\"signatures\"]; ok {",
  "if err = json.Unmarshal(raw, &preserve.Signatures); err != nil {",
  "return nil, err",
  "}",
  "}",
  "preserve.Unsigned = spec.RawJSON(object[\"unsigned\"])",
  "if message, err = sjson.DeleteBytes(message, \"signatures\"); err != nil {",
  "return nil, err",
  "}",
  "if message, err = sjson.DeleteBytes(message, \"unsigned\"); err != nil {",
  "return nil, err",
  "}",
  "canonical, err := CanonicalJSON(message)",
  "if err != nil {",
  "return nil, err",
  "}",
  "signature := spec.Base64Bytes(ed25519.Sign(privateKey, canonical))",
  "if preserve.Signatures == nil {",
  "preserve.Signatures = map[string]map[KeyID]spec.Base64Bytes{}",
  "}",
  "if existing := preserve.Signatures[signingName]; existing != nil {",
  "existing[keyID] = signature",
  "} else {",
  "preserve.Signatures[signingName] = map[KeyID]spec.Base64Bytes{keyID: signature}",
  "}",
  "signatures, err := json.Marshal(preserve.Signatures)",
  "if err != nil {",
  "return nil, err",
  "}",
  "if signed, err = sjson.SetRawBytes(canonical, \"signatures\", signatures); err != nil {",
  "return nil, err",
  "}",
  "if len(preserve.Unsigned) > 0 {",
  "if signed, err = sjson.SetRawBytes(signed, \"unsigned\", preserve.Unsigned); err != nil {",
  "return nil, err",
  "}",
  "}",
  "if signed, err = CanonicalJSON(signed); err != nil {",
  "return nil, err",
  "}",
  "return"
]

def signing__VerifyJSON : List String := [
  "func func(signingName string, keyID KeyID, publicKey ed25519.PublicKey, message []byte) error",
  "var object map[string]*json.RawMessage",
  "var signatures map[string]map[KeyID]spec.Base64Bytes",
  "if err := checkStrictJSON(message, true, true); err != nil {",
  "return err",
  "}",
  "if err := json.Unmarshal(message, &object); err != nil {",
  "return err",
  "}",
  "if object[\"signatures\"] == nil {",
  "return fmt.Errorf(\"No signatures\")",
  "}",
  "if err := json.Unmarshal(*object[\"signatures\"], &signatures); err != nil {",
  "return err",
  "}",
  "signature, ok := signatures[signingName][keyID]",
  "if !ok {",
  "return fmt.Errorf(\"No signature from %q with ID %q\", signingName, keyID)",
  "}",
  "if len(signature) != ed25519.SignatureSize {",
  "return fmt.Errorf(\"Bad signature length from %q with ID %q\", signingName, keyID)",
  "}",
  "if len(publicKey) != ed25519.PublicKeySize {",
  "return fmt.Errorf(\"Bad public key length for %q with ID %q\", signingName, keyID)",
  "}",
  "delete(object, \"unsigned\")",
  "delete(object, \"signatures\")",
  "unsorted, err := json.Marshal(object)",
  "if err != nil {",
  "return err",
  "}",
  "canonical, err := CanonicalJSON(unsorted)",
  "if err != nil {",
  "return err",
  "}",
  "if !ed25519.Verify(publicKey, canonical, signature) {",
  "return fmt.Errorf(\"Bad signature from %q with ID %q\", signingName, keyID)",
  "}",
  "return nil"
]

def signing__checkStrictJSON : List String := [
  "func func(message []byte, requireUTF8, skipUnsigned bool) error",
  "if !json.Valid(message) || !gjson.ValidBytes(message) {",
  "return fmt.Errorf(\"gomatrixserverlib: invalid JSON\")",
  "}",
  "walk := jsonWalk{decodeName: func(raw []byte, escaped bool) (string, bool) { if !escaped { return string(raw[1 : len(raw)-1]), true } return gjson.ParseBytes(raw).Str, true }, checkString: func(raw []byte) error { return checkStrictString(string(raw), requireUTF8) }}",
  "if skipUnsigned {",
  "walk.skipMember = func(name string) bool { return name == \"unsigned\" }",
  "}",
  "name, duplicate, err := walk.duplicateName(message)",
  "if err != nil {",
  "return err",
  "}",
  "if duplicate {",
  "return fmt.Errorf(\"gomatrixserverlib: duplicate object member %q\", name)",
  "}",
  "return nil"
]

def signing__checkStrictString : List String := [
  "func func(raw string, requireUTF8 bool) error",
  "if requireUTF8 && !utf8.ValidString(raw) {",
  "return fmt.Errorf(\"gomatrixserverlib: JSON string is not valid UTF-8\")",
  "}",
  "for i := 0; i+1 < len(raw); i++ {",
  "if raw[i] != '\\\\' {",
  "continue",
  "}",
  "i++",
  "if raw[i] != 'u' || i+4 >= len(raw) {",
  "continue",
  "}",
  "high := readHexDigits([]byte(raw[i+1 : i+5]))",
  "i += 4",
  "if !utf16.IsSurrogate(high) {",
  "continue",
  "}",
  "if i+6 >= len(raw) || raw[i+1] != '\\\\' || raw[i+2] != 'u' || utf16.DecodeRune(high, readHexDigits([]byte(raw[i+3:i+7]))) == utf8.RuneError {",
  "return fmt.Errorf(\"gomatrixserverlib: JSON string has an unpaired surrogate escape\")",
  "}",
  "i += 6",
  "}",
  "return nil"
]

def signing_type_KeyID : List String := [
  "type KeyID string"
]

def spec_servername__ParseAndValidateServerName : List String := [
  "func func(serverName ServerName) (host string, port int, valid bool)",
  "if len(serverName) == 0 {",
  "return",
  "}",
  "host, port = splitServerName(serverName)",
  "if len(host) == 0 {",
  "return",
  "}",
  "if host[0] == '[' {",
  "if host[len(host)-1] != ']' {",
  "return",
  "}",
  "ip := host[1 : len(host)-1]",
  "if net.ParseIP(ip) == nil {",
  "return",
  "}",
  "valid = true",
  "return",
  "}",
  "ip := net.ParseIP(host)",
  "if ip != nil && ip.To4() != nil && !strings.Contains(host, \":\") {",
  "valid = true",
  "return",
  "}",
  "for _, r := range host {",
  "if !isDNSNameChar(r) {",
  "return",
  "}",
  "}",
  "valid = true",
  "return"
]

def spec_servername__isDNSNameChar : List String := [
  "func func(r rune) bool",
  "if r >= 'A' && r <= 'Z' {",
  "return true",
  "}",
  "if r >= 'a' && r <= 'z' {",
  "return true",
  "}",
  "if r >= '0' && r <= '9' {",
  "return true",
  "}",
  "if r == '-' || r == '.' {",
  "return true",
  "}",
  "return false"
]

def spec_servername__splitServerName : List String := [
  "func func(serverName ServerName) (string, int)",
  "nameStr := string(serverName)",
  "lastColon := strings.LastIndex(nameStr, \":\")",
  "if lastColon < 0 {",
  "return nameStr, -1",
  "}",
  "portStr := nameStr[lastColon+1:]",
  "port, err := strconv.ParseUint(portStr, 10, 16)",
  "if err != nil {",
  "return nameStr, -1",
  "}",
  "return nameStr[:lastColon], int(port)"
]

def spec_servername_type_ServerName : List String := [
  "type ServerName string"
]

def functions : List String := ["fclient/request.go:FederationRequest.Content", "fclient/request.go:FederationRequest.Destination", "fclient/request.go:FederationRequest.HTTPRequest", "fclient/request.go:FederationRequest.Method", "fclient/request.go:FederationRequest.Origin", "fclient/request.go:FederationRequest.RequestURI", "fclient/request.go:FederationRequest.SetContent", "fclient/request.go:FederationRequest.Sign", "fclient/request.go:FederationRequest.checkFieldsUTF8", "fclient/request.go:.NewFederationRequest", "fclient/request.go:.ParseAuthorization", "fclient/request.go:.VerifyHTTPRequest", "fclient/request.go:.readHTTPRequest", "fclient/request.go:type FederationRequest", "keyring.go:DirectKeyFetcher.FetchKeys", "keyring.go:DirectKeyFetcher.FetcherName", "keyring.go:DirectKeyFetcher.fetchKeysForServer", "keyring.go:DirectKeyFetcher.fetchNotaryKeysForServer", "keyring.go:JSONVerifierSelf.VerifyJSONs", "keyring.go:KeyRing.VerifyJSONs", "keyring.go:KeyRing.checkUsingKeys", "keyring.go:KeyRing.isAlgorithmSupported", "keyring.go:KeyRing.publicKeyRequests", "keyring.go:PerspectiveKeyFetcher.FetchKeys", "keyring.go:PerspectiveKeyFetcher.FetcherName", "keyring.go:PublicKeyLookupRequest.MarshalText", "keyring.go:PublicKeyLookupRequest.UnmarshalText", "keyring.go:.NoStrictValidityCheck", "keyring.go:.StrictValiditySignatureCheck", "keyring.go:.mapServerKeysToPublicKeyLookupResult", "keyring.go:type DirectKeyFetcher", "keyring.go:type JSONVerifier", "keyring.go:type JSONVerifierSelf", "keyring.go:type KeyClient", "keyring.go:type KeyDatabase", "keyring.go:type KeyFetcher", "keyring.go:type KeyRing", "keyring.go:type PerspectiveKeyFetcher", "keyring.go:type PublicKeyLookupRequest", "keyring.go:type PublicKeyLookupResult", "keyring.go:type PublicKeyNotaryLookupRequest", "keyring.go:type PublicKeyNotaryQueryCriteria", "keyring.go:type SignatureValidityCheckFunc", "keyring.go:type VerifyJSONRequest", "keyring.go:type VerifyJSONResult", "keys.go:ServerKeys.MarshalJSON", "keys.go:ServerKeys.PublicKey", "keys.go:ServerKeys.UnmarshalJSON", "keys.go:.CheckKeys", "keys.go:.checkVerifyKeys", "keys.go:type Ed25519Checks", "keys.go:type KeyChecks", "keys.go:type OldVerifyKey", "keys.go:type ServerKeyFields", "keys.go:type ServerKeys", "keys.go:type VerifyKey", "signing.go:.ListKeyIDs", "signing.go:.SignJSON", "signing.go:.VerifyJSON", "signing.go:.checkStrictJSON", "signing.go:.checkStrictString", "signing.go:type KeyID", "spec/servername.go:.ParseAndValidateServerName", "spec/servername.go:.isDNSNameChar", "spec/servername.go:.splitServerName", "spec/servername.go:type ServerName"]

end VPins.C13
