/- PINNED copy of the statement skeletons of the Go functions the C13 model mirrors (written by tools/pin.sh
   when the model was last validated against the code). Compared with the regenerated VGen.SkelC13 in VProps/PinC13.lean. -/
namespace VPins.C13

def fclient_request_FederationRequest_Content : List String := [
  "func func() []byte",
  "return []byte(r.fields.Content)"
]

def fclient_request_FederationRequest_Destination : List String := [
  "func func() spec.ServerName",
  "return r.fields.Destination"
]

def fclient_request_FederationRequest_HTTPRequest : List String := [
  "func func() (*http.Request, error)",
  "urlStr := fmt.Sprintf(\"matrix://%s%s\", r.fields.Destination, r.fields.RequestURI)",
  "var content io.Reader",
  "if r.fields.Content != nil {",
  "content = bytes.NewReader([]byte(r.fields.Content))",
  "}",
  "httpReq, err := http.NewRequest(r.fields.Method, urlStr, content)",
  "if err != nil {",
  "return nil, err",
  "}",
  "if httpReq.URL.RequestURI() != r.fields.RequestURI {",
  "return nil, fmt.Errorf(\"gomatrixserverlib: Request URI didn't encode properly. Wanted %q. Got %q\", r.fields.RequestURI, httpReq.URL.RequestURI())",
  "}",
  "if r.fields.Content != nil {",
  "httpReq.Header.Set(\"Content-Type\", \"application/json\")",
  "}",
  "for keyID, sig := range r.fields.Signatures[r.fields.Origin] {",
  "if !isSafeInHTTPQuotedString(string(r.fields.Origin)) {",
  "return nil, fmt.Errorf(\"gomatrixserverlib: Request Origin isn't safe to include in an HTTP header\")",
  "}",
  "if !isSafeInHTTPQuotedString(string(keyID)) {",
  "return nil, fmt.Errorf(\"gomatrixserverlib: Request key ID isn't safe to include in an HTTP header\")",
  "}",
  "if !isSafeInHTTPQuotedString(string(r.fields.Destination)) {",
  "return nil, fmt.Errorf(\"gomatrixserverlib: Request Destination isn't safe to include in an HTTP header\")",
  "}",
  "httpReq.Header.Add(\"Authorization\", fmt.Sprintf(\"X-Matrix origin=\\\"%s\\\",key=\\\"%s\\\",sig=\\\"%s\\\",destination=\\\"%s\\\"\", r.fields.Origin, keyID, sig, r.fields.Destination))",
  "}",
  "return httpReq, nil"
]

def fclient_request_FederationRequest_Method : List String := [
  "func func() string",
  "return r.fields.Method"
]

def fclient_request_FederationRequest_Origin : List String := [
  "func func() spec.ServerName",
  "return r.fields.Origin"
]

def fclient_request_FederationRequest_RequestURI : List String := [
  "func func() string",
  "return r.fields.RequestURI"
]

def fclient_request_FederationRequest_SetContent : List String := [
  "func func(content interface{}) error",
  "if r.fields.Content != nil {",
  "return fmt.Errorf(\"gomatrixserverlib: content already set on the request\")",
  "}",
  "if r.fields.Signatures != nil {",
  "return fmt.Errorf(\"gomatrixserverlib: the request is signed and cannot be modified\")",
  "}",
  "data, err := json.Marshal(content)",
  "if err != nil {",
  "return err",
  "}",
  "r.fields.Content = spec.RawJSON(data)",
  "return nil"
]

def fclient_request_FederationRequest_Sign : List String := [
  "func func(serverName spec.ServerName, keyID gomatrixserverlib.KeyID, privateKey ed25519.PrivateKey) error",
  "if r.fields.Origin != \"\" && r.fields.Origin != serverName {",
  "return fmt.Errorf(\"gomatrixserverlib: the request is already signed by a different server\")",
  "}",
  "r.fields.Origin = serverName",
  "data, err := json.Marshal(r.fields)",
  "if err != nil {",
  "return err",
  "}",
  "signedData, err := gomatrixserverlib.SignJSON(string(serverName), keyID, privateKey, data)",
  "if err != nil {",
  "return err",
  "}",
  "return json.Unmarshal(signedData, &r.fields)"
]

def fclient_request__NewFederationRequest : List String := [
  "func func(method string, origin, destination spec.ServerName, requestURI string) FederationRequest",
  "var r FederationRequest",
  "r.fields.Origin = origin",
  "r.fields.Destination = destination",
  "r.fields.Method = strings.ToUpper(method)",
  "r.fields.RequestURI = requestURI",
  "return r"
]

def fclient_request__ParseAuthorization : List String := [
  "func func(header string) (scheme string, origin, destination spec.ServerName, key gomatrixserverlib.KeyID, sig string)",
  "parts := strings.SplitN(header, \" \", 2)",
  "scheme = parts[0]",
  "if scheme != \"X-Matrix\" {",
  "return",
  "}",
  "if len(parts) != 2 {",
  "return",
  "}",
  "for _, data := range strings.Split(parts[1], \",\") {",
  "pair := strings.SplitN(data, \"=\", 2)",
  "if len(pair) != 2 {",
  "continue",
  "}",
  "name := strings.TrimSpace(pair[0])",
  "value := strings.Trim(strings.TrimSpace(pair[1]), \"\\\"\")",
  "if name == \"origin\" {",
  "origin = spec.ServerName(value)",
  "}",
  "if name == \"key\" {",
  "key = gomatrixserverlib.KeyID(value)",
  "}",
  "if name == \"sig\" {",
  "sig = value",
  "}",
  "if name == \"destination\" {",
  "destination = spec.ServerName(value)",
  "}",
  "}",
  "return"
]

def fclient_request__VerifyHTTPRequest : List String := [
  "func func(req *http.Request, now time.Time, destination spec.ServerName, isLocalServerName func(spec.ServerName) bool, keys gomatrixserverlib.JSONVerifier) (*FederationRequest, util.JSONResponse)",
  "request, err := readHTTPRequest(req)",
  "if err != nil {",
  "util.GetLogger(req.Context()).WithError(err).Print(\"Error parsing HTTP headers\")",
  "return nil, util.MessageResponse(400, \"Bad Request\")",
  "}",
  "if request.fields.Destination != \"\" {",
  "switch {",
  "case isLocalServerName != nil && !isLocalServerName(request.fields.Destination):",
  "fallthrough",
  "case isLocalServerName == nil && destination != request.fields.Destination:",
  "message := fmt.Sprintf(\"Unrecognised server name %q for Destination\", request.fields.Destination)",
  "util.GetLogger(req.Context()).Warn(message)",
  "return nil, util.MessageResponse(400, message)",
  "}",
  "} else if request.fields.Destination == \"\" {",
  "request.fields.Destination = destination",
  "}",
  "toVerify, err := json.Marshal(request.fields)",
  "if err != nil {",
  "util.GetLogger(req.Context()).WithError(err).Print(\"Error parsing JSON\")",
  "return nil, util.MessageResponse(400, \"Invalid JSON\")",
  "}",
  "if request.Origin() == \"\" {",
  "message := \"Missing \\\"Authorization: X-Matrix ...\\\" HTTP header\"",
  "util.GetLogger(req.Context()).WithError(err).Print(message)",
  "return nil, util.MessageResponse(401, message)",
  "}",
  "_, _, valid := spec.ParseAndValidateServerName(request.Origin())",
  "if !valid {",
  "message := \"Invalid server name for Origin\"",
  "util.GetLogger(req.Context()).WithError(err).Print(message)",
  "return nil, util.MessageResponse(400, message)",
  "}",
  "results, err := keys.VerifyJSONs(req.Context(), []gomatrixserverlib.VerifyJSONRequest{{ServerName: request.Origin(), AtTS: spec.AsTimestamp(now), Message: toVerify, ValidityCheckingFunc: gomatrixserverlib.StrictValiditySignatureCheck}})",
  "if err != nil {",
  "message := \"Error authenticating request\"",
  "util.GetLogger(req.Context()).WithError(err).Print(message)",
  "return nil, util.MessageResponse(500, message)",
  "}",
  "if results[0].Error != nil {",
  "message := \"Invalid request signature\"",
  "util.GetLogger(req.Context()).WithError(results[0].Error).Print(message)",
  "return nil, util.MessageResponse(401, message)",
  "}",
  "return request, util.JSONResponse{Code: 200, JSON: struct{}{}}"
]

def fclient_request__isSafeInHTTPQuotedString : List String := [
  "func func(text string) bool",
  "for i := 0; i < len(text); i++ {",
  "c := text[i]",
  "switch {",
  "case c == '\\t':",
  "continue",
  "case c == ' ':",
  "continue",
  "case c == 0x21:",
  "continue",
  "case 0x23 <= c && c <= 0x5B:",
  "continue",
  "case 0x5D <= c && c <= 0x7E:",
  "continue",
  "case 0x80 <= c:",
  "continue",
  "default:",
  "return false",
  "}",
  "}",
  "return true"
]

def fclient_request__readHTTPRequest : List String := [
  "func func(req *http.Request) (*FederationRequest, error)",
  "var result FederationRequest",
  "result.fields.Method = req.Method",
  "result.fields.RequestURI = req.URL.RequestURI()",
  "content, err := io.ReadAll(req.Body)",
  "if err != nil {",
  "return nil, err",
  "}",
  "if len(content) != 0 {",
  "mimetype, _, err := mime.ParseMediaType(req.Header.Get(\"Content-Type\"))",
  "if err != nil {",
  "return nil, fmt.Errorf(\"gomatrixserverlib: The request had an invalid Content-Type header: %w\", err)",
  "}",
  "if mimetype != \"application/json\" {",
  "return nil, fmt.Errorf(\"gomatrixserverlib: The request must be \\\"application/json\\\" not %q\", mimetype)",
  "}",
  "if !utf8.Valid(content) {",
  "return nil, fmt.Errorf(\"gomatrixserverlib: The request contained invalid UTF-8\")",
  "}",
  "result.fields.Content = spec.RawJSON(content)",
  "}",
  "for _, authorization := range req.Header[\"Authorization\"] {",
  "scheme, origin, destination, key, sig := ParseAuthorization(authorization)",
  "if scheme != \"X-Matrix\" {",
  "continue",
  "}",
  "if origin == \"\" || key == \"\" || sig == \"\" {",
  "return nil, fmt.Errorf(\"gomatrixserverlib: invalid X-Matrix authorization header\")",
  "}",
  "if result.fields.Origin != \"\" && result.fields.Origin != origin {",
  "return nil, fmt.Errorf(\"gomatrixserverlib: different origins in X-Matrix authorization headers\")",
  "}",
  "result.fields.Origin = origin",
  "result.fields.Destination = destination",
  "if result.fields.Signatures == nil {",
  "result.fields.Signatures = map[spec.ServerName]map[gomatrixserverlib.KeyID]string{origin: {key: sig}}",
  "} else {",
  "result.fields.Signatures[origin][key] = sig",
  "}",
  "}",
  "return &result, nil"
]

def functions : List String := ["fclient/request.go:FederationRequest.Content", "fclient/request.go:FederationRequest.Destination", "fclient/request.go:FederationRequest.HTTPRequest", "fclient/request.go:FederationRequest.Method", "fclient/request.go:FederationRequest.Origin", "fclient/request.go:FederationRequest.RequestURI", "fclient/request.go:FederationRequest.SetContent", "fclient/request.go:FederationRequest.Sign", "fclient/request.go:.NewFederationRequest", "fclient/request.go:.ParseAuthorization", "fclient/request.go:.VerifyHTTPRequest", "fclient/request.go:.isSafeInHTTPQuotedString", "fclient/request.go:.readHTTPRequest"]

end VPins.C13
