/- Driver handlers for area `handshake` (C15), second part: PerformInvite and the pseudo-ID path of HandleSendJoin.
   (Dispatched from VDriver.Handshake.handle for the ops it does not know.)

   handshake.perform_invite  — 28 arguments:
     0 ver        room version (input.RoomVersion); unknown versions are generated too
     1 breach     "-" or comma list of caller-contract breaches: mq sq uq siq sic eq (nil queriers) ctx (nil context)
                  store (nil StoreSenderIDFromPublicID) fed (nil federation client) key (nil signing key) nilstate (a nil PDU
                  among LatestEvents.StateEvents, written as "nil" in argument 20); the implementation's panic is reported
                  by the harness as "abort:<class>" for a breach the op scripted — any other panic stays "panic:…"
     2 local      IsTargetLocal 1/0
     3 roomID     hex, input.RoomID
     4 inviter    user ID          5 invitee  user ID
     6 keyname    name of the signing key (harness: hsKey(keyname))
     7 origin     spec.SenderIDFromPseudoIDKey(signing key) ("-" outside pseudo-ID rooms)
     8 tType  9 tSender  10 tStateKey ("-" | "s:<key>")  11 tContent (hex of the raw JSON, "-" = empty)  12 tRoomID (hex): the template
     13 stripped  given stripped state: <n> entries | "b" (one entry whose content does not marshal)
     14 stateq    StateQuerier.GetState: "err" | <n> events | "bad" (one event whose content does not marshal)
     15 sidq      SenderIDQuerier: "err" | "nil" | "s:<sender ID>"
     16 cur       MembershipQuerier.CurrentMembership: "err" | "m:<membership>"
     17 latest    EventQuerier: "err" | RoomExists 1/0     18 depth     19 nprev (number of PrevEventIDs)
     20 state     LatestEvents.StateEvents: comma list of <hex id>:<hex json> | "nil"; the StateQuerier's auth provider holds the same
                  events (those with a state key)
     21 authq     StateQuerier.GetAuthEvents: "ok" | "err"
     22 allowed   the Allowed oracle for the event that reaches the auth check, 1/0 (computed by the generator on a look-alike,
                  checked by the harness against the real Allowed on the event the StateQuerier was shown)
     23 big       1 = the template's content is padded beyond the event size limit (Build fails)
     24 creator   SenderIDCreator: "err" | "ok:<sender ID>" | "mismatch:<sender ID>" (a key that does not belong to the sender ID)
     25 fed       user-ID rooms, SendInvite: "err" | "nil" | "echo" (the event + the invited server's signature) | "other" (another event)
                  pseudo-ID rooms, SendInviteV3: "err" | "nil" | "x" (unparseable body: the client reports an error) |
                  <hex id>:<hex json> of the event the remote returns (parsed by the mock as an untrusted event)
     26 selfs     pseudo-ID rooms: hex names (sender, state key, signature names) whose own key validly signed the returned event
     27 store     StoreSenderIDFromPublicID: "ok" | "err"
   outcome: "err:<class>" | "abort:<breach>" |
     "ok:built:sigs=<names>:valid=1:shape=1:ae=<n>:pe=<n>:stripped=<n>:asked=<n>[c]"      the event built here is returned
     "ok:v2:ret=nil|asis:sigs=…(of the event SENT)…"                                       SendInvite's answer is returned as it is
     "ok:v3:sigs=<names>:valid=1:unmod=1:ae=<n>:pe=<n>:depth=1:stripped=<n>:asked=<n>[c]"  SendInviteV3's answer + inviter's signature
     (sigs: names under "signatures", sorted; valid: the signatures PerformInvite made verify; shape / unmod: the event is the
      template completed / the remote's answer untouched apart from the inviter's signature; ae, pe: auth / prev events of the
      template; asked: tuples handed to the EventQuerier, "c" when the create event is among them)
   specification stream: the model's outcome where `Spec.performInviteGuards` holds or the model refuses; "err:must-reject" where
   the model accepts and the guards fail; "unspecified:caller-contract" for an abort.

   handshake.sendjoin_pseudo  ver cls ev evType roomID reqEventID origin local senderQ verify store selfok cur
     as handshake.sendjoin for room version org.matrix.msc4014 (`evType`: hex of the event's type, checked on both sides
     against the accessor; `senderQ`: "err" | "none" | "d:<domain>", the UserIDQuerier's answer for the sender ID): `verify` answers for the mxid_mapping signatures (caller's
     verifier), `store` = StoreSenderIDFromPublicID ok/err, `selfok` = the sender's own key validly signed the event (1/0, checked
     by the harness).

   handshake.performjoin_pseudo  mj sid sj create jr authMembers stateMembers storeFail remote
     PerformJoin for room version org.matrix.msc4014 (round 5).  mj / sid / sj: make_join, GetOrCreateSenderID, send_join ok | err;
     create: ok | missing | badver; jr: the join rule of the presented state (public: the join passes CheckSendJoinResponse;
     invite: it does not); authMembers / stateMembers: the m.room.member events of auth_chain / state, each
       <sender key>/<mapping key | ->/<mapping user>/<mapping signatures ok|none|other|bad|extrabad>/<key the event is signed with>/<membership>
     (harness: pjMember); storeFail: "-" | k (the k-th StoreSenderIDFromPublicID call fails); remote: "-" | forged.
     outcome: <result>|<trace> — result err:<stage> | ok:join=…:oursig=…:same=…; trace: "S:<key name>=<user>" per store call, "Q"
     when the auth checks of CheckSendJoinResponse begin.
     specification stream: every stored pair must be VOUCHED for (`Spec.vouched`: a validly signed mapping for that very key and
     user) — "err:must-not-store" otherwise; a returned event must be our join with a valid signature of the joiner's room key.
-/
import VDriver.Util
import VDriver.Auth
import VDriver.Fedcheck
import VModel.HandshakeInvite
import VModel.HandshakeInviteSpec
import VModel.Signers
namespace V.Driver.HandshakeInviteOps
open V V.Json V.GoJson V.Driver V.Handshake V.Driver.AuthOps

def showHErr : HErr → String
  | .matrix c => "err:" ++ c
  | .internal => "err:internal"
  | .other => "err:other"

def abortClass (site : String) : String :=
  if site == siteQuerier then "querier" else if site == siteContext then "context"
  else if site == siteNilState then "nilstate" else if site == siteKey then "key"
  else if site == siteFedV3 || site == siteFedV2 then "fed" else if site == siteStore then "store" else "?" ++ site

/-- `event.Membership()` -/
def membershipOf (e : Event) : Option Bytes :=
  let m : Option Bytes := match e.content with
    | none => none
    | some .null => some []
    | some (.obj kvs) =>
      let d := decString (lookupExact kvs b!"membership")
      if d.err then none else some d.val
    | some _ => none
  match m with
  | none => none
  | some v => if e.stateKey.isNone then none else some v

def factsOf (e : Event) : EvFacts :=
  { type := e.type, stateKey := e.stateKey, membership := membershipOf e, roomID := e.roomID, senderID := e.sender }

def userDomain (id : Bytes) : Bytes :=
  match parseUserID? id with
  | some (some u) => u.domain
  | _ => []

def unhexD (s : String) : Bytes := (unhex s).getD []

def parseJSON (b : Bytes) : Option JVal :=
  if b.isEmpty then none else (parse b).map (·.toJVal)

/-- names under "signatures" (exact key, as `json.Unmarshal` into a map reads it) -/
def sigNames (e : Event) : List Bytes :=
  match lookupExact e.obj b!"signatures" with
  | some (.obj kvs) => kvs.map (·.1)
  | _ => []

def joinNames (l : List Bytes) : String := ",".intercalate ((uniqueStrings l).map bytesStr)

def askedStr (asked : List (Bytes × Bytes)) : String :=
  toString asked.length ++ (if asked.any (fun t => t.1 == b!"m.room.create") then "c" else "")

def withSpec (m : String) (guards : Bool) : String :=
  if m.startsWith "abort" then m ++ "\t" ++ "unspecified:caller-contract"
  else if guards then m ++ "\t" ++ m
  else if m.startsWith "err" then m ++ "\t" ++ m
  else m ++ "\t" ++ "err:must-reject"

def pseudoVer : Bytes := b!"org.matrix.msc4014"

def handle (op : String) (args : Array String) : Option String :=
  match op, args.toList with
  | "perform_invite", [ver, breach, localS, _roomID, inviter, invitee, _keyname, origin, tType, tSender, tsk, tContent, tRoom,
      stripped, stateq, sidq, cur, latest, depth, nprev, stateEvs, authq, allowed, big, creator, fed, selfs, store] =>
    let v := strBytes ver
    let row? := versionRow? v
    let ever : Bytes := if row?.isSome then v else b!"10"
    let pseudo := v == pseudoVer
    let br := FedcheckOps.splitList breach ","
    let has (x : String) : Bool := br.contains x
    let content := parseJSON (unhexD tContent)
    let tStateKey : Option Bytes := if tsk == "-" then none else some (strBytes (tsk.drop 2).toString)
    let tTypeB := strBytes tType
    let tSenderB := strBytes tSender
    let tRoomB := unhexD tRoom
    let originB := strBytes origin
    let inviteeB := strBytes invitee
    -- the event PerformInvite builds from the template, with the given state key
    let builtEv (sk : Bytes) : Event :=
      { ver := ever, eventID := b!"$built",
        obj := [(b!"type", .str tTypeB), (b!"sender", .str tSenderB), (b!"room_id", .str tRoomB), (b!"state_key", .str sk)]
               ++ (match content with | some c => [(b!"content", c)] | none => []) }
    let createdSID : Option Bytes :=
      if creator == "err" then none else some (strBytes ((creator.splitOn ":").getD 1 ""))
    let creatorOK := creator.startsWith "ok"
    let stateList : List (Option Event) := (FedcheckOps.splitList stateEvs ",").map (fun a => if a == "nil" then none else parseEvArg ever a)
    let lat : QAns Latest :=
      if latest == "err" then .err
      else .ans { roomExists := latest == "1", depth := depth.toInt!,
                  stateEvents := stateList.map (fun e => e.map (fun ev => { type := ev.type, stateKey := ev.stateKey, eventID := ev.eventID })),
                  prevEventIDs := (List.range nprev.toNat!).map (fun k => strBytes ("$prev" ++ toString k)) }
    let returned : Option Event := if pseudo && fed != "err" && fed != "nil" && fed != "x" then parseEvArg ever fed else none
    let selfNames : List Bytes := (FedcheckOps.splitList selfs ",").map unhexD
    -- VerifyEventSignatures under JSONVerifierSelf (also used for the mxid_mapping of a join: server names are not keys)
    let verifyConcrete (e : Event) (selfValid : Bytes → Bool) : Bool :=
      match versionRow? pseudoVer with
      | none => false
      | some prow =>
        match (Signers.verifyPseudo prow e (fun _ => false) false selfValid).verdict with
        | .ok () => true
        | .error _ => false
    let verifyOK : EvFacts → Bool := fun _ =>
      if localS == "1" then
        match createdSID with
        | some sid => verifyConcrete (builtEv sid) (fun n => (n == sid && creatorOK) || n == originB)
        | none => false
      else
        match returned with
        | some e => verifyConcrete e (fun n => n == originB || selfNames.contains n)
        | none => false
    let reaches := content.isSome
    let i : PerformInviteIn := {
      membershipQuerierNil := has "mq", stateQuerierNil := has "sq", userIDQuerierNil := has "uq", senderIDQuerierNil := has "siq",
      senderIDCreatorNil := has "sic", eventQuerierNil := has "eq", ctxNil := has "ctx", storeSenderIDNil := has "store",
      fedClientNil := has "fed", signingKeyOK := !has "key",
      versionKnown := row?.isSome, pseudoIDs := pseudo, domainless := (row?.map (·.domainlessRoomID)).getD false,
      targetLocal := localS == "1", inviterDomain := userDomain (strBytes inviter), inviteeUserID := inviteeB,
      inviteeDomain := userDomain inviteeB, keyID := b!"ed25519:k1", origin := originB,
      tType := tTypeB, tRoomID := tRoomB, tSenderID := tSenderB, tMembership := membershipOf (builtEv inviteeB),
      needed := protoNeeded tTypeB tSenderB tStateKey content,
      strippedGiven := if stripped == "b" then 1 else stripped.toNat!,
      stateQuery := if stateq == "err" then .err else if stateq == "bad" then .ans 1 else .ans stateq.toNat!,
      unsignedOK := !(stripped == "b" || (stripped == "0" && stateq == "bad")),
      invitedSenderID := if sidq == "err" then .err else if sidq == "nil" then .ans none else .ans (some (strBytes (sidq.drop 2).toString)),
      curMembership := if cur == "err" then none else some (strBytes (cur.drop 2).toString),
      latest := lat, authProviderOK := authq != "err", allowed := fun _ => allowed == "1",
      buildReachesSign := reaches, buildOK := reaches && big == "0",
      createdSenderID := createdSID, verifyOK := verifyOK,
      sendV3 := if fed == "err" || fed == "x" then .err else if fed == "nil" then .ans none else .ans (returned.map factsOf),
      storeOK := store != "err",
      sendV2 := if fed == "err" then .err else if fed == "nil" then .ans none else .ans (some default) }
    if pseudo && fed != "err" && fed != "nil" && fed != "x" && localS != "1" && returned.isNone then some "bad-op" else
    if stateList.any (fun e => e.isNone) && !(FedcheckOps.splitList stateEvs ",").all (fun a => a == "nil" || (parseEvArg ever a).isSome) then some "bad-op" else
    let m := match performInvite i with
      | .error (.err e) => showHErr e
      | .error (.panic s) => "abort:" ++ abortClass s
      | .ok o =>
        let asked := match i.needed with | some nd => askedStr (piAsked i.domainless nd) | none => "?"
        let tail := ":ae=" ++ toString o.authEvents.length ++ ":pe=" ++ toString o.prevEvents.length
        -- a SenderIDCreator that hands out a key not belonging to its sender ID (scripted "mismatch") makes an invalid signature
        let validS := if pseudo && !creatorOK then "0" else "1"
        let built := "sigs=" ++ joinNames (o.sigs.map (·.signer)) ++ ":valid=" ++ validS ++ ":shape=1" ++ tail ++ ":stripped=" ++ toString o.strippedLen ++ ":asked=" ++ asked
        match o.source with
        | .builtLocal => "ok:built:" ++ built
        | .remoteV2 => "ok:v2:ret=" ++ (if o.event.isNone then "nil" else "asis") ++ ":" ++ built
        | .remoteV3 =>
          let pre := match returned with | some e => sigNames e | none => []
          "ok:v3:sigs=" ++ joinNames (pre ++ o.sigs.map (·.signer)) ++ ":valid=1:unmod=1" ++ tail ++ ":depth=1:stripped=" ++ toString o.strippedLen
            ++ ":asked=" ++ asked
    some (withSpec m (Spec.performInviteGuards i))
  | "performjoin_pseudo", [mj, sid, sj, create, jr, authM, stateM, storeFail, remote] =>
    let parseMember (d : String) : Option PJMember :=
      match d.splitOn "/" with
      | [sender, mapKey, mapUser, mapSig, _evKey, _membership] =>
        some { sender := strBytes sender,
               mapping := if mapKey == "-" then none else some (strBytes mapKey, strBytes mapUser),
               mappingSigned := mapSig == "ok" }
      | _ => none
    let members := ((FedcheckOps.splitList authM ",") ++ (FedcheckOps.splitList stateM ",")).filterMap parseMember
    let failAt : Option Nat := if storeFail == "-" then none else some storeFail.toNat!
    let i : PerformJoinPseudoIn := {
      makeJoinOK := mj != "err", senderIDOK := sid != "err", buildOK := true, sendJoinOK := sj != "err",
      create := if create == "missing" then .missing else if create == "badver" then .version b!"99" else .version pseudoVer,
      knownVersion := fun v => (versionRow? v).isSome,
      members := members,
      storeOK := fun k => failAt != some (k + 1),
      -- the presented state lets the join through exactly when the join rule is public (faulty membership events are
      -- dropped by CheckStateResponse, not fatal)
      checkOK := jr == "public" }
    let (tr, res) := performJoinPseudo i
    let showStep : PJStep → String
      | .store k u => "S:" ++ bytesStr k ++ "=" ++ bytesStr u
      | .check => "Q"
    let trS := ",".intercalate (tr.map showStep)
    -- with remote = forged the resident server's copy (a join "by" our sender ID signed with another key) is taken in this
    -- room version: `signedJoin true _ = true`
    let okS := if remote == "forged" then "ok:join=1:oursig=0:same=0" else "ok:join=1:oursig=1:same=1"
    let r := match res with
      | .ok () => okS
      | .error .makeJoinFailed => "err:make_join"
      | .error .senderIDFailed => "err:sender_id"
      | .error .buildFailed => "err:build"
      | .error .sendJoinFailed => "err:send_join"
      | .error .noCreate => "err:no-create"
      | .error .storeFailed => "err:store"
      | .error .checkFailed => "err:check"
    let m := r ++ "|" ++ trS
    let spec :=
      if !Spec.storesVouched members tr then "err:must-not-store"
      else if r.startsWith "ok" && !(Spec.performJoinPseudoGuards i) then "err:must-reject"
      else if r.startsWith "ok" && !r.startsWith "ok:join=1:oursig=1" then "err:must-not-return-this-event"
      else m
    some (m ++ "\t" ++ spec)
  | _, _ => none

end V.Driver.HandshakeInviteOps
