/- Driver handlers for area `auth` (stub: replace `handle`). -/
import VDriver.Util
namespace V.Driver.AuthOps
open V V.Driver

def handle (_op : String) (_args : Array String) : Option String := none

end V.Driver.AuthOps
