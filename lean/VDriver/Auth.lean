/- Driver handlers for area `auth` (C07, C08, C09). -/
import VDriver.Util
import VModel.Auth
import VModel.AuthSpec
import VModel.AuthRules
import VModel.AuthQuerier
namespace V.Driver.AuthOps
open V V.Json V.Driver V.Auth

/-- "<hex id>:<hex json>" -> Event -/
def parseEvArg (ver : Bytes) (arg : String) : Option Event :=
  match arg.splitOn ":" with
  | [idh, jsh] =>
    match unhex idh, unhex jsh with
    | some id, some js =>
      match parse js with
      | some p => match p.toJVal with
        | .obj kvs => some { ver := ver, eventID := id, obj := kvs }
        | _ => none
      | none => none
    | _, _ => none
  | _ => none

def parseEvArgs (ver : Bytes) (args : List String) : Option (List Event) :=
  args.mapM (parseEvArg ver)

def handle (op : String) (args : Array String) : Option String :=
  match op, args.toList with
  | "allowed", ver :: sig :: ev :: auth =>
    let v := strBytes ver
    match parseEvArg v ev, parseEvArgs v auth with
    | some e, some as =>
      let prov := Provider.ofEvents as
      let m := (allowedFresh e prov (sig == "1")).coarse
      -- specification stream (C07): the verdict of the transcribed authorisation rules with the departures of DESIGN.md §6.1
      let spec := AuthRules.showVerdict (AuthRules.rulesAllow AuthRules.Departures.library e prov (sig == "1"))
      -- specification stream (C08): an escalating power-levels event must be rejected (takes precedence)
      if e.type == b!"m.room.power_levels" && prov.valid then
        match AuthSpec.plMustReject e prov with
        | some true => some (m ++ "\trej")
        | _ => some (m ++ "\t" ++ spec)
      else some (m ++ "\t" ++ spec)
    | _, _ => some "bad-op"
  -- the same check asked with the querier that answers (nil, nil) for a sender that is not a user ID (C18 / C07, defect
  -- P2).  Specification: the rules' verdict — they refuse an event whose sender is no user ID, whatever the querier
  | "allowed_nilq", ver :: sig :: ev :: auth =>
    let v := strBytes ver
    match parseEvArg v ev, parseEvArgs v auth with
    | some e, some as =>
      let prov := Provider.ofEvents as
      let m := (allowedFreshNilQ e prov (sig == "1")).coarse
      let spec := AuthRules.showVerdict (AuthRules.rulesAllow AuthRules.Departures.library e prov (sig == "1"))
      some (m ++ "\t" ++ spec)
    | _, _ => some "bad-op"
  | _, _ => none

end V.Driver.AuthOps
