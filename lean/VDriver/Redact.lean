/- Driver handlers for area `redact` (C05). -/
import VDriver.Util
import VModel.Redact
import VModel.RedactSpec
import VDriver.Event
namespace V.Driver.RedactOps
open V V.Json V.GoJson V.Driver V.Redact

/-- outcome of a redaction: canonical JSON of the result, `err`, panic or skip -/
def showRedact : Except Err JVal → String
  | .ok r => "ok:" ++ hex (encodeCanon r)
  | .error (.other w) => if w.startsWith "unmodelled" then "skip:" ++ w else "err"
  | .error .badJSON => "err"
  | .error (.panic s) => "panic:" ++ s

/-- Nested duplicate keys inside a value that is passed through verbatim make the harness's
    CanonicalJSON order unspecified (C01): such inputs are skipped.  Only the members redaction reads
    matter — the LAST member under each exact name of a keep-struct field; everything else (case
    variants, earlier duplicates, unlisted keys) is dropped unread. -/
def nestedDupFree (ver : Bytes) (kvs : List (Bytes × JVal)) : Bool :=
  let names : List Bytes := match algoOf ver with
    | some a => a.fields.map (·.name)
    | none => kvs.map (·.1)
  names.all (fun n =>
    match lookupExact kvs n with
    | none => true
    | some v =>
      if n == b!"content" then
        match v with
        | .obj m => m.all (fun x => x.2.noDupKeys)
        | w => w.noDupKeys
      else v.noDupKeys)

/-- The specification stream: what C05 demands for this event, or why the event is outside
    the property's quantifier.  Keys are compared as exact strings: a case variant of a protected key
    (`Event_id`, `Sender`, `ſender`) is an unlisted key like any other and must be dropped. -/
def specRedact (ver : String) (j : JVal) : String :=
  match RedactSpec.specFor ver with
  | none => "unspecified:unknown version"
  | some a =>
    match j with
    | .obj kvs =>
      if !noDupIn (kvs.map (·.1)) then "unspecified:duplicate top-level key"
      else match lookupExact kvs b!"type", lookupExact kvs b!"content" with
        | some (.str ty), some (.obj m) =>
          if !utf8Valid ty then "unspecified:type not UTF-8"
          else if !ifaceOk (.obj m) then "unspecified:content outside the IntSafe / UTF-8 / no-duplicate domain"
          else "ok:" ++ hex (encodeCanon (RedactSpec.redact a j))
        | _, _ => "unspecified:type not a string or content not an object"
    | _ => "unspecified:not an object"

/-- The shape tag the harness attaches to every `json` op (recomputed here; a wrong tag is answered
    `bad-tag`): `member-tpi-signed` = type m.room.member whose content has an object
    `third_party_invite` with a `signed` member — the shape of the known v11 deviation. -/
def shapeTag (j : JVal) : String :=
  match j with
  | .obj kvs =>
    match lookupExact kvs b!"type", lookupExact kvs b!"content" with
    | some (.str ty), some (.obj m) =>
      if ty == b!"m.room.member" then
        match lookupExact m b!"third_party_invite" with
        | some (.obj t) => if (lookupExact t b!"signed").isSome then "member-tpi-signed" else "-"
        | _ => "-"
      else "-"
    | _, _ => "-"
  | _ => "-"

/-- ops:
    json <ver> <tag> <hex text>   -> RedactEventJSON, canonicalised : ok:<hex> | err | panic   (+ spec)
    pdu <ver> <hex id>:<hex json> -> PDU.Redact() twice on a trusted event
-/
def handle (op : String) (args : Array String) : Option String :=
  match op, args.toList with
  | "json", [vers, tag, h] =>
    match some (strBytes vers), unhex h with
    | some verb, some t =>
      match parse t with
      | none => some "err\tunspecified:not JSON"
      | some p =>
        if !p.wellFormed then some "skip:ill-formed unicode (canonical form not specified, C01)" else
        let j := p.toJVal
        if shapeTag j != tag then some "bad-tag" else
        let dupFree := match j with
          | .obj kvs => nestedDupFree verb kvs
          | v => v.noDupKeys
        if !dupFree then some "skip:nested duplicate keys (order after sorting unspecified, C01)" else
        some (showRedact (redactJSON verb j) ++ "\t" ++ specRedact (bytesStr verb) j)
    | _, _ => some "bad-op"
  | "pdu", [vers, ev] =>
    match some (strBytes vers), ev.splitOn ":" with
    | some verb, [idh, jsh] =>
      match unhex idh, unhex jsh with
      | some id, some js => some (EventOps.showRedactPDU verb id js)
      | _, _ => some "bad-op"
    | _, _ => some "bad-op"
  | "pdu_check", [_, _, _, _] => some "ok\tok"   -- predicates evaluated by the harness on the implementation; `pdu_after` carries the data
  | "pdu_after", [vers, bh, ah] =>
    -- specification: the JSON an event has after `Redact()` is the canonical encoding of the room version's redaction
    -- of the JSON it had before (a panic is the documented answer for trusted JSON the other constructors refuse)
    if ah == "PANIC" then some "ok\tok" else
    match unhex bh, unhex ah with
    | some before, some after =>
      match parse before with
      | none => some "ok\tunspecified:not JSON"
      | some p =>
        if !p.wellFormed then some "ok\tunspecified:ill-formed unicode" else
        let j := p.toJVal
        let dupFree := match j with
          | .obj kvs => noDupIn (kvs.map (·.1)) && nestedDupFree (strBytes vers) kvs
          | v => v.noDupKeys
        if !dupFree then some "ok\tunspecified:duplicate keys" else
        match redactJSON (strBytes vers) j with
        | .ok r => some ("ok\t" ++ (if encodeCanon r == after then "ok" else "bad:json-after-Redact-is-not-the-redaction"))
        | .error _ => some "ok\tunspecified:redaction not modelled for this value"
    | _, _ => some "bad-op"
  | "pdu_props", [vers, ev, _name, _kid, _pub] =>
    match some (strBytes vers), ev.splitOn ":" with
    | some verb, [idh, jsh] =>
      match unhex idh, unhex jsh with
      | some id, some js => some (EventOps.showPDUProps verb id js)
      | _, _ => some "bad-op"
    | _, _ => some "bad-op"
  | _, _ => none

end V.Driver.RedactOps
