/- Driver handlers for area `redact` (stub: replace `handle`). -/
import VDriver.Util
namespace V.Driver.RedactOps
open V V.Driver

def handle (_op : String) (_args : Array String) : Option String := none

end V.Driver.RedactOps
