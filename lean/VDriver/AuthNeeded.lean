/- Driver handler for `ctx.needed` (C09): the verdict on the full provider, on the reversed + extended provider and on
   the provider restricted to the pairs StateNeededForAuth names; specification = the model's verdict on the restricted one. -/
import VDriver.Util
import VDriver.Auth
import VModel.AuthNeeded
namespace V.Driver.NeededOps
open V V.Json V.Driver V.Auth V.Driver.AuthOps V.AuthNeeded

def handle (args : List String) : Option String :=
  match args with
  | ver :: sig :: ev :: n :: rest =>
    let v := strBytes ver
    match parseEvArg v ev, parseEvArgs v rest with
    | some e, some all =>
      let auth := all.take n.toNat!
      let s := sig == "1"
      let full := Provider.ofEvents auth
      let f := (allowedFresh e full s).coarse
      let sh := (allowedFresh e (Provider.ofEvents all.reverse) s).coarse
      let r := (allowedFresh e (Provider.ofEvents (selectNeeded full e)) s).coarse
      if f.startsWith "skip" || sh.startsWith "skip" || r.startsWith "skip" then some "skip:unmodelled"
      else
        let m := f ++ "," ++ sh ++ "," ++ r
        -- outside the property's quantifier: auth events from different rooms (the Valid() gate)
        if !full.valid || !(Provider.ofEvents all).valid then some (m ++ "\tunspecified:auth events from different rooms")
        else some (m ++ "\t" ++ r ++ "," ++ r ++ "," ++ r)
    | _, _ => some "bad-op"
  | _ => some "bad-op"

end V.Driver.NeededOps
