/- Driver handler for `ctx.needed` (C09): the verdict on the full provider, on the reversed + extended provider and on
   the provider restricted to the pairs StateNeededForAuth names; specification = the model's verdict on the restricted one. -/
import VDriver.Util
import VDriver.Auth
import VModel.AuthNeeded
namespace V.Driver.NeededOps
open V V.Json V.Driver V.Auth V.Driver.AuthOps V.AuthNeeded

def handle (args : List String) : Option String :=
  match args with
  | ver :: sig :: ev :: n :: rest =>
    let v := strBytes ver
    match parseEvArg v ev, parseEvArgs v rest with
    | some e, some all =>
      let auth := all.take n.toNat!
      let s := sig == "1"
      let full := Provider.ofEvents auth
      let f := (allowedFresh e full s).coarse
      let sh := (allowedFresh e (Provider.ofEvents all.reverse) s).coarse
      let r := (allowedFresh e (Provider.ofEvents (selectNeeded full e)) s).coarse
      if f.startsWith "skip" || sh.startsWith "skip" || r.startsWith "skip" then some "skip:unmodelled"
      else
        let m := f ++ "," ++ sh ++ "," ++ r
        -- outside the property's quantifier: auth events from different rooms (the Valid() gate)
        if !full.valid || !(Provider.ofEvents all).valid then some (m ++ "\tunspecified:auth events from different rooms")
        else some (m ++ "\t" ++ r ++ "," ++ r ++ "," ++ r)
    | _, _ => some "bad-op"
  | _ => some "bad-op"

def bytesLt : Bytes → Bytes → Bool
  | [], [] => false
  | [], _ :: _ => true
  | _ :: _, [] => false
  | a :: as, b :: bs => a < b || (a == b && bytesLt as bs)

def insertSorted (x : Bytes) : List Bytes → List Bytes
  | [] => [x]
  | y :: ys => if x == y then y :: ys else if bytesLt x y then x :: y :: ys else y :: insertSorted x ys

/-- a list of IDs as a sorted set -/
def sortedSet (l : List Bytes) : List Bytes := l.foldl (fun acc x => insertSorted x acc) []

/-- `ctx.addauth`: the selection `EventBuilder.AddAuthEvents` makes for a new event shaped like `e` (`selectNeeded`; in a
    version with domainless room IDs the create event is named by the room ID instead of being listed), the verdict on the
    full provider and on a provider holding exactly the selected events.  Specification (C09, last sentence): the selected
    auth events are sufficient — the verdict on them is the verdict on the full state. -/
def handleAddAuth (args : List String) : Option String :=
  match args with
  | ver :: sig :: ev :: rest =>
    let v := strBytes ver
    match parseEvArg v ev, parseEvArgs v rest with
    | some e, some auth =>
      let s := sig == "1"
      let full := Provider.ofEvents auth
      let roomCreateID : Bytes := 0x24 :: e.roomID.drop 1
      -- the create event of another room is not named by this room's ID: it is neither listed nor handed over
      let sel := (selectNeeded full e).filter (fun x => !(e.isV3Format && x.isCreate && x.eventID != roomCreateID))
      let refs := sortedSet ((sel.filter (fun x => !(e.isV3Format && x.isCreate))).map (·.eventID))
      let refsHex := hex (",".toUTF8.toList.intercalate refs)
      let f := (allowedFresh e full s).coarse
      let r := (allowedFresh e (Provider.ofEvents sel) s).coarse
      if f.startsWith "skip" || r.startsWith "skip" then some "skip:unmodelled"
      else
        let m := f ++ "," ++ r ++ "," ++ refsHex
        -- auth events from different rooms: outside the property's quantifier, and the generator's format-1 event IDs
        -- repeat across rooms, so "the events the references stand for" is not well defined there
        if !full.valid then some "skip:auth events from different rooms"
        else some (m ++ "\t" ++ r ++ "," ++ r ++ "," ++ refsHex)
    | _, _ => some "bad-op"
  | _ => some "bad-op"

end V.Driver.NeededOps
