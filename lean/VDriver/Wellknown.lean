/- Driver handlers for area `wellknown` (C16: LookupWellKnown). -/
import VDriver.Util
import VModel.WellKnown
namespace V.Driver.WellknownOps
open V V.Driver V.WellKnown V.Json

def unhexStr (s : String) : Option WellKnown.Str := (unhex s).map (fun b => (bytesStr b).toList)

/-- `json.Unmarshal(body, &map[string]json.RawMessage)` + `json.Unmarshal(document["m.server"], &string)` — modelled,
    not verified (trusted base: encoding/json): syntax = VModel.Json.parse, then VModel.WellKnown.decodeDoc (only a
    member whose key is EXACTLY `m.server` counts).  `none`: invalid UTF-8 / lone surrogates inside strings, whose
    replacement rules are not modelled. -/
def decodeGo (body : Bytes) : Option Decoded :=
  match parse body with
  | none => some .error
  | some p => if !p.wellFormed then none else some (decodeDoc p)

/-- body descriptor `<hx prefix>+<n>x<hx byte>+<hx suffix>` -/
def parseBody (s : String) : Option Bytes :=
  match s.splitOn "+" with
  | [p, mid, q] =>
    match mid.splitOn "x" with
    | [n, b] =>
      match unhex p, n.toNat?, unhex b, unhex q with
      | some p, some n, some [b], some q => some (p ++ List.replicate n b ++ q)
      | _, _, _, _ => none
    | _ => none
  | _ => none

def showWKErr : WKErr → String
  | .status => "err:status"
  | .size => "err:size"
  | .decode => "err:decode"
  | .noServer => "err:noserver"

/-- expiry as the harness canonicalises it: relative to the clock when it came from max-age -/
def showExpiry (abs : Bool) (v : Int) : String := (if abs then "abs:" else "rel:") ++ toString v

/-- `<hx line>|<hx line>…` (several header lines) or `-` -/
def parseLines (s : String) : Option (List WellKnown.Str) :=
  if s == "-" then some [] else (s.splitOn "|").mapM unhexStr

/-- ops:
    lookup <mode> <status> <hx content-length> <cache-control lines> <hx expires> <expires parsed: x|int> <body descr> <abs candidates>
       -> ok:<hx m.server>:<abs:<unix>|rel:<seconds from now>> | err:status | err:size | err:decode | err:noserver
    `<cache-control lines>` = `-` | `<hx line>|<hx line>…`: one hex text per `Cache-Control` header line of the reply.
    The model is run with now = 0, so a max-age lifetime comes out relative to the call time, which is
    how the harness prints it (CacheExpiresAt - time of call).
    Specification stream: honoured ONLY IF status 200, at most 50 KiB and the document NAMES AN m.server (a member
    whose key is exactly `m.server`, a non-empty string: `Spec.namesServer`), to THAT name, with the lifetime taken from
    max-age — on whichever Cache-Control line it stands — in preference to Expires.  Refusing is always allowed.
-/
def handle (op : String) (args : Array String) : Option String :=
  match op, args.toList with
  | "lookup", [_mode, status, cl, cc, ex, exParsed, bodyD, _cands] =>
    match status.toNat?, unhexStr cl, parseLines cc, unhexStr ex, parseBody bodyD with
    | some st, some cl, some ccLines, some ex, some body =>
      let expiresTime : Option Int := if exParsed == "x" then none else exParsed.toInt?
      -- resp.Header.Values("Cache-Control"): every line
      let r : Reply := ⟨st, cl, ccLines, ex, body⟩
      -- decode is evaluated once on the bytes actually read
      let read := body.take (maxSize + 1)
      match (if read.length > maxSize then some Decoded.error else decodeGo read) with
      | none => some "skip:ill-formed-unicode-in-body"
      | some d =>
        let res := lookup r 0 expiresTime (fun _ => d)
        let usedMaxAge := (Spec.maxAge (joinComma r.cacheControl)).isSome
        let m := match res with
          | .error e => showWKErr e
          | .ok w => "ok:" ++ hex w.newAddress ++ ":" ++ showExpiry (!usedMaxAge) w.cacheExpiresAt
        -- specification
        let doc := if body.length ≤ 51200 then parse body else none
        let named : Option Bytes := doc.bind Spec.namesServer
        let rSpec : Reply := r
        let specMaxAge := (Spec.maxAgeLines ccLines).isSome
        if (doc.map Spec.dupServer).getD false then some (m ++ "\tunspecified:several-m.server-members") else
        let s := match res with
          | .ok _ =>
            match (if st == 200 then named else none) with
            | some a => "ok:" ++ hex a ++ ":" ++ showExpiry (!specMaxAge) (Spec.lifetime rSpec 0 expiresTime)
            | none => "err:must-refuse"
          | .error e => showWKErr e      -- refusing is always allowed by "honoured only if"
        some (m ++ "\t" ++ s)
    | _, _, _, _, _ => some "bad-op"
  | _, _ => none

end V.Driver.WellknownOps
