/- Driver handlers for area `wellknown` (C16: LookupWellKnown). -/
import VDriver.Util
import VModel.WellKnown
namespace V.Driver.WellknownOps
open V V.Driver V.WellKnown V.Json

def unhexStr (s : String) : Option WellKnown.Str := (unhex s).map (fun b => (bytesStr b).toList)

/-- Go's encoding/json `foldName` on a key: ASCII letters to upper case, U+017F (ſ) to S, U+212A (K) to K. -/
def foldBytes : Bytes → Bytes
  | 0xC5 :: 0xBF :: rest => 0x53 :: foldBytes rest
  | 0xE2 :: 0x84 :: 0xAA :: rest => 0x4B :: foldBytes rest
  | c :: rest => (if 0x61 ≤ c && c ≤ 0x7A then c - 0x20 else c) :: foldBytes rest
  | [] => []

def mServerKey : Bytes := strBytes "m.server"

/-- json.Unmarshal(body, &struct{ NewAddress spec.ServerName `json:"m.server"` }) — modelled, not verified
    (trusted base: encoding/json): syntax = VModel.Json.parse; a top-level `null` decodes to nothing; any
    other non-object is a type error; members are read in document order, a key matches exactly or
    after case folding, a string value is stored, `null` leaves the field, anything else is a type
    error (decoding goes on, the call fails at the end). -/
def decodeGo (body : Bytes) : Option Decoded :=
  match parse body with
  | none => some .error
  | some p =>
    if !p.wellFormed then none    -- invalid UTF-8 / lone surrogates inside strings: replacement rules not modelled
    else match p with
    | .null => some (.ok [])
    | .obj kvs =>
      let (addr, err) := kvs.foldl (fun (acc : Bytes × Bool) kv =>
        let (_, key, v) := kv
        if key == mServerKey || foldBytes key == foldBytes mServerKey then
          match v with
          | .str _ dec => (dec, acc.2)
          | .null => acc
          | _ => (acc.1, true)
        else acc) ([], false)
      some (if err then .error else .ok addr)
    | _ => some .error

/-- body descriptor `<hx prefix>+<n>x<hx byte>+<hx suffix>` -/
def parseBody (s : String) : Option Bytes :=
  match s.splitOn "+" with
  | [p, mid, q] =>
    match mid.splitOn "x" with
    | [n, b] =>
      match unhex p, n.toNat?, unhex b, unhex q with
      | some p, some n, some [b], some q => some (p ++ List.replicate n b ++ q)
      | _, _, _, _ => none
    | _ => none
  | _ => none

def showWKErr : WKErr → String
  | .status => "err:status"
  | .size => "err:size"
  | .decode => "err:decode"
  | .noServer => "err:noserver"

/-- expiry as the harness canonicalises it: relative to the clock when it came from max-age -/
def showExpiry (abs : Bool) (v : Int) : String := (if abs then "abs:" else "rel:") ++ toString v

/-- ops:
    lookup <mode> <status> <hx content-length> <hx cache-control> <hx expires> <expires parsed: x|int> <body descr> <abs candidates>
       -> ok:<hx m.server>:<abs:<unix>|rel:<seconds from now>> | err:status | err:size | err:decode | err:noserver
    The model is run with now = 0, so a max-age lifetime comes out relative to the call time, which is
    how the harness prints it (CacheExpiresAt - time of call).
-/
def handle (op : String) (args : Array String) : Option String :=
  match op, args.toList with
  | "lookup", [_mode, status, cl, cc, ex, exParsed, bodyD, _cands] =>
    match status.toNat?, unhexStr cl, unhexStr cc, unhexStr ex, parseBody bodyD with
    | some st, some cl, some cc, some ex, some body =>
      let expiresTime : Option Int := if exParsed == "x" then none else exParsed.toInt?
      let r : Reply := ⟨st, cl, cc, ex, body⟩
      -- decode is evaluated once on the bytes actually read
      let read := body.take (maxSize + 1)
      match (if read.length > maxSize then some Decoded.error else decodeGo read) with
      | none => some "skip:ill-formed-unicode-in-body"
      | some d =>
        let res := lookup r 0 expiresTime (fun _ => d)
        let usedMaxAge := (Spec.maxAge cc).isSome
        let m := match res with
          | .error e => showWKErr e
          | .ok w => "ok:" ++ hex w.newAddress ++ ":" ++ showExpiry (!usedMaxAge) w.cacheExpiresAt
        -- specification: honoured only if status 200, at most 50 KiB, names an m.server; lifetime from
        -- max-age in preference to Expires
        let honourable := st == 200 && body.length ≤ 51200 && (match d with | .ok a => !a.isEmpty | .error => false)
        let s := match res with
          | .ok w =>
            if honourable then "ok:" ++ hex w.newAddress ++ ":" ++ showExpiry (!usedMaxAge) (Spec.lifetime r 0 expiresTime)
            else "err:must-refuse"
          | .error e => showWKErr e      -- refusing is always allowed by "honoured only if"
        some (m ++ "\t" ++ s)
    | _, _, _, _, _ => some "bad-op"
  | _, _ => none

end V.Driver.WellknownOps
