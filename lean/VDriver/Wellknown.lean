/- Driver handlers for area `wellknown` (stub: replace `handle`). -/
import VDriver.Util
namespace V.Driver.WellknownOps
open V V.Driver

def handle (_op : String) (_args : Array String) : Option String := none

end V.Driver.WellknownOps
