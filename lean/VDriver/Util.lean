/- Line-protocol helpers shared by every driver handler.  Core Lean only. -/
import VModel.Json
namespace V.Driver
open V

def hexDigitVal (c : Char) : Option Nat :=
  if '0' ≤ c ∧ c ≤ '9' then some (c.toNat - '0'.toNat)
  else if 'a' ≤ c ∧ c ≤ 'f' then some (c.toNat - 'a'.toNat + 10)
  else if 'A' ≤ c ∧ c ≤ 'F' then some (c.toNat - 'A'.toNat + 10)
  else none

partial def unhexAux : List Char → List UInt8 → Option (List UInt8)
  | [], acc => some acc.reverse
  | [_], _ => none
  | a :: b :: rest, acc =>
    match hexDigitVal a, hexDigitVal b with
    | some x, some y => unhexAux rest (UInt8.ofNat (x * 16 + y) :: acc)
    | _, _ => none

/-- decode a hex string; "-" stands for the empty byte string -/
def unhex (s : String) : Option Bytes :=
  if s == "-" then some [] else unhexAux s.toList []

def hexChar (n : Nat) : Char :=
  if n < 10 then Char.ofNat ('0'.toNat + n) else Char.ofNat ('a'.toNat + n - 10)

def hex (b : Bytes) : String :=
  if b.isEmpty then "-" else
  String.ofList (b.foldr (fun x acc => hexChar (x.toNat / 16) :: hexChar (x.toNat % 16) :: acc) [])

def strBytes (s : String) : Bytes := s.toUTF8.toList

def bytesStr (b : Bytes) : String :=
  match String.fromUTF8? (ByteArray.mk b.toArray) with
  | some s => s
  | none => "<non-utf8:" ++ hex b ++ ">"

def showErr : Err → String
  | .badJSON => "err:badjson"
  | .other w => "err:" ++ w
  | .panic site => "panic:" ++ site

def showExceptBytes : Except Err Bytes → String
  | .ok b => "ok:" ++ hex b
  | .error e => showErr e

end V.Driver
