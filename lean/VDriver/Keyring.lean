/- Driver handlers for area `keyring` (C12): keyring.go, keys.go. -/
import VDriver.Util
import VModel.KeyRing
namespace V.Driver.KeyringOps
open V V.Driver V.KeyRing

/-! Encodings (see harness/area_keyring.go).  Names, key IDs and keys are hex (`-` = empty).
    ts       : `a<nat>` absolute ms | `r<int>` relative to the op's `now`
    request  : `server,ts,strict,listOk,sigs,raw`   sigs: `_` | `|`-separated `keyid:reaches:signer` (signer `x` = none)
    keymap   : `_` | `;`-separated `server,keyid,key,expired_ts,valid_until_ts`
    script   : `E` (the call fails) | keymap
    fetchers : `none` | `/`-separated scripts
    outcome  : `ok:<bits>|db:<asked>|f<i>:<asked>…|store:<keymap>`  /  `err:db|…`  /  `err:store|…` -/

def parseTs (now : Nat) (s : String) : Option Nat :=
  if s.startsWith "a" then (s.drop 1).toString.toNat?
  else if s.startsWith "r" then
    match (s.drop 1).toString.toInt? with
    | some d => let v : Int := (now : Int) + d; if v < 0 then none else some v.toNat
    | none => none
  else none

def showTs (now : Nat) (v : Nat) : String :=
  let d : Int := (v : Int) - (now : Int)
  if d.natAbs < 100000000000 then "r" ++ toString d else "a" ++ toString v

def parseSig (s : String) : Option SigInfo :=
  match s.splitOn ":" with
  | [k, r, sg] =>
    match unhex k with
    | none => none
    | some kid =>
      if sg == "x" then some { keyID := kid, reaches := r == "1", verifies := fun _ => false }
      else match unhex sg with
        | some pk => some { keyID := kid, reaches := r == "1", verifies := fun key => key == pk }
        | none => none
  | _ => none

def parseL {α} (sep : String) (f : String → Option α) (s : String) : Option (List α) :=
  if s == "_" then some [] else (s.splitOn sep).mapM f

def parseRequest (now : Nat) (s : String) : Option Request :=
  match s.splitOn "," with
  | [srv, ts, strict, lok, sigs, _raw] =>
    match unhex srv, parseTs now ts, parseL "|" parseSig sigs with
    | some sv, some t, some sg => some { server := sv, atTS := t, strict := strict == "1", listOk := lok == "1", sigs := sg }
    | _, _, _ => none
  | _ => none

def parseEntry (now : Nat) (s : String) : Option (KeyReq × KeyRes) :=
  match s.splitOn "," with
  | [srv, kid, key, ex, vu] =>
    match unhex srv, unhex kid, unhex key, parseTs now ex, parseTs now vu with
    | some sv, some k, some kb, some e, some v => some (⟨sv, k⟩, { key := kb, expiredTS := e, validUntilTS := v })
    | _, _, _, _, _ => none
  | _ => none

def parseScript (now : Nat) (s : String) : Option FetchScript :=
  if s == "E" then some none else (parseL ";" (parseEntry now) s).map some

def parseFetchers (now : Nat) (s : String) : Option (List FetchScript) :=
  if s == "none" then some [] else (s.splitOn "/").mapM (parseScript now)

def sortStrings (l : List String) : List String := l.mergeSort (fun a b => !(b < a))

def joinOr (l : List String) : String := if l.isEmpty then "_" else ",".intercalate l

def showReqMap (now : Nat) (m : ReqMap) : String :=
  joinOr (sortStrings (m.map (fun (q, ts) => hex q.server ++ "/" ++ hex q.keyID ++ "@" ++ showTs now ts)))

def showKeyMap (now : Nat) (m : KeyMap) : String :=
  joinOr (sortStrings (m.map (fun (q, r) =>
    hex q.server ++ "/" ++ hex q.keyID ++ "=" ++ hex r.key ++ "." ++ showTs now r.expiredTS ++ "." ++ showTs now r.validUntilTS)))

def showOutcome (now : Nat) (out : Except CallErr (List Bool)) (tr : Trace) : String :=
  let head := match out with
    | .ok bits => "ok:" ++ (if bits.isEmpty then "_" else String.ofList (bits.map (fun b => if b then '1' else '0')))
    | .error .db => "err:db"
    | .error .store => "err:store"
  let db := match tr.dbAsked with | none => "none" | some m => showReqMap now m
  let fs := tr.fetcherCalls.map (fun (i, m) => "|f" ++ toString i ++ ":" ++ showReqMap now m)
  let st := match tr.stored with | none => "none" | some m => showKeyMap now m
  head ++ "|db:" ++ db ++ String.join fs ++ "|store:" ++ st

/-! parsing the implementation's outcome back (for the specification's judgement) -/

def parseAsked (now : Nat) (s : String) : Option ReqMap :=
  parseL "," (fun e =>
    match e.splitOn "@" with
    | [qk, ts] =>
      match qk.splitOn "/", parseTs now ts with
      | [sv, k], some t =>
        match unhex sv, unhex k with
        | some a, some b => some (⟨a, b⟩, t)
        | _, _ => none
      | _, _ => none
    | _ => none) s

def parseStored (now : Nat) (s : String) : Option KeyMap :=
  parseL "," (fun e =>
    match e.splitOn "=" with
    | [qk, rv] =>
      match qk.splitOn "/", rv.splitOn "." with
      | [sv, k], [key, ex, vu] =>
        match unhex sv, unhex k, unhex key, parseTs now ex, parseTs now vu with
        | some a, some b, some kb, some e', some v => some (⟨a, b⟩, { key := kb, expiredTS := e', validUntilTS := v })
        | _, _, _, _, _ => none
      | _, _ => none
    | _ => none) s

def parseOutcome (now : Nat) (s : String) : Option (Except CallErr (List Bool) × Trace) :=
  match s.splitOn "|" with
  | head :: rest =>
    let out : Option (Except CallErr (List Bool)) :=
      if head == "err:db" then some (.error .db)
      else if head == "err:store" then some (.error .store)
      else if head.startsWith "ok:" then
        let b := (head.drop 3).toString
        if b == "_" then some (.ok []) else
        if b.toList.all (fun c => c == '0' || c == '1') then some (.ok (b.toList.map (· == '1'))) else none
      else none
    match out with
    | none => none
    | some o =>
      let step (acc : Option Trace) (part : String) : Option Trace :=
        match acc with
        | none => none
        | some tr =>
          if part.startsWith "db:" then
            let v := (part.drop 3).toString
            if v == "none" then some tr else (parseAsked now v).map (fun m => { tr with dbAsked := some m })
          else if part.startsWith "store:" then
            let v := (part.drop 6).toString
            if v == "none" then some tr else (parseStored now v).map (fun m => { tr with stored := some m })
          else if part.startsWith "f" then
            match (part.drop 1).toString.splitOn ":" with
            | [i, v] =>
              match i.toNat?, parseAsked now v with
              | some n, some m => some { tr with fetcherCalls := tr.fetcherCalls ++ [(n, m)] }
              | _, _ => none
            | _ => none
          else none
      (rest.foldl step (some {})).map (fun tr => (o, tr))
  | [] => none

def bstr (b : Bool) : String := if b then "1" else "0"

def parseVerifyKey (s : String) : Option VerifyKeyEntry :=
  match s.splitOn ":" with
  | [k, key, ss] =>
    match unhex k, unhex key with
    | some a, some b => some { keyID := a, key := b, selfSigned := ss == "1" }
    | _, _ => none
  | _ => none

def parseOldKey (now : Nat) (s : String) : Option OldKeyEntry :=
  match s.splitOn ":" with
  | [k, key, ex] =>
    match unhex k, unhex key, parseTs now ex with
    | some a, some b, some e => some { keyID := a, key := b, expiredTS := e }
    | _, _, _ => none
  | _ => none

/-- server keys: `name,valid_until,verify_keys,old_verify_keys` with `|`-separated entries -/
def parseServerKeys (now : Nat) (name vu vks oks : String) : Option ServerKeys :=
  match unhex name, parseTs now vu, parseL "|" parseVerifyKey vks, parseL "|" (parseOldKey now) oks with
  | some n, some v, some a, some b => some { serverName := n, validUntilTS := v, verifyKeys := a, oldVerifyKeys := b }
  | _, _, _, _ => none

def showChecks (c : KeyChecks) (ks : Option (List (Bytes × Bytes))) : String :=
  let per := joinOr (sortStrings (c.ed25519Checks.map (fun e => hex e.keyID ++ ":" ++ bstr e.validEd25519 ++ bstr e.matchingSignature)))
  let all := match c.allEd25519ChecksOK with | none => "n" | some b => bstr b
  let keys := match ks with
    | none => "nil"
    | some l => joinOr (sortStrings (l.map (fun (k, v) => hex k ++ "=" ++ hex v)))
  "ok:" ++ bstr c.allChecksOK ++ bstr c.matchingServerName ++ bstr c.futureValidUntilTS ++ bstr c.hasEd25519Key ++ all ++ "|" ++ per ++ "|" ++ keys

/-- the property's clause for key responses, written out: accepted only if the name matches, valid_until_ts
    is in the future, there is an ed25519 key, and every ed25519 key is 32 bytes and signed the response -/
def specAllOK (name : Bytes) (now : Nat) (k : ServerKeys) : Bool :=
  let eds := k.verifyKeys.filter (fun e => e.keyID.takeWhile (· ≠ 58) == ed25519Name)
  name == k.serverName && decide (now < k.validUntilTS) && !eds.isEmpty && eds.all (fun e => e.key.length == 32 && e.selfSigned)

def parseNotarySig (s : String) : Option NotarySig :=
  match s.splitOn ":" with
  | [k, kn, ok] => (unhex k).map (fun kid => { keyID := kid, known := kn == "1", sigOk := ok == "1" })
  | _ => none

/-- one response `parsed,name,vu,vks,oks,nsigs,raw` -/
def parseResponse (now : Nat) (s : String) : Option (Option NotaryResponse) :=
  match s.splitOn "," with
  | [parsed, name, vu, vks, oks, ns, _raw] =>
    if parsed == "0" then some none else
    match parseServerKeys now name vu vks oks, parseL "|" parseNotarySig ns with
    | some sk, some sigs => some (some { keys := sk, listOk := true, notarySigs := sigs })
    | _, _ => none
  | _ => none

/-- `E` (the client call fails) | `_` | `~`-separated responses; an undecodable response makes the client fail -/
def parseResponses (now : Nat) (s : String) : Option (Option (List NotaryResponse)) :=
  if s == "E" then some none
  else if s == "_" then some (some [])
  else match (s.splitOn "~").mapM (parseResponse now) with
    | none => none
    | some l => if l.all Option.isSome then some (some (l.filterMap id)) else some none

/-- comparisons against the wall clock are judged with this margin (ms) -/
def clockMargin : Nat := 600000

/-- the property's clause for a key response obtained by a fetcher at wall-clock `now`: `none` when
    valid_until_ts is too close to `now` to be judged -/
def specAccepts (name : Bytes) (now : Nat) (k : ServerKeys) : Option Bool :=
  if now < k.validUntilTS + clockMargin && k.validUntilTS < now + clockMargin then
    (if specAllOK name (k.validUntilTS - 1) k then none else some false)
  else some (specAllOK name now k)

def handle (op : String) (args : Array String) : Option String :=
  match op, args.toList with
  | "verify_jsons", [n, reqs, db, storeOk, fetchers, impl] =>
    match n.toNat? with
    | none => some "bad-op"
    | some now =>
      match parseL ";" (parseRequest now) reqs, parseScript now db, parseFetchers now fetchers with
      | some rs, some dbs, some fs =>
        let (out, tr) := verifyJSONs rs dbs (storeOk == "1") fs now
        let m := showOutcome now out tr
        let sp := match parseOutcome now impl with
          | none => if impl.startsWith "panic:" then "no-panic" else "unspecified:unparsable-outcome"
          | some (io, itr) =>
            match Spec.judge rs dbs (storeOk == "1") fs now io itr with
            | none => impl
            | some (true, why) => "unspecified:" ++ why
            | some (false, why) => "demand:" ++ why
        some (m ++ "\t" ++ sp)
      | _, _, _ => some "bad-op"
  | "was_valid_at", [n, ex, vu, at', strict] =>
    match n.toNat? with
    | none => some "bad-op"
    | some now =>
      -- the harness resolves relative timestamps against the clock it READS, not against this argument: an op whose
      -- `now` is not a recent wall-clock reading (a shrunk one) does not describe what the harness executes
      if now < 1600000000000 then some "bad-op" else
      match parseTs now ex, parseTs now vu, parseTs now at' with
      | some e, some v, some t =>
        let k : KeyRes := { key := [], expiredTS := e, validUntilTS := v }
        some (bstr (wasValidAt k t (strict == "1") now) ++ "\t" ++ bstr (Spec.validAt k t (strict == "1") now))
      | _, _, _ => some "bad-op"
  | "check_keys", [n, reqName, parsed, name, vu, vks, oks, _raw] =>
    match n.toNat? with
    | none => some "bad-op"
    | some now =>
      if parsed == "0" then some "err:json\terr:json" else
      match unhex reqName, parseServerKeys now name vu vks oks with
      | some rn, some sk =>
        let (c, ks) := checkKeys rn now sk
        let m := showChecks c ks
        -- spec: the AllChecksOK bit is what the property speaks about; the rest is compared with the model
        let sp := if c.allChecksOK == specAllOK rn now sk then m else "demand:AllChecksOK=" ++ bstr (specAllOK rn now sk)
        some (m ++ "\t" ++ sp)
      | _, _ => some "bad-op"
  | "public_key", [n, name, vu, vks, oks, kid, at', _raw] =>
    match n.toNat? with
    | none => some "bad-op"
    | some now =>
      match parseServerKeys now name vu vks oks, unhex kid, parseTs now at' with
      | some sk, some k, some t =>
        let showKey (o : Option Bytes) : String := match o with
          | some key => if key.isEmpty then "none" else "ok:" ++ hex key
          | none => "none"
        -- specification: the property's validity clause applied to the response's entries (current key: at or
        -- before valid_until_ts; old key: BEFORE its expired_ts)
        let sp := match Spec.publicKeyAnswer sk k t with
          | none => "unspecified:a current and an old key of that ID are both valid"
          | some a => showKey a
        some (showKey (publicKey sk k t) ++ "\t" ++ sp)
      | _, _, _ => some "bad-op"
  | "direct_fetch", [n, reqName, direct, notary, _impl] | "direct_history", [n, reqName, direct, notary, _impl] =>
    match n.toNat?, unhex reqName with
    | some now, some rn =>
      match parseResponses now direct, parseResponses now notary with
      | some d, some nl =>
        let dk : Option ServerKeys := match d with
          | some [r] => some r.keys
          | _ => none
        let nk : Option (List ServerKeys) := nl.map (fun l => l.map NotaryResponse.keys)
        let out := "ok:" ++ showKeyMap now (directFetch rn dk nk)
        -- specification: the direct answer if the property accepts it, else the first notary answer naming the
        -- server if the property accepts that, else nothing
        let mapped (k : ServerKeys) := "ok:" ++ showKeyMap now (mapServerKeys k [])
        let viaNotary : String := match nk with
          | none => "ok:_"
          | some l => match l.find? (fun k => k.serverName == rn) with
            | none => "ok:_"
            | some k => match specAccepts rn now k with
              | none => "unspecified:valid_until_ts within the clock margin"
              | some true => mapped k
              | some false => "ok:_"
        let sp := match dk with
          | none => viaNotary
          | some k => match specAccepts rn now k with
            | none => "unspecified:valid_until_ts within the clock margin"
            | some true => mapped k
            | some false => viaNotary
        some (out ++ "\t" ++ sp)
      | _, _ => some "bad-op"
    | _, _ => some "bad-op"
  | "perspective_fetch", [n, _notaryName, _known, resps, _impl] | "perspective_history", [n, _notaryName, _known, resps, _impl] =>
    match n.toNat? with
    | none => some "bad-op"
    | some now =>
      match parseResponses now resps with
      | none => some "bad-op"
      | some rl =>
        let out := match perspectiveFetch rl with
          | none => "err:fetch"
          | some m => "ok:" ++ showKeyMap now m
        -- specification: every response signed by the notary under a configured key and acceptable for the
        -- server it names, else the fetch fails
        let sp := match rl with
          | none => "err:fetch"
          | some l =>
            let verdicts := l.map (fun r =>
              if !(r.listOk && r.notarySigs.any (fun s => s.known && s.sigOk)) then some false
              else specAccepts r.keys.serverName now r.keys)
            if verdicts.any (· == some false) then "err:fetch"
            else if verdicts.any (· == none) then "unspecified:valid_until_ts within the clock margin"
            else "ok:" ++ showKeyMap now (l.foldl (fun acc r => mapServerKeys r.keys acc) [])
        some (out ++ "\t" ++ sp)
  | _, _ => none

end V.Driver.KeyringOps
