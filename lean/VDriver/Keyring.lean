/- Driver handlers for area `keyring` (stub: replace `handle`). -/
import VDriver.Util
namespace V.Driver.KeyringOps
open V V.Driver

def handle (_op : String) (_args : Array String) : Option String := none

end V.Driver.KeyringOps
