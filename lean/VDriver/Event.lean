/- Driver handlers for area `event` (C03, C04) and the PDU ops of area `redact` (C05). -/
import VDriver.Util
import VModel.EventParse
import VModel.EventSpec
import VModel.EventBuild
namespace V.Driver.EventOps
open V V.Json V.GoJson V.Driver V.Redact V.EventParse

def H : Bytes → Bytes := Hash.sha256

def showErrE : Err → String
  | .badJSON => "err:badjson"
  | .other w =>
    if w.startsWith "unmodelled" then "skip:" ++ w
    else if w == "toolarge" then "err:toolarge"
    else if w == "toolarge-persistable" then "err:toolarge-persistable"
    else if w == "invalid-json" then "err:invalid-json"
    else "err:other"
  | .panic s => "panic:" ++ s

def showOpt : Option Bytes → String
  | none => "~"
  | some b => hex b

def showIDs : Option (List Bytes) → String
  | none => "~"
  | some l => "[" ++ ",".intercalate (l.map hex) ++ "]"

/-- one accessor that may panic: in guarded mode a panic is shown in place -/
def showAcc (guarded : Bool) (x : Except Err String) : Except Err String :=
  match x with
  | .ok s => .ok s
  | .error (.panic site) => if guarded then .ok "PANIC" else .error (.panic site)
  | .error e => .error e

/-- The accessor tuple of an event, as the harness prints it. -/
def showPDU (guarded : Bool) (e : PDU) : String :=
  let fields : Except Err (List String) := do
    let eid ← showAcc guarded ((eventID H e).map hex)
    let rid ← showAcc guarded ((roomID H e).map hex)
    let auth ← showAcc guarded ((authEventIDs e).map showIDs)
    pure ["eid=" ++ eid, "rid=" ++ rid, "type=" ++ hex e.f.type, "sk=" ++ showOpt e.f.stateKey,
          "sender=" ++ hex e.f.sender, "redacted=" ++ (if e.redacted then "1" else "0"),
          "depth=" ++ toString e.f.depth, "ts=" ++ toString e.f.originServerTS,
          "prev=" ++ showIDs (prevEventIDs e), "auth=" ++ auth,
          "content=" ++ (match e.f.content with
            | none => "~"
            | some v => hex (encodeCanon v)),
          "unsigned=" ++ (match e.f.unsigned with
            | none => "~"
            | some v => hex (encodeCanon v)),
          "canon=" ++ (if e.json == encodeCanon (.obj e.obj) then "1" else "0"),
          "json=" ++ hex (encodeCanon (.obj e.obj))]
  match fields with
  | .ok fs => "ok:" ++ "|".intercalate fs
  | .error err => showErrE err

def showParse (guarded : Bool) (withLen : Bool) : Except Err PDU → String
  | .ok e => showPDU guarded e ++ (if withLen then "|len=" ++ toString e.json.length else "")
  | .error err => showErrE err

/-- texts the event models do not cover: ill-formed Unicode or duplicate keys anywhere (the
    canonical form of such texts is outside C01's specification) -/
def textSkip (t : Bytes) : Option String :=
  match parse t with
  | none => none
  | some p =>
    if !p.wellFormed then some "skip:ill-formed unicode"
    else if !p.toJVal.noDupKeys then some "skip:duplicate keys"
    else none

def flag (b : Bool) : String := if b then "1" else "0"

/-- texts no model covers: ill-formed Unicode (the canonical form of such texts is outside C01's specification) -/
def illFormedSkip (t : Bytes) : Option String :=
  match parse t with
  | none => none
  | some p => if !p.wellFormed then some "skip:ill-formed unicode" else none

/-- the specification stream of `parse_untrusted` (C04): the expected tuple in the printer's format.
    Texts that `EventSpec.mustRefuse` names (a duplicate member name at any depth, a case variant of an event-struct
    member) must be REFUSED.  The properties do not say with which error: the stream prints the model's error class
    when the model refuses too, and `err:badjson` otherwise (so an implementation that accepts, or a model that
    accepts / does not cover the text, disagrees with it). -/
def untrustedSpec (ver t : Bytes) (modelOutcome : String) : String :=
  let refuse : Option String := match parse t with
    | some p => EventSpec.mustRefuse p.toJVal
    | none => none
  if refuse.isSome then (if modelOutcome.startsWith "err:" then modelOutcome else "err:badjson") else
  if !modelOutcome.startsWith "ok:" then "unspecified:input rejected or outside the model (compared with the model only)" else
  match EventSpec.untrustedExpect H ver t with
  | .error w => "unspecified:" ++ w
  | .ok x =>
    let js := encodeCanon x.json
    "ok:" ++ "|".intercalate ["eid=" ++ hex x.eid, "rid=" ++ hex x.rid, "type=" ++ hex x.type, "sk=" ++ showOpt x.sk,
      "sender=" ++ hex x.sender, "redacted=" ++ flag x.redacted, "depth=" ++ toString x.depth, "ts=" ++ toString x.ts,
      "prev=" ++ showIDs x.prev, "auth=" ++ showIDs x.auth,
      "content=" ++ (match x.content with
        | none => "~"
        | some v => hex (encodeCanon v)),
      "unsigned=" ++ (match x.unsigned with
        | none => "~"
        | some v => hex (encodeCanon v)),
      "canon=1", "json=" ++ hex js, "len=" ++ toString js.length]

/-- `redact.pdu`: build from trusted JSON with a given ID, Redact(), Redact() again -/
def showRedactPDU (ver id js : Bytes) : String :=
  match textSkip js with
  | some s => s
  | none =>
    match parseTrustedWithID ver id false js with
    | .error err => showErrE err
    | .ok e =>
      let part (err : Err) : String := match err with
        | .panic _ => "PANIC"
        | x => showErrE x
      match redact e with
      | .error err => if (part err).startsWith "skip" then part err else showPDU true e ++ "##" ++ part err
      | .ok e1 =>
        match redact e1 with
        | .error err => if (part err).startsWith "skip" then part err else showPDU true e ++ "##" ++ showPDU true e1 ++ "##" ++ part err
        | .ok e2 => showPDU true e ++ "##" ++ showPDU true e1 ++ "##idem=" ++ flag (showPDU true e2 == showPDU true e1)

/-! ### property ops: verdict vectors (the specification stream is the all-true vector) -/

def accStr (x : Except Err String) : String :=
  match x with
  | .ok s => s
  | .error (.panic _) => "PANIC"
  | .error _ => "UNMODELLED"

/-- the fields C03 says survive a round trip -/
def coreTuple (e : PDU) : List String :=
  [accStr ((eventID H e).map hex), hex e.f.type, hex e.f.sender, accStr ((roomID H e).map hex), showOpt e.f.stateKey,
   (match e.f.content with
    | none => "~"
    | some v => hex (encodeCanon v)),
   toString e.f.depth, toString e.f.originServerTS, showIDs (prevEventIDs e), accStr ((authEventIDs e).map showIDs)]

def idsTuple (e : PDU) : List String :=
  [hex e.f.type, hex e.f.sender, accStr ((roomID H e).map hex), showOpt e.f.stateKey]

def anyUnmodelled (xs : List String) : Bool := xs.contains "UNMODELLED"

def idFormatOf (ver : Bytes) : Nat := ((rowOf ver).map (·.eventIDFormat)).getD 0

/-- `redact.pdu_props` -/
def showPDUProps (ver id js : Bytes) : String :=
  match textSkip js with
  | some s => s
  | none =>
    match parseTrustedWithID ver id false js with
    | .error (.other w) => if w.startsWith "unmodelled" then "skip:" ++ w else "err:construct"
    | .error _ => "err:construct"
    | .ok e =>
      match redactJSON ver (.obj e.obj), redact e with
      | .ok want, .ok e1 =>
        match redact e1 with
        | .ok e2 =>
          let sigSame := match signingPayload ver (.obj e.obj), signingPayload ver (.obj e1.obj),
                               signaturesOf ver (.obj e.obj), signaturesOf ver (.obj e1.obj) with
            | .ok p0, .ok p1, .ok s0, .ok s1 => p0 == p1 && (s0.map encodeCanon) == (s1.map encodeCanon)
            | _, _, _, _ => false
          let m := "ids=" ++ flag (idsTuple e == idsTuple e1) ++
            "|eid=" ++ (if idFormatOf ver == 1 then "na" else flag (accStr ((eventID H e2).map hex) == accStr ((eventID H e).map hex))) ++
            "|red=" ++ flag e2.redacted ++ "|idem=" ++ flag (showPDU true e2 == showPDU true e1) ++
            "|json=" ++ flag (e1.json == encodeCanon want) ++ "|sig=" ++ flag sigSame
          if anyUnmodelled (idsTuple e ++ idsTuple e1) then "skip:unmodelled accessor" else
          m ++ "\t" ++ "ids=1|eid=" ++ (if idFormatOf ver == 1 then "na" else "1") ++ "|red=1|idem=1|json=1|sig=1"
        | .error err => showErrE err
      | .error (.other w), _ => if w.startsWith "unmodelled" then "skip:" ++ w else "err:redact"
      | _, .error err => showErrE err
      | .error err, _ => showErrE err

def isB64Char (url : Bool) (c : UInt8) : Bool :=
  (0x41 ≤ c && c ≤ 0x5A) || (0x61 ≤ c && c ≤ 0x7A) || (0x30 ≤ c && c ≤ 0x39) ||
  (if url then c == 0x2D || c == 0x5F else c == 0x2B || c == 0x2F)

def idAlphabetOK (url : Bool) (id : Bytes) : Bool :=
  match id with
  | 0x24 :: rest => rest.length == 43 && rest.all (isB64Char url)
  | _ => false

/-- the specification stream of `event.roundtrip` (C03): every relation holds for whatever `Build` returned -/
def roundtripSpec (ver : Bytes) : String :=
  "u=1|t=1|h=1|nr=1|cf=1|v12=" ++ (if ((rowOf ver).map (·.domainlessRoomID)).getD false then "1" else "na")

def roundtripOp (ver js : Bytes) : String :=
  match textSkip js with
  -- outside the event models (ill-formed Unicode, a member name that occurs twice) — but NOT outside the property: the
  -- implementation is still held to the specification (defect P5: `Build` returned events with a repeated member name
  -- inside content / unsigned, which `NewEventFromUntrustedJSON` refuses)
  | some s => s ++ "\t" ++ roundtripSpec ver
  | none =>
    match parseTrusted H ver false js with
    | .error (.other w) => if w.startsWith "unmodelled" then "skip:" ++ w else "err:construct"
    | .error _ => "err:construct"
    | .ok ref =>
      let want := coreTuple ref
      let same (r : Except Err PDU) : String := match r with
        | .ok p => flag (coreTuple p == want && !p.redacted)
        | .error _ => "0"
      let unm (r : Except Err PDU) : Bool := match r with
        | .error (.other w) => w.startsWith "unmodelled"
        | _ => false
      let pu := parseUntrusted H ver js
      let rid := accStr ((eventID H ref).map (fun x => bytesStr x))
      let pt := match eventID H ref with
        | .ok id => parseTrustedWithID ver id false js
        | .error x => .error x
      let ph : Except Err PDU := match toHeadered H ref with
        | .ok hj => parseHeadered false (encodeCanon hj)
        | .error x => .error x
      if unm pu || unm pt || unm ph || anyUnmodelled want || rid == "UNMODELLED" then "skip:unmodelled" else
      let domainless := ((rowOf ver).map (·.domainlessRoomID)).getD false
      let v12 := if !domainless then "na"
        else if isCreate ref then
          (match roomID H ref, eventID H ref with
           | .ok r, .ok i => flag (r == 0x21 :: i.drop 1)
           | _, _ => "0")
        else
          (match authEventIDs ref, EventSpec.get ref.obj b!"room_id" with
           | .ok (some (a :: _)), some (.str room) => flag (!room.isEmpty && a == 0x24 :: room.drop 1)
           | _, _ => "0")
      let m := "u=" ++ same pu ++ "|t=" ++ same pt ++ "|h=" ++ same ph ++ "|nr=" ++ flag (!ref.redacted) ++
        "|cf=" ++ flag (match checkFields ref with
          | .ok () => true
          | .error _ => false) ++ "|v12=" ++ v12
      m ++ "\t" ++ "u=1|t=1|h=1|nr=1|cf=1|v12=" ++ (if domainless then "1" else "na")

def idpropsOp (ver js u name kid : Bytes) : String :=
  match textSkip js, parse u with
  | some s, _ => s
  | none, none => "bad-op"
  | none, some pu =>
    match parseTrusted H ver false js with
    | .error (.other w) => if w.startsWith "unmodelled" then "skip:" ++ w else "err:construct"
    | .error _ => "err:construct"
    | .ok e =>
      let id0 := accStr ((eventID H e).map hex)
      let idOf (r : Except Err PDU) : String := match r with
        | .ok p => accStr ((eventID H p).map hex)
        | .error (.other w) => if w.startsWith "unmodelled" then "UNMODELLED" else "ERR"
        | .error _ => "ERR"
      let su := idOf (setUnsigned e pu.toJVal)
      let o1 := setFirst b!"signatures" (.obj [(b!"elsewhere", .obj [(b!"ed25519:z", .str b!"c2ln")])]) e.obj
      let o2 := deleteFirst b!"signatures" e.obj
      let se1 := idOf (parseTrusted H ver false (encodeCanon (.obj o1)))
      let se2 := idOf (parseTrusted H ver false (encodeCanon (.obj o2)))
      let sg := idOf (signWith e name kid b!"c2ln")
      let rd := idOf (redact e)
      if [id0, su, se1, se2, sg, rd].contains "UNMODELLED" then "skip:unmodelled" else
      let fmt := idFormatOf ver
      let al := if fmt == 2 then (match eventID H e with
          | .ok i => flag (idAlphabetOK false i)
          | _ => "0")
        else if fmt == 3 then (match eventID H e with
          | .ok i => flag (idAlphabetOK true i)
          | _ => "0")
        else "na"
      let m := "su=" ++ flag (su == id0) ++ "|se=" ++ flag (se1 == id0 && se2 == id0) ++ "|sg=" ++ flag (sg == id0) ++
        "|rd=" ++ flag (rd == id0) ++ "|al=" ++ al
      if fmt == 1 then m ++ "\tunspecified:event IDs of room versions 1 and 2 are not hashes"
      else m ++ "\tsu=1|se=1|sg=1|rd=1|al=1"

/-- `event.derived`: the events `SetUnsigned`, `SetUnsignedField` and `Sign` return are THE SAME EVENT with another
    `unsigned` / `signatures` member: every accessor C03 lists (ID, type, sender, room, state key, content, depth,
    timestamp, prev / auth references) reports what it reported on the original, and none panics — in every room
    version (in version 12: the room ID of a create event stays its own event ID with the sigil swapped, every other
    event still reports the create event as its first auth event). -/
def derivedOp (ver js u name kid : Bytes) : String :=
  match textSkip js, parse u with
  | some s, _ => s
  | none, none => "bad-op"
  | none, some pu =>
    match parseTrusted H ver false js with
    | .error (.other w) => if w.startsWith "unmodelled" then "skip:" ++ w else "err:construct"
    | .error _ => "err:construct"
    | .ok e =>
      let t0 := coreTuple e
      let same (r : Except Err PDU) : String := match r with
        | .ok p => if anyUnmodelled (coreTuple p) then "UNMODELLED" else flag (coreTuple p == t0)
        | .error (.other w) => if w.startsWith "unmodelled" then "UNMODELLED" else "0"
        | .error _ => "0"
      let su := same (setUnsigned e pu.toJVal)
      let sf := same (setUnsignedField e b!"x" (.num b!"1"))
      let sg := same (signWith e name kid b!"c2ln")
      if anyUnmodelled t0 || [su, sf, sg].contains "UNMODELLED" then "skip:unmodelled" else
      "su=" ++ su ++ "|sf=" ++ sf ++ "|sg=" ++ sg ++ "\tsu=1|sf=1|sg=1"

def iddiffOp (ver js1 js2 : Bytes) : String :=
  match textSkip js1, textSkip js2 with
  | some s, _ => s
  | _, some s => s
  | none, none =>
    match parseTrusted H ver false js1, parseTrusted H ver false js2 with
    | .ok a, .ok b =>
      let ia := accStr ((eventID H a).map hex)
      let ib := accStr ((eventID H b).map hex)
      if ia == "UNMODELLED" || ib == "UNMODELLED" then "skip:unmodelled" else
      let m := "diff=" ++ flag (ia != ib)
      if idFormatOf ver == 1 then m ++ "\tunspecified:event IDs of room versions 1 and 2 are not hashes" else m ++ "\tdiff=1"
    | .error (.other w), _ => if w.startsWith "unmodelled" then "skip:" ++ w else "err:construct"
    | _, .error (.other w) => if w.startsWith "unmodelled" then "skip:" ++ w else "err:construct"
    | _, _ => "err:construct"

/-- "[hex,hex,…]" -/
def parseIDList (s : String) : Option (List Bytes) :=
  let inner := String.ofList ((s.toList.drop 1).dropLast)
  if inner.isEmpty then some [] else (inner.splitOn ",").mapM unhex

/-- optional JSON argument: `~` = absent; `none` = unparseable -/
def optJSON (a : String) : Option (Option JVal) :=
  if a == "~" then some none else
  match unhex a with
  | some t => match parse t with
    | some p => some (some p.toJVal)
    | none => none
  | none => none

def buildOp (args : List String) : String :=
  match args with
  | [vers, now, originh, kidh, _seed, _rseed, rand16h, sigh, typeh, senderh, roomh, sk, prev, auth, redactsh, depth, contenth, unsignedh, sigsh] =>
    match now.toNat?, unhex originh, unhex kidh, unhex rand16h, unhex sigh, unhex typeh, unhex senderh, unhex roomh with
    | some nowN, some origin, some kid, some rand16, some sig, some ty, some sender, some room =>
      match parseIDList prev, parseIDList auth, unhex redactsh, depth.toInt?, optJSON contenth, optJSON unsignedh, optJSON sigsh with
      | some prevIDs, some authIDs, some redactsB, some dp, some contentV, some unsignedV, some sigsV =>
        let stateKey : Option (Option Bytes) := if sk == "~" then some none else (unhex sk).map some
        match stateKey with
        | none => "bad-op"
        | some skv =>
          -- (duplicate member names inside content / unsigned ARE modelled: `Build` refuses them since the fix of defect P5;
          --  inside a caller-supplied `signatures` value they stay outside the model)
          let texts := [contenth, unsignedh].filterMap (fun a => if a == "~" then none else unhex a)
          let sigTexts := [sigsh].filterMap (fun a => if a == "~" then none else unhex a)
          match (texts.findSome? illFormedSkip).orElse (fun _ => sigTexts.findSome? textSkip) with
          | some s => s
          | none =>
            let pe : EventBuild.Proto := EventBuild.Proto.mk ty sender room skv prevIDs authIDs redactsB dp contentV unsignedV sigsV
            showParse true true (EventBuild.build H (strBytes vers) pe nowN origin kid rand16 sig)
      | _, _, _, _, _, _, _ => "bad-op"
    | _, _, _, _, _, _, _, _ => "bad-op"
  | _ => "bad-op"

/-- ops (versions plain, texts hex-encoded):
    parse_untrusted <ver> <text>              NewEventFromUntrustedJSON          (+ spec: C04)
    parse_trusted <ver> <redacted> <text>     NewEventFromTrustedJSON
    parse_trusted_id <ver> <id> <redacted> <text>   NewEventFromTrustedJSONWithEventID
    headered <redacted> <text>                NewEventFromHeaderedJSON
-/
def handle (op : String) (args : Array String) : Option String :=
  match op, args.toList with
  | "accessors_pure", [_, _, _] =>
    -- `C19.event_accessors_read_only` / C03's round trip evaluated on the implementation by the harness: reads leave JSON() alone
    some "ok\tok"
  | "untrusted_view", [_, _] =>
    -- `C04.accessors_only_see_json` evaluated on the implementation by the harness: the accepted event and its own JSON()
    -- re-read as trusted input answer every accessor alike (incl. Redacts(), IsSticky(), StickyEndTime()); the answer is `ok`
    some "ok\tok"
  | "parse_untrusted", [verh, th] =>
    match some (strBytes verh), unhex th with
    | some ver, some t =>
      match illFormedSkip t with
      | some s => some s
      | none =>
        let m := showParse false true (parseUntrusted H ver t)
        some (m ++ "\t" ++ untrustedSpec ver t m)
    | _, _ => some "bad-op"
  | "parse_trusted", [verh, red, th] =>
    match some (strBytes verh), unhex th with
    | some ver, some t =>
      match textSkip t with
      | some s => some s
      | none => some (showParse true true (parseTrusted H ver (red == "1") t))
    | _, _ => some "bad-op"
  | "parse_trusted_id", [verh, idh, red, th] =>
    match some (strBytes verh), unhex idh, unhex th with
    | some ver, some id, some t =>
      match textSkip t with
      | some s => some s
      | none => some (showParse true true (parseTrustedWithID ver id (red == "1") t))
    | _, _, _ => some "bad-op"
  | "roundtrip", [verh, th] =>
    match some (strBytes verh), unhex th with
    | some ver, some t => some (roundtripOp ver t)
    | _, _ => some "bad-op"
  | "idprops", [verh, th, uh, nameh, kidh, _seed] =>
    match some (strBytes verh), unhex th, unhex uh, unhex nameh, unhex kidh with
    | some ver, some t, some u, some name, some kid => some (idpropsOp ver t u name kid)
    | _, _, _, _, _ => some "bad-op"
  | "derived", [verh, th, uh, nameh, kidh, _seed] =>
    match some (strBytes verh), unhex th, unhex uh, unhex nameh, unhex kidh with
    | some ver, some t, some u, some name, some kid => some (derivedOp ver t u name kid)
    | _, _, _, _, _ => some "bad-op"
  | "iddiff", [verh, t1h, t2h] =>
    match some (strBytes verh), unhex t1h, unhex t2h with
    | some ver, some t1, some t2 => some (iddiffOp ver t1 t2)
    | _, _, _ => some "bad-op"
  | "build", as => some (buildOp as)
  -- `event.buildrt`: Build, then the result read back as untrusted input.  `V.C03.build_roundtrip`: whatever the model of
  -- `Build` returns re-parses with the same ID, unredacted — the model's and the specification's answer is the constant `ok`
  | "buildrt", _ => some "ok\tok"
  | "headered", [red, th] =>
    match unhex th with
    | some t =>
      match textSkip t with
      | some s => some s
      | none => some (showParse true false (parseHeadered (red == "1") t))
    | _ => some "bad-op"
  | _, _ => none

end V.Driver.EventOps
