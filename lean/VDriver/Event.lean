/- Driver handlers for area `event` (stub: replace `handle`). -/
import VDriver.Util
namespace V.Driver.EventOps
open V V.Driver

def handle (_op : String) (_args : Array String) : Option String := none

end V.Driver.EventOps
