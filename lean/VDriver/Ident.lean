/- Driver handlers for area `ident` (stub: replace `handle`). -/
import VDriver.Util
namespace V.Driver.IdentOps
open V V.Driver

def handle (_op : String) (_args : Array String) : Option String := none

end V.Driver.IdentOps
