/- Driver handlers for area `ident` (C17): identifier grammars of /repo/spec + SplitID, and the model of net.ParseIP. -/
import VDriver.Util
import VModel.Ident
namespace V.Driver.IdentOps
open V V.Driver V.Ident

def showPort : Option Nat → String
  | none => "-1"
  | some p => toString p

def showSN : Option (BS × Option Nat) → String
  | none => "err"
  | some (h, p) => "ok:" ++ hex h ++ ":" ++ showPort p

def showPair : Option (BS × BS) → String
  | none => "err"
  | some (a, b) => "ok:" ++ hex a ++ ":" ++ hex b

def showRoom : Option (BS × Option BS) → String
  | none => "err"
  | some (a, some d) => "ok:" ++ hex a ++ ":" ++ hex d
  | some (a, none) => "ok:" ++ hex a ++ ":~"

/-- the unique element of a list of grammar derivations -/
def uniq {α : Type} (f : α → String) : List α → String
  | [] => "err"
  | [x] => f x
  | _ => "ambiguous-grammar"

/-- the final ':'-segment is a digit string of more than 5 digits (the spec grammar says 1*5DIGIT, the
    property text only "port up to 65535"): outside the property's quantifier -/
def longPort (s : BS) : Bool :=
  match (Spec.splitOn 0x3A s).getLast? with
  | some p => (Spec.splitOn 0x3A s).length > 1 && p.length > 5 && p.all isDigit
  | none => false

/-- does a server name inside an identifier have an over-long port -/
def longPortAfterFirstColon (s : BS) : Bool :=
  match cut 0x3A s with
  | some (_, d) => longPort d
  | none => false

/-- ops (all strings hex encoded):
    servername <s>          ParseAndValidateServerName      ok:<host>:<port|-1> | err
    userid <0|1> <s>        NewUserID(s, allowHistoricalIDs) ok:<local>:<domain> | err
    roomid <s>              NewRoomID                       ok:<opaque>:<domain|~> | err
    splitid <sigil> <s>     SplitID                         ok:<local>:<domain> | err
    parseip <s>             net.ParseIP (16-byte form)      ok:<16 bytes> | err      (model of the std lib only)
    isip <s>                net.ParseIP != nil              ip | err                 (+ RFC 4291 recogniser)
-/
def handle (op : String) (args : Array String) : Option String :=
  match op, args.toList with
  | "servername", [h] =>
    match unhex h with
    | none => some "bad-op"
    | some s =>
      let m := showSN (parseServerName s)
      let sp := if longPort s then "unspecified:port-with-more-than-5-digits"
                else uniq (fun x => showSN (some x)) (Spec.serverNameParses s)
      some (m ++ "\t" ++ sp)
  | "userid", [hist, h] =>
    match unhex h with
    | none => some "bad-op"
    | some s =>
      let hb := hist == "1"
      let m := showPair (parseUserID s hb)
      let sp := if longPortAfterFirstColon s then "unspecified:port-with-more-than-5-digits"
                else uniq (fun x => showPair (some x)) (Spec.userIDParses hb s)
      some (m ++ "\t" ++ sp)
  | "roomid", [h] =>
    match unhex h with
    | none => some "bad-op"
    | some s =>
      let m := showRoom (parseRoomID s)
      let sp := if longPortAfterFirstColon s then "unspecified:port-with-more-than-5-digits"
                else uniq (fun x => showRoom (some x)) (Spec.roomIDParses s)
      some (m ++ "\t" ++ sp)
  | "splitid", [sg, h] =>
    match unhex sg, unhex h with
    | some [sigil], some s =>
      let m := match splitID sigil s with
        | .ok l d => showPair (some (l, d))
        | .error => "err"
        | .panic => "panic:event.go:SplitID:slice bounds out of range"
      -- specification: s = sigil ++ local ++ ":" ++ domain with no ':' in sigil ++ local
      let sp := match s with
        | c :: _ =>
          if c != sigil then "err"
          else uniq (fun (x : BS × BS) => showPair (some (x.1.drop 1, x.2)))
                 ((Spec.colonSplits s).filter (fun x => !x.1.contains 0x3A))
        | [] => "err"
      some (m ++ "\t" ++ sp)
    | _, _ => some "bad-op"
  | "parseip", [h] =>
    match unhex h with
    | none => some "bad-op"
    | some s => some (match parseIP s with | some ip => "ok:" ++ hex ip | none => "err")
  | "isip", [h] =>
    match unhex h with
    | none => some "bad-op"
    | some s =>
      let m := if (parseIP s).isSome then "ip" else "err"
      let sp := if Spec.isIPLiteral s then "ip" else "err"
      some (m ++ "\t" ++ sp)
  | _, _ => none

end V.Driver.IdentOps
