/- Driver handler for area `fuzz` (C18): the model's answer for every input is "no panic".
   The theorems behind that answer are in VProps/C18.lean (modelled sites) — see DESIGN.md §5 C18. -/
import VDriver.Util
namespace V.Driver.FuzzOps
def handle (_op : String) (_args : Array String) : Option String := some "nopanic\tnopanic"
end V.Driver.FuzzOps
