/- Driver handler for area `fuzz` (C18).

   For the ops without a panic-explicit model the answer is the constant "no panic" (the theorems behind that are in
   VProps/C18.lean — see DESIGN.md §5 C18).  For `fuzz.event` the models ARE run on the op: every text is parsed with
   `parseUntrusted` (SHA-256 = `Hash.sha256`), every accepted event goes through the accessor sweep of
   `VModel.EventAccessors` (`touched`, what the harness' `touchAccessors` calls), the accepted events go through the
   panic-explicit orderings and both state-resolution entry points of `VModel.StateResPanic` exactly as the harness
   feeds them, then the event `SetUnsigned` returns for the first event is swept, the first event is signed (unconditionally),
   the signed event swept, redacted and swept again.  The model outcome is `nopanic` or `panic:<site>`; the
   specification outcome is always `nopanic` (C18).  A model panic where the implementation does not panic is a broken
   tie (the model has a site the code lacks); an implementation panic is a violation whatever the model says. -/
import VDriver.Util
import VModel.EventAccessors
import VModel.StateResPanic
import VModel.EventBuild
namespace V.Driver.FuzzOps
open V V.Json V.EventParse V.EventAccessors V.StateResPanic

def H : Bytes → Bytes := Hash.sha256

/-- the event as the auth / resolution models see it -/
def toEvent (e : PDU) : Event := { ver := e.ver, eventID := e.f.eventIDRaw, obj := e.obj }

def siteOf {α : Type} : Except Err α → Option String
  | .error (.panic s) => some s
  | _ => none

def firstSite (xs : List (Unit → Option String)) : Option String :=
  xs.findSome? (fun f => f ())

def eventOp (args : Array String) : Option String := do
  let ver := strBytes (← args[0]?)
  let texts ← (args.toList.drop 1).mapM unhex
  -- The byte-level JSON parser of VModel.Json takes time quadratic in the text length (≈ 12 s for a 50 KB event); the
  -- generator pads about one event in ten with a string of up to 70 000 bytes.  Ops carrying such a text are not
  -- run through the models (the implementation is still held to the specification outcome `nopanic`).
  if texts.any (fun t => decide (t.length > 6000)) then
    return "skip:event text over 6000 bytes (quadratic byte-level parser model)\tnopanic"
  let evs : List PDU := (texts.map (fun t => parseUntrusted H ver t)).filterMap (fun r => match r with
    | .ok e => some e
    | .error _ => none)
  -- (an event accepted only as "too large but persistable" is used by the harness but reported by the model as an
  --  error without the event: such events are missing here)
  match evs.head? with
  | some first =>
    let vs := evs.map toEvent
    let sevs := vs.filter (fun e => e.stateKey.isSome)
    let half := min (sevs.length / 2 + 1) sevs.length
    let site := firstSite [
      fun _ => evs.findSome? (fun e => touched.findSome? (fun a => panicSite H a e)),
      fun _ => siteOf (reverseTopoAuthEntryP vs),
      fun _ => siteOf (reverseTopoPrevEntryP vs),
      fun _ => if sevs.isEmpty then none else siteOf (resolveConflictsNewP (fun _ => []) ver [sevs.take half, sevs] vs []),
      fun _ => if sevs.isEmpty then none else siteOf (resolveConflictsOldP (fun _ => []) ver sevs vs []),
      fun _ =>
        -- SetUnsigned() on the first event: the accessor sweep on the event it returns
        match setUnsigned first (.obj [(b!"a", .num b!"1")]) with
        | .ok u => touched.findSome? (fun a => panicSite H a u)
        | .error _ => none,
      fun _ =>
        -- Sign() on the first event, WHATEVER its `signatures` member is (the signature value does not matter here), the
        -- sweep on the event it returns, then Redact() and the sweep on the redacted event
        match sign first b!"me" b!"ed25519:1" b!"c2ln" with
        | .error (.panic s) => some s
        | r =>
          let e1 := match r with
            | .ok x => x
            | .error _ => first
          match touched.findSome? (fun a => panicSite H a e1) with
          | some s => some s
          | none =>
            match redact e1 with
            | .error (.panic s) => some s
            | .error _ => none
            | .ok e' => touched.findSome? (fun a => panicSite H a e')]
    match site with
    | some s => some ("panic:" ++ s ++ "\tnopanic")
    | none => some "nopanic\tnopanic"
  | none => some "nopanic\tnopanic"

/-- `Sign()` alone on whatever the untrusted constructor accepts (corpus witnesses of defect D1) -/
def signOp (args : Array String) : Option String := do
  let ver := strBytes (← args[0]?)
  let text ← unhex (← args[1]?)
  match parseUntrusted H ver text with
  | .ok e =>
    match panicSite H (.sign b!"me" b!"ed25519:1" b!"c2ln") e with
    | some s => some ("panic:" ++ s ++ "\tnopanic")
    | none => some "nopanic\tnopanic"
  | .error _ => some "nopanic\tnopanic"

/-- `fuzz.buildrefs <ver> <hex prev_events JSON | -> <hex auth_events JSON | ->`: `EventBuilder.Build` on a proto event
    whose reference lists are the decoded texts (`-` = member absent) and whose other fields are fixed and good.  The
    model is the reference conversion of `VModel.EventBuild` (`refsOfJSON` in event format 1, `refsV2OfJSON` otherwise);
    outcome `ok:<hex prev_events of the built event>:<hex auth_events>` or `err`.  No specification column: an
    implementation panic is a violation by itself, any other difference breaks the tie. -/
def buildRefsOp (args : Array String) : Option String := do
  let ver := strBytes (← args[0]?)
  let dec (a : String) : Option (Option JVal) :=
    if a == "-" then some none else
    match unhex a with
    | none => none
    | some t => match parse t with
      | some p => some (some p.toJVal)
      | none => some none          -- (the harness passes nil for a text that does not decode)
  let prev ← dec (← args[1]?)
  let auth ← dec (← args[2]?)
  match Redact.rowOf ver with
  | none => some "err:version"
  | some row =>
    let texts := (args.toList.drop 1).filterMap unhex
    if texts.any (fun t => decide (t.length > 20000)) then some "skip:reference list over 20000 bytes (event size limit not modelled here)" else
    if texts.any (fun t => t.any (fun c => c ≥ 0x80 || c == 0x5C)) then some "skip:escapes / non-ASCII in a reference list" else
    if row.eventFormat == 1 then
      match EventBuild.refsOfJSON prev, EventBuild.refsOfJSON auth with
      | .ok p, .ok a => some ("ok:" ++ hex (encodeCanon (.arr p)) ++ ":" ++ hex (encodeCanon (.arr a)))
      | _, _ => some "err"
    else
      match EventBuild.refsV2OfJSON prev, EventBuild.refsV2OfJSON auth with
      | some p, some a => some ("ok:" ++ hex (encodeCanon (.arr p)) ++ ":" ++ hex (encodeCanon (.arr a)))
      | _, _ => some "err"

def handle (op : String) (args : Array String) : Option String :=
  match op with
  | "event" => eventOp args
  | "sign" => signOp args
  | "buildrefs" => buildRefsOp args
  | _ => some "nopanic\tnopanic"

end V.Driver.FuzzOps
