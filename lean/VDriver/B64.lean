/- Driver handlers for area `b64` (C17): spec.Base64Bytes Encode / Decode / MarshalJSON / UnmarshalJSON. -/
import VDriver.Util
import VModel.B64
import VModel.Json
namespace V.Driver.B64Ops
open V V.Driver V.B64

def showOpt : Option BS → String
  | some b => "ok:" ++ hex b
  | none => "err"

/-- ops (hex arguments):
    decode <text>      Base64Bytes.Decode            ok:<bytes> | err     spec: bit-string reading, or unspecified
    encode <bytes>     Base64Bytes.Encode            ok:<text>            spec: bit-string encoder (standard alphabet)
    reenc <text>       Decode, Encode, Decode again  ok:<bytes>:<text>:<same|differs> | err
                                                     spec: the second decoding gives the same value
    unmarshal <raw>    Base64Bytes.UnmarshalJSON     ok:<bytes> | err
    marshal <bytes>    Base64Bytes.MarshalJSON       ok:<raw>
-/
def handle (op : String) (args : Array String) : Option String :=
  match op, args.toList with
  | "decode", [h] =>
    match unhex h with
    | none => some "bad-op"
    | some s =>
      let sp := if Spec.specified s then showOpt (Spec.decode s) else "unspecified:not-over-one-unpadded-alphabet"
      some (showOpt (decode s) ++ "\t" ++ sp)
  | "encode", [h] =>
    match unhex h with
    | none => some "bad-op"
    | some b => some ("ok:" ++ hex (encode b) ++ "\t" ++ "ok:" ++ hex (Spec.encodeBits stdAlphabet b))
  | "reenc", [h] =>
    match unhex h with
    | none => some "bad-op"
    | some s =>
      let m := match decode s with
        | none => "err"
        | some b =>
          let t := encode b
          "ok:" ++ hex b ++ ":" ++ hex t ++ ":" ++ (if decode t == some b then "same" else "differs")
      let sp := if !Spec.specified s then "unspecified:not-over-one-unpadded-alphabet" else
        match Spec.decode s with
        | none => "err"
        | some b => "ok:" ++ hex b ++ ":" ++ hex (Spec.encodeBits stdAlphabet b) ++ ":same"
      some (m ++ "\t" ++ sp)
  | "unmarshal", [h] =>
    match unhex h with
    | none => some "bad-op"
    | some raw =>
      -- specification (the C01 parser reads the JSON, independently of the model's own string reader): a JSON string — however
      -- its characters are spelled, `\/` and `\uXXXX` included — that denotes a text over one unpadded alphabet decodes to
      -- the bytes that text denotes; anything else is outside the clause
      let sp := match V.Json.parse raw with
        | some (.str r d) =>
          if !V.Json.rawStringWellFormed r then "unspecified:ill-formed unicode"
          else if Spec.specified d then showOpt (Spec.decode d) else "unspecified:not-over-one-unpadded-alphabet"
        | _ => "unspecified:not a JSON string"
      some (showOpt (unmarshalJSON raw) ++ "\t" ++ sp)
  | "marshal", [h] =>
    match unhex h with
    | none => some "bad-op"
    | some b => some ("ok:" ++ hex (marshalJSON b))
  | _, _ => none

end V.Driver.B64Ops
