/- Driver handlers for area `b64` (stub: replace `handle`). -/
import VDriver.Util
namespace V.Driver.B64Ops
open V V.Driver

def handle (_op : String) (_args : Array String) : Option String := none

end V.Driver.B64Ops
