/- Driver handlers for area `tokens` (stub: replace `handle`). -/
import VDriver.Util
namespace V.Driver.TokensOps
open V V.Driver

def handle (_op : String) (_args : Array String) : Option String := none

end V.Driver.TokensOps
