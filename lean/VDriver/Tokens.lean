/- Driver handlers for area `tokens` (C20): tokens/tokens.go, tokens/tokens_handlers.go. -/
import VDriver.Util
import VModel.Tokens
namespace V.Driver.TokensOps
open V V.Driver V.Tokens

/-! Encodings (see harness/area_tokens.go):
    key      : hex | `nil`
    caveats  : `_` (none) | `;`-separated `cid` or `cid:vid` (hex, `-` = empty)
    prov     : `S:<key>` the signature is the real chain of this very (id, caveats) under <key>
               `O:<key>:<id>:<conds ,-separated|_>` it is the real chain of that other content
               `G` it is neither (garbage)
    cavspec  : `_` | `;`-separated  `L<hex>` literal condition | `T<delta>` = "time < " ++ itoa(N+delta)
                                  | `P<hex>` third-party caveat with that id -/

def optKey (s : String) : Option (Option Bytes) :=
  if s == "nil" then some none else (unhex s).map some

def parseCaveat (s : String) : Option Caveat :=
  match s.splitOn ":" with
  | [c] => (unhex c).map (fun b => { cid := b })
  | [c, v] => match unhex c, unhex v with
    | some b, some w => some { cid := b, vid := w }
    | _, _ => none
  | _ => none

def parseList {α} (sep : String) (f : String → Option α) (s : String) : Option (List α) :=
  if s == "_" then some [] else (s.splitOn sep).mapM f

def parseCaveats (s : String) : Option (List Caveat) := parseList ";" parseCaveat s

/-- a signature value no chain ever produces (`derive` output; chains end in `mac`) -/
def garbageSig : ToyK := ([], [])

/-- toy signature from the provenance the harness established with the real HMAC -/
def sigOfProv (prov : String) (id : Bytes) (cavs : List Caveat) : Option ToyK :=
  match prov.splitOn ":" with
  | ["G"] => some garbageSig
  | ["S", k] => (unhex k).map (fun key => chain toy key id (cavs.map (·.cid)))
  | ["O", k, i, cs] =>
    match unhex k, unhex i, parseList "," unhex cs with
    | some key, some oid, some conds => some (chain toy key oid conds)
    | _, _, _ => none
  | _ => none

/-- `some key` iff the provenance says: chain of exactly this content under `key` -/
def provKey (prov : String) (id : Bytes) (cavs : List Caveat) : Option Bytes :=
  match prov.splitOn ":" with
  | ["S", k] => if cavs.all (fun c => c.vid.isEmpty) then unhex k else none
  | ["O", k, i, cs] =>
    match unhex k, unhex i, parseList "," unhex cs with
    | some key, some oid, some conds =>
      if oid == id && conds == cavs.map (·.cid) && cavs.all (fun c => c.vid.isEmpty) then some key else none
    | _, _, _ => none
  | _ => none

def showV : Except VErr Unit → String
  | .ok () => "ok"
  | .error .options => "err:options"
  | .error .decode => "err:decode"
  | .error .sig => "err:sig"
  | .error .caveats => "err:caveats"

/-- spec stream: `ok` where the property demands acceptance; where it demands refusal the class of the
    refusal is not the property's business, so the model's class is echoed (or `err:must-refuse`). -/
def specLine (demandOk : Bool) (model : String) : String :=
  if demandOk then "ok" else if model.startsWith "err" then model else "err:must-refuse"

inductive CavSpec where
  | lit (b : Bytes) | time (delta : Int) | third (b : Bytes)

def parseCavSpec (s : String) : Option CavSpec :=
  if s.startsWith "L" then (unhex (s.drop 1).toString).map .lit
  else if s.startsWith "T" then ((s.drop 1).toString.toInt?).map .time
  else if s.startsWith "P" then (unhex (s.drop 1).toString).map .third
  else none

def cavOfSpec (n : Int) : CavSpec → Caveat
  | .lit b => { cid := b }
  | .time d => { cid := TimePrefix ++ itoa (n + d) }
  | .third b => { cid := b, vid := [1] }

/-- render a condition of an issued token; the expiry caveat relative to the issue instant -/
def showCond (n : Int) (c : Bytes) : String :=
  if TimePrefix.isPrefixOf c then
    let rest := c.drop TimePrefix.length
    match atoi rest with
    | some e => if itoa e == rest then "T" ++ toString (e - n) else hex c
    | none => hex c
  else hex c

def inRange (x : Int) : Bool := decide (minInt64 ≤ x ∧ x ≤ maxInt64)

def handle (op : String) (args : Array String) : Option String :=
  match op, args.toList with
  | "generate", [k, srv, usr, dur, n] =>
    match optKey k, unhex srv, unhex usr, dur.toInt?, n.toInt? with
    | some key, some s, some u, some d, some now =>
      let o : TokenOptions := { key := key, serverName := s, user := u, duration := d }
      let m := match generate toy o now with
        | .error _ => "err:options"
        | .ok t =>
          let sg := match verifySig toy o.keyBytes t with | some _ => "S" | none => "G"
          let usr' := match getUser (some t) with | .ok i => hex i | .error _ => "?"
          "ok:" ++ hex t.id ++ ":" ++ ",".intercalate (t.caveats.map (fun c => showCond now c.cid)) ++ ":" ++ sg ++ ":user=" ++ usr'
      -- specification: written out literally, not through the model
      let sp :=
        if key.isNone || s.isEmpty || u.isEmpty then "unspecified:invalid-options"
        else
          let d' : Int := if d == 0 then 120 else d
          if !inRange (now + d') then "unspecified:expiry-overflows-int64"
          else "ok:" ++ hex u ++ ":" ++ hex Gen ++ "," ++ hex (UserPrefix ++ u) ++ ",T" ++ toString d' ++ ":S:user=" ++ hex u
      some (m ++ "\t" ++ sp)
    | _, _, _, _, _ => some "bad-op"
  | "validate", [k, usr, n, dec, id, cavs, prov, _raw] =>
    match optKey k, unhex usr, n.toInt? with
    | some key, some u, some now =>
      let o : TokenOptions := { key := key, serverName := [], user := u }
      if dec == "0" then
        some ("err:decode\terr:decode")
      else match unhex id, parseCaveats cavs with
        | some i, some cs =>
          match sigOfProv prov i cs with
          | none => some "bad-op"
          | some sg =>
            let m := showV (validate toy o (some { id := i, caveats := cs, sig := sg }) now)
            let demand := Spec.validOk o.keyBytes u now (provKey prov i cs) i cs
            some (m ++ "\t" ++ specLine demand m)
        | _, _ => some "bad-op"
    | _, _, _ => some "bad-op"
  | "validate_at", [k, usr, n, mk, id, specs] =>
    match optKey k, unhex usr, n.toInt?, unhex mk, unhex id, parseList ";" parseCavSpec specs with
    | some key, some u, some now, some mkey, some i, some sp =>
      let o : TokenOptions := { key := key, serverName := [], user := u }
      let cs := sp.map (cavOfSpec now)
      -- the harness minted it with macaroon.New(mkey, id) + Add*Caveat: a valid chain under mkey
      -- (for a third-party caveat the chain uses another function; validation fails before using it)
      let sg := if cs.all (fun c => c.vid.isEmpty) then chain toy mkey i (cs.map (·.cid)) else garbageSig
      let m := showV (validate toy o (some { id := i, caveats := cs, sig := sg }) now)
      let demand := Spec.validOk o.keyBytes u now (if cs.all (fun c => c.vid.isEmpty) then some mkey else none) i cs
      some (m ++ "\t" ++ specLine demand m)
    | _, _, _, _, _, _ => some "bad-op"
  | "issue_validate", [ik, srv, iu, dur, vk, vu, n, dt, apps] =>
    match optKey ik, unhex srv, unhex iu, dur.toInt?, optKey vk, unhex vu, n.toInt?, dt.toInt?, parseList ";" parseCavSpec apps with
    | some ikey, some s, some iusr, some d, some vkey, some vusr, some now, some delay, some ap =>
      let io : TokenOptions := { key := ikey, serverName := s, user := iusr, duration := d }
      let vo : TokenOptions := { key := vkey, serverName := s, user := vusr }
      match generate toy io now with
      | .error _ => some "err:options\tunspecified:invalid-options"
      | .ok t =>
        let extra := ap.map (cavOfSpec now)
        -- AddFirstPartyCaveat extends the chain
        let t' : Token ToyK := { id := t.id, caveats := t.caveats ++ extra,
                                 sig := extra.foldl (fun sg c => toy.mac sg c.cid) t.sig }
        let m := showV (validate toy vo (some t') (now + delay))
        let d' : Int := if d == 0 then 120 else d
        let sp :=
          if !inRange (now + d') then "unspecified:expiry-overflows-int64"
          else specLine (io.keyBytes == vo.keyBytes && iusr == vusr && extra.isEmpty && decide (now + delay < now + d')) m
        some (m ++ "\t" ++ sp)
    | _, _, _, _, _, _, _, _, _ => some "bad-op"
  | "issue_wait_validate", [k, srv, usr, dur, lo, hi, n] =>
    match optKey k, unhex srv, unhex usr, dur.toInt?, lo.toInt?, hi.toInt?, n.toInt? with
    | some key, some s, some u, some d, some elo, some ehi, some now =>
      let o : TokenOptions := { key := key, serverName := s, user := u, duration := d }
      match generate toy o now with
      | .error _ => some "err:options\tunspecified:invalid-options"
      | .ok t =>
        let a := showV (validate toy o (some t) (now + elo))
        let b := showV (validate toy o (some t) (now + ehi))
        if a != b then some "skip:outcome depends on the sub-second phase"
        else
          let d' : Int := if d == 0 then 120 else d
          some (a ++ "\t" ++ specLine (decide (ehi < d')) a)
    | _, _, _, _, _, _, _ => some "bad-op"
  | "get_user", [dec, id, _raw] =>
    if dec == "0" then some "err:decode\terr:decode"
    else match unhex id with
      | some i =>
        match getUser (K := ToyK) (some { id := i, caveats := [], sig := garbageSig }) with
        | .ok u => some ("ok:" ++ hex u ++ "\tok:" ++ hex i)
        | .error _ => some "err:decode"
      | none => some "bad-op"
  | _, _ => none

end V.Driver.TokensOps
