/- Driver handlers for json.go ops (C01). -/
import VDriver.Util
import VGen.Versions
namespace V.Driver.JsonOps
open V V.Json V.Driver

/-- ops:
    canon <hex>            -> CanonicalJSON            : ok:<hex> | err:badjson | panic
    compact <hex>          -> CompactJSON              : ok:<hex> | panic
    enforced <hex>         -> verifyEnforcedCanonicalJSON on gjson-valid input : ok | err:range | skip
    canonspec <hex>        -> specification: encodeCanon (parse t) ; nodup flag
-/
def handle (op : String) (args : Array String) : Option String :=
  match op, args.toList with
  | "canon", [h] =>
    match unhex h with
    | none => some "bad-op"
    | some t =>
      let m := match parse t with
        | some p => if p.noDupKeys then showExceptBytes (canonical t) else "skip:dupkeys (order of equal keys depends on the sort algorithm)"
        | none => showExceptBytes (canonical t)
      -- specification stream: what C01 demands for this text
      let s := match parse t with
        | none => "err:badjson"
        | some p =>
          if !p.noDupKeys then "unspecified:dupkeys"
          else if !p.wellFormed then "unspecified:ill-formed-unicode"
          else "ok:" ++ hex (encodeCanon p.toJVal)
      some (m ++ "\t" ++ s)
  | "compact", [h] =>
    match unhex h with
    | none => some "bad-op"
    | some t => some (showExceptBytes (compact t))
  | "enforced", [ver, h] =>
    match unhex h, VGen.roomVersions.find? (fun r => r.key == ver) with
    | some t, some row =>
      -- model: the regenerated column says which function runs; spec: versions 1-5 do not enforce
      let specEnforces := !(["1", "2", "3", "4", "5"].contains ver)
      let modelEnforces := row.canonicalJSONCheck == "verifyEnforcedCanonicalJSON"
      if row.canonicalJSONCheck != "verifyEnforcedCanonicalJSON" && row.canonicalJSONCheck != "noVerifyCanonicalJSON" then
        some "skip:unknown-check-function"
      else match enforcedOk t with
      | none => some "skip:invalid"
      | some ok =>
        let r (enf : Bool) := if !enf || ok then "ok" else "err:range"
        some (r modelEnforces ++ "\t" ++ r specEnforces)
    | _, _ => some "bad-op"
  | _, _ => none

end V.Driver.JsonOps
