/- Driver handlers for area `pl` (stub: replace `handle`). -/
import VDriver.Util
namespace V.Driver.PlOps
open V V.Driver

def handle (_op : String) (_args : Array String) : Option String := none

end V.Driver.PlOps
