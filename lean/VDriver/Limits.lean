/- Driver handlers for area `limits` (C17): event size / field-length limits. -/
import VDriver.Util
import VModel.Limits
import VModel.Vertable
import VModel.EventParse
import VModel.EventSpec
import VGen.Versions
import VGen.C17
namespace V.Driver.LimitsOps
open V V.Driver V.Limits

def paramsOf (ver : String) : Option Params := Vertable.limitsParams ver

def isValidUTF8 (b : Bytes) : Bool := (String.fromUTF8? (ByteArray.mk b.toArray)).isSome

/-- the label the generator attaches to an op: which limits the event exceeds (so that a finding can be
    described by shape); recomputed here, a wrong label is a harness bug -/
def shapeOf (s : Sizes) : String :=
  let parts : List String :=
    (if s.jsonLen > 65536 then ["json"] else []) ++
    (if s.typeCP > 255 then ["type.cp"] else if s.typeBytes > 255 then ["type.b"] else []) ++
    (if s.hasStateKey && s.skCP > 255 then ["sk.cp"] else if s.hasStateKey && s.skBytes > 255 then ["sk.b"] else []) ++
    (if s.sender.cp > 255 then ["sender.cp"] else if s.sender.bytes > 255 then ["sender.b"] else []) ++
    (if s.room.cp > 255 then ["room.cp"] else if s.room.bytes > 255 then ["room.b"] else [])
  if parts.isEmpty then "within" else "+".intercalate parts

/-- the three classes, for the event-constructor model -/
def classOfParse : Except Err EventParse.PDU → String
  | .ok _ => "ok"
  | .error (.other w) =>
    if w.startsWith "unmodelled" then "skip:" ++ w
    else if w == "toolarge-persistable" then "persistable" else "refused"
  | .error _ => "refused"

/-- `limits.receipt_text <ver> <text>`: receipt of an arbitrary event text.  Model: the constructor model
    (`VModel.EventParse.parseUntrusted`).  Specification, from the property's sentence: the limits apply to the
    members `type`, `state_key`, `sender`, `room_id` OF THE EVENT'S JSON (exact names) and to its canonical length after
    the receiver's stripping; texts that do not denote one event, or that carry a case variant of an event-struct
    member name, are refused (`EventSpec.mustRefuse`). -/
def receiptText (ver : String) (t : Bytes) : String :=
  let verB := strBytes ver
  match Json.parse t with
  | none => "refused\tunspecified:not JSON"
  | some p =>
    if !p.wellFormed then "skip:ill-formed unicode" else
    let m := classOfParse (EventParse.parseUntrusted Hash.sha256 verB t)
    let sp : String :=
      if (EventSpec.mustRefuse p.toJVal).isSome then "refused" else
      match p.toJVal, Vertable.Spec.traitsOf ver, Redact.rowOf verB with
      | .obj o0, some tr, some row =>
        let o := o0.filter (fun kv => !(EventSpec.strippedKeys row.eventFormat).contains kv.1)
        let str (k : Bytes) : Option Bytes := match EventSpec.get o k with
          | some (.str s) => some s
          | none => some []
          | _ => none
        let sk : Option (Option Bytes) := match EventSpec.get o (strBytes "state_key") with
          | some (.str s) => some (some s)
          | none => some none
          | _ => none
        match str (strBytes "type"), sk, str (strBytes "sender"), str (strBytes "room_id") with
        | some ty, some skv, some se, some ro =>
          if !(isValidUTF8 ty && isValidUTF8 (skv.getD []) && isValidUTF8 se && isValidUTF8 ro) then "unspecified:field is not valid UTF-8" else
          match Spec.verdict tr.domainlessRoomIDs (ver == "org.matrix.msc4014") (sizesOf (Json.encodeCanon (.obj o)).length ty skv se ro) with
          | none => "unspecified:malformed-sender-or-room-id"
          | some .ok => "unspecified:within the limits (acceptance depends on everything else)"
          | some v => v.coarse
        | _, _, _, _ => "unspecified:a limited field is not a string"
      | _, _, _ => "unspecified:not an object / unknown version"
    m ++ "\t" ++ sp

/-- ops: trusted | untrusted | build  <ver> <shape> <jsonlen> <type> <state_key or ~> <sender> <room_id>
    (fields hex; the three ops differ only in the entry point the harness drives): the class the property
    distinguishes, ok | refused | persistable, from the model and from the specification;
    build_unsigned | trusted_setunsigned (same arguments): the bytes that make up <jsonlen> sit under `unsigned`
    (proto-event's Unsigned on Build; SetUnsigned then CheckFields) — the model is the same `verdict` on the same sizes:
    CheckFields measures `len(input.JSON())`, and the specification's limit is on the event's JSON;
    trusted_fine | untrusted_fine | build_fine: the error kind, ok | err:other | err:toolarge |
    err:toolarge-persistable, from the model only;
    untrusted_badhash[_fine] <ver> <shape> <jsonlen> <redactedlen> <type> <state_key or ~> <sender> <room_id>:
    receipt of an event whose content hash does not match -/
def handle (op : String) (args : Array String) : Option String :=
  if op == "receipt_text" then
    (match args.toList with
     | [ver, th] => match unhex th with
       | some t => some (receiptText ver t)
       | none => some "bad-op"
     | _ => some "bad-op") else
  let fine := op.endsWith "_fine"
  let base := if fine then (op.dropEnd 5).toString else op
  if base != "trusted" && base != "untrusted" && base != "build" && base != "untrusted_badhash"
      && base != "build_unsigned" && base != "trusted_setunsigned" then none else
  match args.toList with
  | [ver, shape, jl, rl, ty, sk, se, ro] =>
    -- untrusted_badhash: the event as received has `jl` bytes, its redacted form `rl`
    if base != "untrusted_badhash" then some "bad-op" else
    match paramsOf ver, jl.toNat?, rl.toNat?, unhex ty, (if sk == "~" then some none else (unhex sk).map some), unhex se, unhex ro with
    | some p, some n, some r, some ty, some sk, some se, some ro =>
      if !(isValidUTF8 ty && isValidUTF8 (sk.getD []) && isValidUTF8 se && isValidUTF8 ro) then some "skip:field is not valid UTF-8" else
      let s := sizesOf n ty sk se ro
      if shapeOf s != shape then some "bad-shape-label" else
      if fine then some (verdictUntrusted p s r).show else
      let m := (verdictUntrusted p s r).coarse
      -- specification: the event AS RECEIVED is what the property's limits apply to
      let sp := match Vertable.Spec.traitsOf ver with
        | none => "unspecified:unknown-version"
        | some t =>
          match Spec.verdict t.domainlessRoomIDs (ver == "org.matrix.msc4014") s with
          | none => "unspecified:malformed-sender-or-room-id"
          | some o => o.coarse
      some (m ++ "\t" ++ sp)
    | _, _, _, _, _, _, _ => some "bad-op"
  | [ver, shape, jl, ty, sk, se, ro] =>
    match paramsOf ver, jl.toNat?, unhex ty, (if sk == "~" then some none else (unhex sk).map some), unhex se, unhex ro with
    | some p, some n, some ty, some sk, some se, some ro =>
      if !(isValidUTF8 ty && isValidUTF8 (sk.getD []) && isValidUTF8 se && isValidUTF8 ro) then
        some "skip:field is not valid UTF-8 (encoding/json would have replaced bytes; runeCount is modelled on valid UTF-8 only)"
      else
        let s := sizesOf n ty sk se ro
        if shapeOf s != shape then some "bad-shape-label" else
        if (base == "build" || base == "build_unsigned") && s.create && p.roomCheck == .prefixOnly && !ro.isEmpty then
          some "skip:Build refuses any room ID on a create event of these room versions (an API contract, not a size decision)" else
        let v := if base == "untrusted" then verdictUntrusted p s n else verdict p s
        if fine then some v.show else
        let m := v.coarse
        let st := Vertable.Spec.traitsOf ver
        let sp := match st with
          | none => "unspecified:unknown-version"
          | some t =>
            match Spec.verdict t.domainlessRoomIDs (ver == "org.matrix.msc4014") s with
            | none => "unspecified:malformed-sender-or-room-id"
            | some o => o.coarse
        some (m ++ "\t" ++ sp)
    | _, _, _, _, _, _ => some "bad-op"
  | _ => some "bad-op"

end V.Driver.LimitsOps
