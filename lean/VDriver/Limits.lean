/- Driver handlers for area `limits` (stub: replace `handle`). -/
import VDriver.Util
namespace V.Driver.LimitsOps
open V V.Driver

def handle (_op : String) (_args : Array String) : Option String := none

end V.Driver.LimitsOps
