/- Driver handlers for area `fedcheck` (C14): CheckStateResponse, CheckSendJoinResponse,
   VerifyEventAuthChain, VerifyAuthRulesAtState, LoadAndVerify, RequestBackfill over scripted oracles.

   Shared argument encodings
     pool     ev,ev,…            each "<hex id>:<hex json>"; events are referred to by index
     entries  -  |  tok,tok,…    tok = o<i> (parsed clean) | p<i> (too large but persistable) | x… (rejected)
     badsig   -  |  i,i,…        pool indices whose signature check fails
     prov     nil | - | key=kind,…   key = #<i> (ID of pool[i]) | h<hex id>;
                                 kind = n (nothing) | e (error) | r<i>+<j>… (returns these pool events)
                                 unlisted IDs: nothing.  A multi-ID request fails if any ID is `e`,
                                 else returns the concatenation of the per-ID answers.
     sprov    -  |  ent|ent…     ent = <ev i>;<IDS>;<STATE>   IDS/STATE = e | - | i,i,…  (default: empty, empty)
     order    -  |  i,i,…        what ReverseTopologicalOrdering returned for the parsed events (given)
-/
import VDriver.Util
import VDriver.Auth
import VModel.FedCheck
import VModel.FedCheckSpec
import VModel.FedCheckInst
namespace V.Driver.FedcheckOps
open V V.Driver V.FedCheck V.Driver.AuthOps

def splitList (s : String) (sep : String) : List String :=
  if s == "-" || s == "" then [] else s.splitOn sep

def natList (s : String) : List Nat := (splitList s ",").map String.toNat!

structure Env where
  pool : Array Event

def Env.ev (env : Env) (i : Nat) : Event := env.pool[i]!

def Env.evs (env : Env) (is : List Nat) : List Event := is.map env.ev

/-- print an ID as `#<first pool index carrying it>` or `h<hex>` -/
def Env.showID (env : Env) (id : Bytes) : String :=
  match env.pool.toList.findIdx? (fun e => e.eventID == id) with
  | some i => "#" ++ toString i
  | none => "h" ++ hex id

def Env.showEvs (env : Env) (es : List Event) : String :=
  ",".intercalate (es.map (fun e => env.showID e.eventID))

def parseEntries (env : Env) (s : String) : List Parsed :=
  (splitList s ",").map (fun t =>
    match t.toList with
    | 'o' :: r => .ok (env.ev (String.ofList r).toNat!)
    | 'p' :: r => .persistable (env.ev (String.ofList r).toNat!)
    | _ => .bad)

inductive Kind where
  | nothing
  | error
  | ret (is : List Nat)

def parseKey (env : Env) (k : String) : Bytes :=
  match k.toList with
  | '#' :: r => (env.ev (String.ofList r).toNat!).eventID
  | 'h' :: r => (unhex (String.ofList r)).getD []
  | _ => []

def parseKind (k : String) : Kind :=
  match k.toList with
  | 'e' :: _ => .error
  | 'r' :: r => .ret ((String.ofList r).splitOn "+" |>.map String.toNat!)
  | _ => .nothing

def parseProvTable (env : Env) (s : String) : List (Bytes × Kind) :=
  (splitList s ",").filterMap (fun ent =>
    match ent.splitOn "=" with
    | [k, v] => some (parseKey env k, parseKind v)
    | _ => none)

def provOfTable (env : Env) (tbl : List (Bytes × Kind)) : EventProvider := fun ids =>
  let kinds := ids.map (fun id => (tbl.lookup id).getD .nothing)
  if kinds.any (fun k => match k with | .error => true | _ => false) then .error
  else .events (kinds.flatMap (fun k => match k with
    | .ret is => env.evs is
    | _ => []))

/-- the provider script as a table, when it abides by the contract: every `r` entry returns exactly one
    event, which carries the requested ID.  `none` = outside the contract. -/
def contractTable (env : Env) (tbl : List (Bytes × Kind)) : Option ((Bytes → Option Event) × (Bytes → Bool)) :=
  let ok := tbl.all (fun kv => match kv.2 with
    | .ret [i] => (env.ev i).eventID == kv.1
    | .ret _ => false
    | _ => true)
  if !ok then none else
  some (fun id => match tbl.lookup id with
          | some (.ret [i]) => some (env.ev i)
          | _ => none,
        fun id => match tbl.lookup id with
          | some .error => true
          | _ => false)

def parseProv (env : Env) (s : String) : Option EventProvider :=
  if s == "nil" then none else some (provOfTable env (parseProvTable env s))

def parseIdxOpt (s : String) : Option (List Nat) := if s == "e" then none else some (natList s)

def parseSProv (env : Env) (s : String) : StateProvider :=
  let ents : List (Bytes × Option (List Nat) × Option (List Nat)) := (splitList s "|").filterMap (fun ent =>
    match ent.splitOn ";" with
    | [i, ids, st] => some ((env.ev i.toNat!).eventID, parseIdxOpt ids, parseIdxOpt st)
    | _ => none)
  { ids := fun e => match ents.lookup e.eventID with
      | none => some []
      | some (ids, _) => ids.map (fun is => (env.evs is).map (·.eventID)),
    state := fun e _ => match ents.lookup e.eventID with
      | none => some []
      | some (_, st) => st.map (fun is => (env.evs is).map (fun x => (x.eventID, x))) }

def showCall (env : Env) : Call → String
  | .events ids => "E" ++ "+".intercalate (ids.map env.showID)
  | .stateIDs id => "I" ++ env.showID id
  | .state id => "S" ++ env.showID id
  | .backfill i => "B" ++ toString i

def sortStrings (xs : List String) : List String := xs.mergeSort (fun a b => !(b < a))

def showLog (env : Env) (log : Log) : String :=
  "|log:" ++ ",".intercalate (sortStrings (log.map (showCall env)))

def caFuel : Nat := 8
def chainFuel : Nat := 4000

/-- all auth event IDs mentioned by the events in play (where the single-ID provider contract must hold) -/
def idsInPlay (es : List Event) : List Bytes := es.flatMap (·.authEventIDs)

def showClass : LoadClass → String
  | .ok => "ok"
  | .parseErr => "parse"
  | .signatureErr => "sig"
  | .authChainErr => "chain"
  | .authRulesErr => "rules"
  | .empty => "empty"

def showResults (env : Env) (rs : List LoadResult) : String :=
  ",".intercalate (sortStrings (rs.map (fun r => showClass r.cls ++ (match r.event with
    | some e => ":" ++ env.showID e.eventID
    | none => ""))))

/-- the order oracle: the list the harness observed from ReverseTopologicalOrdering for this input
    (matched by length of the input so that the per-server lists of a backfill can differ) -/
def orderOf (env : Env) (orders : List (List Nat)) : List Event → List Event := fun evs =>
  match orders.find? (fun o => true && o.length ≤ evs.length && o.all (fun i => evs.any (fun e => e.eventID == (env.ev i).eventID))
                                 && evs.all (fun e => o.any (fun i => (env.ev i).eventID == e.eventID))) with
  | some o => env.evs o
  | none => evs

def handle (op : String) (args : Array String) : Option String :=
  match op, args.toList with
  | "state", [ver, pool, auth, state, badsig, prov] =>
    match parseEvArgs (strBytes ver) (splitList pool ",") with
    | none => some "bad-op"
    | some es =>
      let env : Env := { pool := es.toArray }
      let O := authOracles ((env.evs (natList badsig)).map (·.eventID))
      let p := parseProv env prov
      let A := untrusted (parseEntries env auth); let S := untrusted (parseEntries env state)
      let m := match checkStateResponse O p caFuel A S [] with
        | (.ok a s, log) => "ok:" ++ env.showEvs a ++ "|" ++ env.showEvs s ++ showLog env log
        | (.error, _) => "err:malformed"
        | (.outOfFuel, _) => "diverge"
      let sp :=
        if !Spec.provOKOn p (idsInPlay (A ++ S)) then "unspecified:provider-contract"
        else match Spec.stateResponse O p A S with
          | none => "err:malformed"
          | some (a, s) => "ok:" ++ env.showEvs a ++ "|" ++ env.showEvs s
      -- the spec says nothing about the call log: compare the lists only
      let mCore := (m.splitOn "|log:").headD m
      if sp.startsWith "unspecified" then some (m ++ "\t" ++ sp)
      else if mCore == sp then some (m ++ "\t" ++ m) else some (m ++ "\t" ++ sp)
  | "sendjoin", [ver, pool, auth, state, badsig, prov, join] =>
    match parseEvArgs (strBytes ver) (splitList pool ",") with
    | none => some "bad-op"
    | some es =>
      let env : Env := { pool := es.toArray }
      let O := authOracles ((env.evs (natList badsig)).map (·.eventID))
      let p := parseProv env prov
      let A := untrusted (parseEntries env auth); let S := untrusted (parseEntries env state)
      let j := env.ev join.toNat!
      let m := match checkSendJoin O p caFuel A S j [] with
        | (.ok a s, log) => "ok:" ++ env.showEvs a ++ "|" ++ env.showEvs s ++ showLog env log
        | (.error, _) => "err:malformed"
        | (.notAllowedByAuth, _) => "err:join-auth"
        | (.stateAddErr, _) => "err:state-add"
        | (.notAllowedByState, _) => "err:join-state"
        | (.outOfFuel, _) => "diverge"
      let sp :=
        if !Spec.provOKOn p (idsInPlay (j :: A ++ S)) then "unspecified:provider-contract"
        else match Spec.sendJoin O p A S j with
          | none => "err"
          | some (a, s) => "ok:" ++ env.showEvs a ++ "|" ++ env.showEvs s
      -- the spec only says accepted-with-lists / refused
      let mCore := (m.splitOn "|log:").headD m
      let mCoarse := if mCore.startsWith "err" then "err" else mCore
      if sp.startsWith "unspecified" then some (m ++ "\t" ++ sp)
      else if mCoarse == sp then some (m ++ "\t" ++ m) else some (m ++ "\t" ++ sp)
  | "chain", [ver, pool, root, prov] =>
    match parseEvArgs (strBytes ver) (splitList pool ",") with
    | none => some "bad-op"
    | some es =>
      let env : Env := { pool := es.toArray }
      let O := authOracles []
      let p := provOfTable env (parseProvTable env prov)
      let r := match verifyEventAuthChain O p caFuel chainFuel (env.ev root.toNat!) [] with
        | (.ok, log) => "ok" ++ showLog env log
        | (.provErr, log) => "err:provider" ++ showLog env log
        | (.authFail, log) => "err:auth" ++ showLog env log
        | (.outOfFuel, _) => "diverge"
      let sp := match contractTable env (parseProvTable env prov) with
        | none => "unspecified:provider-contract"
        | some (table, errs) =>
          match Spec.chainAccepts O (env.ev root.toNat!) table errs chainFuel with
          | some true => "ok"
          | some false => "err"
          | none => "unspecified:fuel"
      let rCore := (r.splitOn "|log:").headD r
      let rCoarse := if rCore.startsWith "err" then "err" else rCore
      if sp.startsWith "unspecified" then some (r ++ "\t" ++ sp)
      else if rCoarse == sp then some (r ++ "\t" ++ r) else some (r ++ "\t" ++ sp)
  | "atstate", [ver, pool, ev, allow, sprov] =>
    match parseEvArgs (strBytes ver) (splitList pool ",") with
    | none => some "bad-op"
    | some es =>
      let env : Env := { pool := es.toArray }
      let O := authOracles []
      let sp := parseSProv env sprov
      let e := env.ev ev.toNat!
      let m := match verifyAuthRulesAtState O sp e (allow == "1") [] with
        | (.ok, log) => "ok" ++ showLog env log
        | (.idsErr, log) => "err:ids" ++ showLog env log
        | (.stateErr, log) => "err:state" ++ showLog env log
        | (.notAllowed, log) => "err:auth" ++ showLog env log
        | (.outOfFuel, _) => "diverge"
      let s := match Spec.atState O sp e (allow == "1") with
        | some true => "ok"
        | some false => "err:auth"
        | none => "err:provider"
      let mCore := (m.splitOn "|log:").headD m
      let mCoarse := if mCore == "err:ids" || mCore == "err:state" then "err:provider" else mCore
      if mCoarse == s then some (m ++ "\t" ++ m) else some (m ++ "\t" ++ s)
  | "load", [ver, pool, raws, badsig, prov, sprov, order] =>
    match parseEvArgs (strBytes ver) (splitList pool ",") with
    | none => some "bad-op"
    | some es =>
      let env : Env := { pool := es.toArray }
      let O := authOracles ((env.evs (natList badsig)).map (·.eventID))
      let p := provOfTable env (parseProvTable env prov)
      let sp := parseSProv env sprov
      let raw := parseEntries env raws
      let ord : List Event → List Event := fun _ => env.evs (natList order)
      if (ord []).length > (parsedClean raw).length then some "panic:load.go:index out of range" else
      let m := match loadAndVerify O p sp caFuel chainFuel ord raw [] with
        | none => "diverge"
        | some (rs, log) => "ok:" ++ toString rs.length ++ ":" ++ showResults env rs ++ showLog env log
      -- specification: one result per input; each parsed event classified by the first check it fails
      let spec := match contractTable env (parseProvTable env prov) with
        | none => "unspecified:provider-contract"
        | some (table, errs) =>
          let evs := parsedClean raw
          let cls := evs.map (fun e => (e, Spec.loadClass O table errs sp chainFuel e))
          if cls.any (fun c => c.2.isNone) then "unspecified:fuel"
          else
            let rs : List LoadResult := cls.map (fun c => { cls := c.2.getD .empty, event := some c.1 })
              ++ List.replicate (raw.length - evs.length) { cls := .parseErr, event := none }
            "ok:" ++ toString raw.length ++ ":" ++ showResults env rs
      let mCore := (m.splitOn "|log:").headD m
      if spec.startsWith "unspecified" then some (m ++ "\t" ++ spec)
      else if mCore == spec then some (m ++ "\t" ++ m) else some (m ++ "\t" ++ spec)
  | "backfill", [ver, pool, servers, badsig, prov, sprov, orders, limit] =>
    match parseEvArgs (strBytes ver) (splitList pool ",") with
    | none => some "bad-op"
    | some es =>
      let env : Env := { pool := es.toArray }
      let O := authOracles ((env.evs (natList badsig)).map (·.eventID))
      let p := provOfTable env (parseProvTable env prov)
      let sp := parseSProv env sprov
      let srv : List ServerAns := (splitList servers "|").map (fun s => if s == "e" then none else some (parseEntries env s))
      let ords : List (List Nat) := (splitList orders "|").map natList
      -- per-server order: the i-th Backfill answer that parsed is ordered by the i-th given list
      let ord : List Event → List Event := orderOf env ords
      match backfillLoop O p sp caFuel chainFuel ord limit.toNat! srv 0 [] [] false [] with
      | (.done res lastErr, log) =>
        some ("ok:" ++ ",".intercalate (sortStrings (res.map (fun e => env.showID e.eventID))) ++ (if lastErr then "|lasterr" else "") ++ showLog env log)
      | (.panic site, _) => some ("panic:" ++ site)
      | (.outOfFuel, _) => some "diverge"
  | _, _ => none

end V.Driver.FedcheckOps
