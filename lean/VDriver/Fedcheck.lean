/- Driver handlers for area `fedcheck` (C14): CheckStateResponse, CheckSendJoinResponse,
   VerifyEventAuthChain, VerifyAuthRulesAtState, LoadAndVerify, RequestBackfill over scripted oracles.

   Shared argument encodings
     pool     ev,ev,…            each "<hex id>:<hex json>"; events are referred to by index
     entries  -  |  tok,tok,…    tok = o<i> (parsed clean) | p<i> (too large but persistable) | x… (rejected)
     badsig   -  |  i,i,…        pool indices whose signature check fails
     prov     nil | - | key=kind,…   key = #<i> (ID of pool[i]) | h<hex id>;
                                 kind = n (nothing) | e (error) | r<i>+<j>… (returns these pool events)
                                 unlisted IDs: nothing.  A multi-ID request fails if any ID is `e`,
                                 else returns the concatenation of the per-ID answers.
                                 An entry `max=<k>` anywhere in the list: the provider hands out AT MOST k events per
                                 call (the first k of that concatenation) — batch answers then differ from the
                                 per-ID answers, and what a batch leaves out is fetched by the single-ID retry of
                                 checkAllowedByAuthEvents.
     sprov    -  |  ent|ent…     ent = <ev i>;<IDS>;<STATE>   IDS/STATE = e | - | i,i,…  (default: empty, empty)
     order    -  |  i,i,…        what ReverseTopologicalOrdering returned for the parsed events (given)
     sigcls   -  |  c,c,…        (optional last argument of state / sendjoin) per pool entry the index of the first
                                 pool entry with the same REDACTED JSON: the message the JSONVerifier is handed, hence
                                 the granularity of the signature oracle.  Absent: one class per event ID.

   Returned EVENTS are printed as `#<first pool index with the same ID and the same content>` (room versions 1 and 2
   allow two different events under one ID); requested IDs in the call log as `#<first pool index carrying the ID>`.

   backfill_props <args of backfill> <hex of the implementation's outcome>  — implementation outcome is the constant
   `ok`; the driver prints `ok`, or the first clause of the property the carried answer violates:
     violates:not-from-response:<ev>   a returned event is no cleanly parsed PDU of any server's answer
     violates:fails-auth-checks:<ev>   a returned event with a verified signature fails the auth-chain check or the
                                       state-at-event check
     violates:repeated-id:<ev>         two returned events share an event ID
   (an event that fails the SIGNATURE check is handed on unchecked: backfill.go says so deliberately; DESIGN §11 C14)
-/
import VDriver.Util
import VDriver.Auth
import VModel.FedCheck
import VModel.FedCheckSpec
import VModel.FedCheckInst
namespace V.Driver.FedcheckOps
open V V.Driver V.FedCheck V.Driver.AuthOps

def splitList (s : String) (sep : String) : List String :=
  if s == "-" || s == "" then [] else s.splitOn sep

def natList (s : String) : List Nat := (splitList s ",").map String.toNat!

structure Env where
  pool : Array Event

def Env.ev (env : Env) (i : Nat) : Event := env.pool[i]!

def Env.evs (env : Env) (is : List Nat) : List Event := is.map env.ev

/-- print an ID as `#<first pool index carrying it>` or `h<hex>` -/
def Env.showID (env : Env) (id : Bytes) : String :=
  match env.pool.toList.findIdx? (fun e => e.eventID == id) with
  | some i => "#" ++ toString i
  | none => "h" ++ hex id

def Env.showEvs (env : Env) (es : List Event) : String :=
  ",".intercalate (es.map (fun e => env.showID e.eventID))

mutual
def jvBeq : Json.JVal → Json.JVal → Bool
  | .null, .null => true
  | .bool a, .bool b => a == b
  | .num a, .num b => a == b
  | .str a, .str b => a == b
  | .arr a, .arr b => jvsBeq a b
  | .obj a, .obj b => jkvsBeq a b
  | _, _ => false
def jvsBeq : List Json.JVal → List Json.JVal → Bool
  | [], [] => true
  | x :: xs, y :: ys => jvBeq x y && jvsBeq xs ys
  | _, _ => false
def jkvsBeq : List (Bytes × Json.JVal) → List (Bytes × Json.JVal) → Bool
  | [], [] => true
  | (k, x) :: xs, (l, y) :: ys => k == l && jvBeq x y && jkvsBeq xs ys
  | _, _ => false
end

/-- the same event: same ID and same JSON members -/
def sameEvent (a b : Event) : Bool := a.eventID == b.eventID && jkvsBeq a.obj b.obj

def Env.indexOf (env : Env) (e : Event) : Option Nat := env.pool.toList.findIdx? (sameEvent e)

/-- print an EVENT as `#<first pool index holding this very event>` -/
def Env.showEv (env : Env) (e : Event) : String :=
  match env.indexOf e with
  | some i => "#" ++ toString i
  | none => env.showID e.eventID

def Env.showEvsX (env : Env) (es : List Event) : String := ",".intercalate (es.map env.showEv)

/-- the scripted signature oracle: an event fails iff it is in the signature class of a pool entry listed in
    `badsig`.  Without classes (legacy op lines) a class is an event ID. -/
def Env.badSig (env : Env) (sigcls : Option (List Nat)) (bad : List Nat) : Event → Bool :=
  match sigcls with
  | none => fun e => bad.any (fun b => (env.ev b).eventID == e.eventID)
  | some cls => fun e =>
    match env.indexOf e with
    | some i => bad.any (fun b => cls.getD b b == cls.getD i i)
    | none => false

def parseEntries (env : Env) (s : String) : List Parsed :=
  (splitList s ",").map (fun t =>
    match t.toList with
    | 'o' :: r => .ok (env.ev (String.ofList r).toNat!)
    | 'p' :: r => .persistable (env.ev (String.ofList r).toNat!)
    | _ => .bad)

inductive Kind where
  | nothing
  | error
  | ret (is : List Nat)

def parseKey (env : Env) (k : String) : Bytes :=
  match k.toList with
  | '#' :: r => (env.ev (String.ofList r).toNat!).eventID
  | 'h' :: r => (unhex (String.ofList r)).getD []
  | _ => []

def parseKind (k : String) : Kind :=
  match k.toList with
  | 'e' :: _ => .error
  | 'r' :: r => .ret ((String.ofList r).splitOn "+" |>.map String.toNat!)
  | _ => .nothing

def parseProvTable (env : Env) (s : String) : List (Bytes × Kind) :=
  (splitList s ",").filterMap (fun ent =>
    match ent.splitOn "=" with
    | ["max", _] => none
    | [k, v] => some (parseKey env k, parseKind v)
    | _ => none)

/-- the `max=<k>` entry of a provider script: at most k events per call -/
def parseProvCap (s : String) : Option Nat :=
  (splitList s ",").findSome? (fun ent =>
    match ent.splitOn "=" with
    | ["max", v] => some v.toNat!
    | _ => none)

def provOfTableCap (env : Env) (tbl : List (Bytes × Kind)) (cap : Option Nat) : EventProvider := fun ids =>
  let kinds := ids.map (fun id => (tbl.lookup id).getD .nothing)
  if kinds.any (fun k => match k with | .error => true | _ => false) then .error
  else
    let evs := kinds.flatMap (fun k => match k with
      | .ret is => env.evs is
      | _ => [])
    .events (match cap with
      | some k => evs.take k
      | none => evs)

def provOfTable (env : Env) (tbl : List (Bytes × Kind)) : EventProvider := provOfTableCap env tbl none

/-- the provider a script denotes -/
def provOfScript (env : Env) (s : String) : EventProvider := provOfTableCap env (parseProvTable env s) (parseProvCap s)

/-- the provider script as a table, when it abides by the contract: every `r` entry returns exactly one
    event, which carries the requested ID.  `none` = outside the contract. -/
def contractTable (env : Env) (tbl : List (Bytes × Kind)) : Option ((Bytes → Option Event) × (Bytes → Bool)) :=
  let ok := tbl.all (fun kv => match kv.2 with
    | .ret [i] => (env.ev i).eventID == kv.1
    | .ret _ => false
    | _ => true)
  if !ok then none else
  some (fun id => match tbl.lookup id with
          | some (.ret [i]) => some (env.ev i)
          | _ => none,
        fun id => match tbl.lookup id with
          | some .error => true
          | _ => false)

/-- The provider contract restricted to the IDs that can be asked for: the auth event IDs of the given events
    and, recursively, of the events the script holds for them.  Entries for other IDs are never consulted by
    VerifyEventAuthChain (it asks only for auth event IDs of the event under verification and of events it
    was handed), so what they say is irrelevant.  `none` = some ID in play has an entry outside the contract
    (or the fuel ran out). -/
def contractOn (env : Env) (tbl : List (Bytes × Kind)) (needState : Bool) : Nat → List Bytes → List Bytes → Bool
  | 0, _, _ => false
  | _ + 1, [], _ => true
  | n + 1, id :: todo, done =>
    if done.contains id then contractOn env tbl needState n todo done
    else match tbl.lookup id with
      | some (.ret [i]) =>
        if (env.ev i).eventID == id && (!needState || (env.ev i).stateKey.isSome)
        then contractOn env tbl needState n ((env.ev i).authEventIDs ++ todo) (id :: done) else false
      | some (.ret _) => false
      | _ => contractOn env tbl needState n todo (id :: done)

/-- `cap` = the script's `max=<k>` entry.  A provider that hands out at most k ≥ 1 events per call still abides by
    the contract "asked for ONE event it answers with that event, nothing, or an error"; what a batch answer leaves
    out, the single-ID retry of checkAllowedByAuthEvents obtains — so the specification is the same table.  For such
    providers the events held for the IDs in play must be state events (auth events are): the code treats a
    non-state event differently when it arrives in a batch (AddEvent error) and when it arrives in a retry (ignored),
    and C14 says nothing about providers that answer a request for an auth event with a message. k = 0: never
    answers, outside the contract. -/
def contractTableOn (env : Env) (tbl : List (Bytes × Kind)) (cap : Option Nat) (roots : List Event) (selfIDs : List Bytes) :
    Option ((Bytes → Option Event) × (Bytes → Bool)) :=
  if cap == some 0 then none else
  if !contractOn env tbl cap.isSome 4000 (roots.flatMap (·.authEventIDs)) selfIDs then none else
  some (fun id => match tbl.lookup id with
          | some (.ret [i]) => if (env.ev i).eventID == id then some (env.ev i) else none
          | _ => none,
        fun id => match tbl.lookup id with
          | some .error => true
          | _ => false)

def parseProv (env : Env) (s : String) : Option EventProvider :=
  if s == "nil" then none else some (provOfScript env s)

def parseIdxOpt (s : String) : Option (List Nat) := if s == "e" then none else some (natList s)

def parseSProv (env : Env) (s : String) : StateProvider :=
  let ents : List (Bytes × Option (List Nat) × Option (List Nat)) := (splitList s "|").filterMap (fun ent =>
    match ent.splitOn ";" with
    | [i, ids, st] => some ((env.ev i.toNat!).eventID, parseIdxOpt ids, parseIdxOpt st)
    | _ => none)
  { ids := fun e => match ents.lookup e.eventID with
      | none => some []
      | some (ids, _) => ids.map (fun is => (env.evs is).map (·.eventID)),
    state := fun e _ => match ents.lookup e.eventID with
      | none => some []
      | some (_, st) => st.map (fun is => (env.evs is).map (fun x => (x.eventID, x))) }

def showCall (env : Env) : Call → String
  | .events ids => "E" ++ "+".intercalate (ids.map env.showID)
  | .stateIDs id => "I" ++ env.showID id
  | .state id => "S" ++ env.showID id
  | .backfill i => "B" ++ toString i

def sortStrings (xs : List String) : List String := xs.mergeSort (fun a b => !(b < a))

def showLog (env : Env) (log : Log) : String :=
  "|log:" ++ ",".intercalate (sortStrings (log.map (showCall env)))

def caFuel : Nat := 8
def chainFuel : Nat := 4000

/-- all auth event IDs mentioned by the events in play (where the single-ID provider contract must hold) -/
def idsInPlay (es : List Event) : List Bytes := es.flatMap (·.authEventIDs)

def showClass : LoadClass → String
  | .ok => "ok"
  | .parseErr => "parse"
  | .signatureErr => "sig"
  | .authChainErr => "chain"
  | .authRulesErr => "rules"
  | .empty => "empty"

def showResults (env : Env) (rs : List LoadResult) : String :=
  ",".intercalate (sortStrings (rs.map (fun r => showClass r.cls ++ (match r.event with
    | some e => ":" ++ env.showEv e
    | none => ""))))

/-- the order oracle: the list the harness observed from ReverseTopologicalOrdering for this input
    (matched by length of the input so that the per-server lists of a backfill can differ) -/
def orderOf (env : Env) (orders : List (List Nat)) : List Event → List Event := fun evs =>
  match orders.find? (fun o => true && o.length ≤ evs.length && o.all (fun i => evs.any (fun e => e.eventID == (env.ev i).eventID))
                                 && evs.all (fun e => o.any (fun i => (env.ev i).eventID == e.eventID))) with
  | some o => env.evs o
  | none => evs

def handle (op : String) (args : Array String) : Option String :=
  match op, args.toList with
  | "state", ver :: pool :: auth :: state :: badsig :: prov :: rest =>
    match parseEvArgs (strBytes ver) (splitList pool ",") with
    | none => some "bad-op"
    | some es =>
      let env : Env := { pool := es.toArray }
      let O := authOraclesBy (env.badSig (rest.head?.map natList) (natList badsig))
      let p := parseProv env prov
      let A := untrusted (parseEntries env auth); let S := untrusted (parseEntries env state)
      let m := match checkStateResponse O p caFuel A S [] with
        | (.ok a s, log) => "ok:" ++ env.showEvsX a ++ "|" ++ env.showEvsX s ++ showLog env log
        | (.error, _) => "err:malformed"
        | (.outOfFuel, _) => "diverge"
      let sp :=
        if !Spec.provOKOn p (idsInPlay (A ++ S)) then "unspecified:provider-contract"
        else match Spec.stateResponse O p A S with
          | none => "err:malformed"
          | some (a, s) => "ok:" ++ env.showEvsX a ++ "|" ++ env.showEvsX s
      -- the spec says nothing about the call log: compare the lists only
      let mCore := (m.splitOn "|log:").headD m
      if sp.startsWith "unspecified" then some (m ++ "\t" ++ sp)
      else if mCore == sp then some (m ++ "\t" ++ m) else some (m ++ "\t" ++ sp)
  | "sendjoin", ver :: pool :: auth :: state :: badsig :: prov :: join :: rest =>
    match parseEvArgs (strBytes ver) (splitList pool ",") with
    | none => some "bad-op"
    | some es =>
      let env : Env := { pool := es.toArray }
      let O := authOraclesBy (env.badSig (rest.head?.map natList) (natList badsig))
      let p := parseProv env prov
      let A := untrusted (parseEntries env auth); let S := untrusted (parseEntries env state)
      let j := env.ev join.toNat!
      let m := match checkSendJoin O p caFuel A S j [] with
        | (.ok a s, log) => "ok:" ++ env.showEvsX a ++ "|" ++ env.showEvsX s ++ showLog env log
        | (.error, _) => "err:malformed"
        | (.notAllowedByAuth, _) => "err:join-auth"
        | (.stateAddErr, _) => "err:state-add"
        | (.notAllowedByState, _) => "err:join-state"
        | (.outOfFuel, _) => "diverge"
      let sp :=
        if !Spec.provOKOn p (idsInPlay (j :: A ++ S)) then "unspecified:provider-contract"
        else match Spec.sendJoin O p A S j with
          | none => "err"
          | some (a, s) => "ok:" ++ env.showEvsX a ++ "|" ++ env.showEvsX s
      -- the spec only says accepted-with-lists / refused
      let mCore := (m.splitOn "|log:").headD m
      let mCoarse := if mCore.startsWith "err" then "err" else mCore
      if sp.startsWith "unspecified" then some (m ++ "\t" ++ sp)
      else if mCoarse == sp then some (m ++ "\t" ++ m) else some (m ++ "\t" ++ sp)
  | "chain", [ver, pool, root, prov] =>
    match parseEvArgs (strBytes ver) (splitList pool ",") with
    | none => some "bad-op"
    | some es =>
      let env : Env := { pool := es.toArray }
      let O := authOracles []
      let p := provOfScript env prov
      let r := match verifyEventAuthChain O p caFuel chainFuel (env.ev root.toNat!) [] with
        | (.ok, log) => "ok" ++ showLog env log
        | (.provErr, log) => "err:provider" ++ showLog env log
        | (.authFail, log) => "err:auth" ++ showLog env log
        | (.outOfFuel, _) => "diverge"
      let sp := match contractTableOn env (parseProvTable env prov) (parseProvCap prov) [env.ev root.toNat!] [(env.ev root.toNat!).eventID] with
        | none => "unspecified:provider-contract"
        | some (table, errs) =>
          match Spec.chainAccepts O (env.ev root.toNat!) table errs chainFuel with
          | some true => "ok"
          | some false => "err"
          | none => "unspecified:fuel"
      let rCore := (r.splitOn "|log:").headD r
      let rCoarse := if rCore.startsWith "err" then "err" else rCore
      if sp.startsWith "unspecified" then some (r ++ "\t" ++ sp)
      else if rCoarse == sp then some (r ++ "\t" ++ r) else some (r ++ "\t" ++ sp)
  | "atstate", [ver, pool, ev, allow, sprov] =>
    match parseEvArgs (strBytes ver) (splitList pool ",") with
    | none => some "bad-op"
    | some es =>
      let env : Env := { pool := es.toArray }
      let O := authOracles []
      let sp := parseSProv env sprov
      let e := env.ev ev.toNat!
      -- (two DIFFERENT events of the returned state in one (type, state_key) slot used to be skipped here — "Go map order
      -- decides" —: exactly the inputs on which the verdict was not a function of the input.  The specification
      -- (`Spec.atState`: such a set is no state, refused) and, since the repair, the model answer on them.)
      let m := match verifyAuthRulesAtState O sp e (allow == "1") [] with
        | (.ok, log) => "ok" ++ showLog env log
        | (.idsErr, log) => "err:ids" ++ showLog env log
        | (.stateErr, log) => "err:state" ++ showLog env log
        | (.notAllowed, log) => "err:auth" ++ showLog env log
        | (.outOfFuel, _) => "diverge"
      let s := match Spec.atState O sp e (allow == "1") with
        | some true => "ok"
        | some false => "err:auth"
        | none => "err:provider"
      let mCore := (m.splitOn "|log:").headD m
      let mCoarse := if mCore == "err:ids" || mCore == "err:state" then "err:provider" else mCore
      if mCoarse == s then some (m ++ "\t" ++ m) else some (m ++ "\t" ++ s)
  | "load", [ver, pool, raws, badsig, prov, sprov, order] =>
    match parseEvArgs (strBytes ver) (splitList pool ",") with
    | none => some "bad-op"
    | some es =>
      let env : Env := { pool := es.toArray }
      let O := authOracles ((env.evs (natList badsig)).map (·.eventID))
      let p := provOfScript env prov
      let sp := parseSProv env sprov
      let raw := parseEntries env raws
      let ord : List Event → List Event := fun _ => env.evs (natList order)
      if (ord []).length > (parsedClean raw).length then some "panic:load.go:index out of range" else
      let m := match loadAndVerify O p sp caFuel chainFuel ord raw [] with
        | none => "diverge"
        | some (rs, log) => "ok:" ++ toString rs.length ++ ":" ++ showResults env rs ++ showLog env log
      -- specification: one result per input; each parsed event classified by the first check it fails
      let spec := match contractTableOn env (parseProvTable env prov) (parseProvCap prov) (parsedClean raw) [] with
        | none => "unspecified:provider-contract"
        | some (table, errs) =>
          let evs := parsedClean raw
          let cls := evs.map (fun e => (e, Spec.loadClass O table errs sp chainFuel e))
          if cls.any (fun c => c.2.isNone) then "unspecified:fuel"
          else
            let rs : List LoadResult := cls.map (fun c => { cls := c.2.getD .empty, event := some c.1 })
              ++ List.replicate (raw.length - evs.length) { cls := .parseErr, event := none }
            "ok:" ++ toString raw.length ++ ":" ++ showResults env rs
      let mCore := (m.splitOn "|log:").headD m
      if spec.startsWith "unspecified" then some (m ++ "\t" ++ spec)
      else if mCore == spec then some (m ++ "\t" ++ m) else some (m ++ "\t" ++ spec)
  | "backfill", [ver, pool, servers, badsig, prov, sprov, orders, limit] =>
    match parseEvArgs (strBytes ver) (splitList pool ",") with
    | none => some "bad-op"
    | some es =>
      let env : Env := { pool := es.toArray }
      let O := authOracles ((env.evs (natList badsig)).map (·.eventID))
      let p := provOfScript env prov
      let sp := parseSProv env sprov
      let srv : List ServerAns := (splitList servers "|").map (fun s => if s == "e" then none else some (parseEntries env s))
      let ords : List (List Nat) := (splitList orders "|").map natList
      -- per-server order: the i-th Backfill answer that parsed is ordered by the i-th given list
      let ord : List Event → List Event := orderOf env ords
      match backfillLoop O p sp caFuel chainFuel ord limit.toNat! srv 0 [] [] false [] with
      | (.done res lastErr, log) =>
        some ("ok:" ++ ",".intercalate (sortStrings (res.map env.showEv)) ++ (if lastErr then "|lasterr" else "") ++ showLog env log)
      | (.panic site, _) => some ("panic:" ++ site)
      | (.outOfFuel, _) => some "diverge"
  | "backfill_props", [ver, pool, servers, badsig, prov, sprov, _orders, _limit, answer] =>
    match parseEvArgs (strBytes ver) (splitList pool ","), (unhex answer).map bytesStr with
    | some es, some ans =>
      if !ans.startsWith "ok:" then some "bad-op" else
      let env : Env := { pool := es.toArray }
      let O := authOracles ((env.evs (natList badsig)).map (·.eventID))
      let sp := parseSProv env sprov
      -- the implementation's answer: `ok:#i,#j…|…`
      let core := ((ans.drop 3).toString.splitOn "|").headD ""
      let toks := splitList core ","
      if toks.any (fun t => !(t.startsWith "#")) then some "violates:not-from-response:unknown-event" else
      let returned : List Event := toks.map (fun t => env.ev (t.drop 1).toString.toNat!)
      -- every cleanly parsed PDU of every answering server
      let answers : List Event := (splitList servers "|").flatMap (fun s => if s == "e" then [] else parsedClean (parseEntries env s))
      match contractTableOn env (parseProvTable env prov) (parseProvCap prov) answers [] with
      | none => some "ok\tunspecified:provider-contract"
      | some (table, errs) =>
        let verdicts := returned.map (fun e => (e, Spec.backfillEventOK O table errs sp chainFuel (fun x => answers.any (sameEvent x)) e))
        if verdicts.any (fun v => v.2.isNone) then some "ok\tunspecified:fuel" else
        match verdicts.find? (fun v => v.2 == some Spec.BackfillVerdict.notFromResponse) with
        | some v => some ("ok\tviolates:not-from-response:" ++ env.showEv v.1)
        | none =>
          match verdicts.find? (fun v => v.2 == some Spec.BackfillVerdict.failsAuth) with
          | some v => some ("ok\tviolates:fails-auth-checks:" ++ env.showEv v.1)
          | none =>
            match Spec.firstRepeatedID returned with
            | some e => some ("ok\tviolates:repeated-id:" ++ env.showEv e)
            | none => some "ok\tok"
    | _, _ => some "bad-op"
  | _, _ => none

end V.Driver.FedcheckOps
