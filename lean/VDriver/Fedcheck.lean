/- Driver handlers for area `fedcheck` (stub: replace `handle`). -/
import VDriver.Util
namespace V.Driver.FedcheckOps
open V V.Driver

def handle (_op : String) (_args : Array String) : Option String := none

end V.Driver.FedcheckOps
