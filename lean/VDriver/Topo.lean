/- Driver handlers for area `topo` (C11: orderings). -/
import VDriver.Util
import VDriver.Auth
import VDriver.Stateres
import VModel.StateRes
namespace V.Driver.TopoOps
open V V.Json V.Driver V.Auth V.StateRes V.Driver.AuthOps V.Driver.StateresOps

/-- ancestors of `e` (through `parents`) among `evs` -/
def ancestorsIn (parents : Event → List Bytes) (evs : List Event) (e : Event) : List Bytes :=
  let rec go (fuel : Nat) (frontier : List Event) (seen : List Bytes) : List Bytes :=
    match fuel with
    | 0 => seen
    | fuel + 1 =>
      let next := (frontier.map parents).flatten.filter (fun id => !seen.contains id)
      let nextEvs := next.filterMap (findByID evs)
      if nextEvs.isEmpty then seen else go fuel nextEvs (seen ++ (eventMapFromEvents nextEvs).map (·.eventID))
  go (evs.length + 1) [e] []

/-- permutation of the distinct input events in which each event comes after all its ancestors present in the input -/
def orderProps (parents : Event → List Bytes) (input : List Event) (out : List Bytes) : String :=
  let distinct := (eventMapFromEvents input).map (·.eventID)
  if sortIDs out != sortIDs distinct then
    (if out.length != distinct.length then "violates:not-a-permutation-of-distinct-inputs(length)" else "violates:not-a-permutation-of-distinct-inputs")
  else
    let pos (id : Bytes) : Nat := (out.zipIdx.find? (fun x => x.1 == id)).map (·.2) |>.getD 0
    let bad := (eventMapFromEvents input).any (fun e =>
      (ancestorsIn parents (eventMapFromEvents input) e).any (fun a => a != e.eventID && pos a > pos e.eventID))
    if bad then "violates:descendant-before-ancestor" else "ok"

def handle (op : String) (args : Array String) : Option String :=
  match op, args.toList with
  | "order", ver :: kind :: orderS :: evArgs =>
    match parseEvArgs (strBytes ver) evArgs with
    | none => some "bad-op"
    | some es =>
      let arr := es.toArray
      let input := (idxList orderS).map (fun i => arr[i]!)
      let out := if kind == "auth" then reverseTopoAuth [] (getCreateEvent input) input else reverseTopoPrev input
      some (",".intercalate (out.map (fun e => bytesStr e.eventID)))
  | "linearise", ver :: stateS :: authS :: evArgs =>
    -- `LineariseStateResponse`: auth events and state events are put into a map by event ID (the state event wins) and the
    -- map's values are ordered by auth events; the untrusted parse redacts these hash-less events, which changes none of
    -- the fields the ordering reads (sender, timestamp, ID, auth_events)
    match parseEvArgs (strBytes ver) evArgs with
    | none => some "bad-op"
    | some es =>
      let arr := es.toArray
      let input := eventMapFromEvents (((idxList stateS) ++ (idxList authS)).map (fun i => arr[i]!))
      let out := reverseTopoAuth [] (getCreateEvent input) input
      some (",".intercalate (out.map (fun e => bytesStr e.eventID)))
  | "order_props", ver :: resH :: kind :: orderS :: evArgs =>
    match parseEvArgs (strBytes ver) evArgs with
    | none => some "bad-op"
    | some es =>
      let arr := es.toArray
      let input := (idxList orderS).map (fun i => arr[i]!)
      let res := bytesStr ((unhex resH).getD [])
      if res.startsWith "panic" then some "ok\tviolates:panic" else
      let out : List Bytes := if res.isEmpty then [] else (res.splitOn ",").map strBytes
      let parents : Event → List Bytes := if kind == "auth" then (fun e => e.authEventIDs) else (fun e => e.prevEventIDs)
      some ("ok\t" ++ orderProps parents input out)
  | _, _ => none

end V.Driver.TopoOps
