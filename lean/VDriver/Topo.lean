/- Driver handlers for area `topo` (stub: replace `handle`). -/
import VDriver.Util
namespace V.Driver.TopoOps
open V V.Driver

def handle (_op : String) (_args : Array String) : Option String := none

end V.Driver.TopoOps
