/- Driver handlers for area `resolve` (C16: server-name resolution). -/
import VDriver.Util
import VModel.Resolve
namespace V.Driver.ResolveOps
open V V.Driver V.Resolve

def unhexStr (s : String) : Option Cidr.Str := (unhex s).map (fun b => (bytesStr b).toList)
def hexStr (s : Cidr.Str) : String := hex (strBytes (String.ofList s))

/-- `hx(target)~port;...` -/
def parseRecords (s : String) : Option (List (Cidr.Str × Nat)) :=
  (s.splitOn ";").mapM (fun r => match r.splitOn "~" with
    | [t, p] => match unhexStr t, p.toNat? with
      | some t, some p => some (t, p)
      | _, _ => none
    | _ => none)

/-- answer codes: nf / nd (NXDOMAIN / no data) = not found; err / lame = DNS error; r:<records> -/
def parseAnswer (s : String) : Option SrvAnswer :=
  if s == "nf" || s == "nd" then some .notFound
  else if s == "err" || s == "lame" then some .dnsError
  else if s.startsWith "r:" then (parseRecords (s.drop 2).toString).map .records
  else none

/-- `<svc>|<hx name>|<answer>,...` or `.` -/
def parseScript (s : String) : Option (List (Cidr.Str × Cidr.Str × SrvAnswer)) :=
  if s == "." then some [] else
  (s.splitOn ",").mapM (fun e => match e.splitOn "|" with
    | [svc, n, a] => match unhexStr n, parseAnswer a with
      | some n, some a => some (svc.toList, n, a)
      | _, _ => none
    | _ => none)

def lowerStr (s : Cidr.Str) : Cidr.Str := s.map Char.toLower

/-- the SRV oracle of a script: names are compared case-insensitively (DNS); unscripted = not found -/
def srvOf (script : List (Cidr.Str × Cidr.Str × SrvAnswer)) (svc n : Cidr.Str) : SrvAnswer :=
  match script.find? (fun e => e.1 == svc && lowerStr e.2.1 == lowerStr n) with
  | some e => e.2.2
  | none => .notFound

/-- well-known outcome codes: `S<hx m.server>` = honoured, `N...` = any refusal / error -/
def parseWK (s : String) : Option (Option Cidr.Str) :=
  -- LookupWellKnown never returns an empty m.server (it is an error)
  if s.startsWith "S" then (unhexStr (s.drop 1).toString).map (fun d => if d.isEmpty then none else some d)
  else if s.startsWith "N" then some none
  else none

def showTargets (ts : List Target) : String :=
  ";".intercalate (ts.map (fun t => hexStr t.dest ++ "," ++ hexStr t.host ++ "," ++ hexStr t.sni))

def showResult (r : Except Err (List Target)) (wkQueries : List Cidr.Str) : String :=
  match r with
  | .ok ts => "ok:" ++ showTargets ts ++ "|wk=" ++ ",".intercalate (wkQueries.map hexStr)
  | .error e => showErr e ++ "|wk=" ++ ",".intercalate (wkQueries.map hexStr)

/-- Is the name inside the property's quantifier?  The appendix grammar has `port = 1*5DIGIT` and
    `dns-name = 1*255dns-char`; spellings outside it that the code accepts (ports padded with leading
    zeros to more than five digits, over-long names) are left unspecified (decision of the lead). -/
def unspecifiedName (name : Cidr.Str) : Bool :=
  match splitLastColon name with
  | some (h, p) => (Spec.isPort p && p.length > 5) || h.length > 255
  | none => name.length > 255

/-- ops:
    resolve <hx name> <wk of name> <wk of delegated (never consulted)> <srv script>
       -> ok:<dest,host,sni;...>|wk=<names asked for /.well-known> | err:invalid-server-name|wk=... | panic:...
-/
def handle (op : String) (args : Array String) : Option String :=
  match op, args.toList with
  | "resolve", [n, wk1, _wk2, script] =>
    match unhexStr n, parseWK wk1, parseScript script with
    | some name, some wk, some sc =>
      let o : Oracles := { wk := fun q => if q == name then wk else none, srv := srvOf sc }
      -- the well-known lookups the model performs: one for `name` iff steps 1 and 2 do not apply
      let wkq := match resolveDirect name with
        | .ok none => [name]
        | _ => []
      let m := showResult (resolve o name) wkq
      let delegatedUnspec := match wk with
        | some d => unspecifiedName d
        | none => false
      let s := if unspecifiedName name || (wkq != [] && delegatedUnspec) then "unspecified:name-spelling-outside-grammar"
               else showResult (Spec.resolve o name) (match Spec.classify name with
                 | some k => if (Spec.direct name k).isNone then [name] else []
                 | none => [])
      some (m ++ "\t" ++ s)
    | _, _, _ => some "bad-op"
  | "roundtrip", [n, wk1, script] =>
    match unhexStr n, parseWK wk1, parseScript script with
    | some name, some wk, some sc =>
      let o : Oracles := { wk := fun q => if q == name then wk else none, srv := srvOf sc }
      -- the network of the harness: port 1 = the answering server, port 2 = the server that fails the TLS
      -- handshake, anything else = nothing listens
      let reach (t : Target) : Reach :=
        match splitLastColon t.dest with
        | some (_, p) => if p == "1".toList then .ok else if p == "2".toList then .tlsFail else .refused
        | none => .refused
      -- crypto/tls sends no SNI for IP literals and strips trailing dots
      let sniSent (s : Cidr.Str) : Cidr.Str := if (Cidr.parseIP s).isSome then [] else s
      let showTrip (r : Except Err Trip) : String :=
        match r with
        | .error e => showErr e
        | .ok tr =>
          let seen := tr.attempts.filterMap (fun a => match a.2 with
            | .ok => some ("A," ++ hexStr (sniSent a.1.sni) ++ "," ++ hexStr a.1.host)
            | .tlsFail => some ("B," ++ hexStr (sniSent a.1.sni))
            | .refused => none)
          ";".intercalate seen ++ (if tr.ok then "|ok" else "|err") ++
            "|wk=" ++ (if tr.resolved && (match resolveDirect name with | .ok none => true | _ => false) then "1" else "0")
      let t1 := roundTrip o name reach none
      let cache := match t1 with
        | .ok tr => tr.cache
        | .error _ => none
      let t2 := roundTrip o name reach cache
      some ("rt:" ++ showTrip t1 ++ "#" ++ showTrip t2)
    | _, _, _ => some "bad-op"
  | "validate", [n] =>
    match unhexStr n with
    | some name =>
      some (match parseAndValidate name with
        | none => "invalid"
        | some (h, p) => "ok:" ++ hexStr h ++ ":" ++ (match p with | none => "-1" | some p => toString p))
    | none => some "bad-op"
  | _, _ => none

end V.Driver.ResolveOps
