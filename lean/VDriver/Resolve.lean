/- Driver handlers for area `resolve` (stub: replace `handle`). -/
import VDriver.Util
namespace V.Driver.ResolveOps
open V V.Driver

def handle (_op : String) (_args : Array String) : Option String := none

end V.Driver.ResolveOps
