/- Driver handlers for area `resolve` (C16: server-name resolution). -/
import VDriver.Util
import VModel.Resolve
namespace V.Driver.ResolveOps
open V V.Driver V.Resolve

def unhexStr (s : String) : Option Cidr.Str := (unhex s).map (fun b => (bytesStr b).toList)
def hexStr (s : Cidr.Str) : String := hex (strBytes (String.ofList s))

/-- `hx(target)~port;...` -/
def parseRecords (s : String) : Option (List (Cidr.Str × Nat)) :=
  (s.splitOn ";").mapM (fun r => match r.splitOn "~" with
    | [t, p] => match unhexStr t, p.toNat? with
      | some t, some p => some (t, p)
      | _, _ => none
    | _ => none)

/-- answer codes: nf / nd (NXDOMAIN / no data) = not found; err / lame = DNS error; r:<records> -/
def parseAnswer (s : String) : Option SrvAnswer :=
  if s == "nf" || s == "nd" then some .notFound
  else if s == "err" || s == "lame" then some .dnsError
  else if s.startsWith "r:" then (parseRecords (s.drop 2).toString).map .records
  else none

/-- `<svc>|<hx name>|<answer>,...` or `.` -/
def parseScript (s : String) : Option (List (Cidr.Str × Cidr.Str × SrvAnswer)) :=
  if s == "." then some [] else
  (s.splitOn ",").mapM (fun e => match e.splitOn "|" with
    | [svc, n, a] => match unhexStr n, parseAnswer a with
      | some n, some a => some (svc.toList, n, a)
      | _, _ => none
    | _ => none)

def lowerStr (s : Cidr.Str) : Cidr.Str := s.map Char.toLower

/-- the SRV oracle of a script: names are compared case-insensitively (DNS); unscripted = not found -/
def srvOf (script : List (Cidr.Str × Cidr.Str × SrvAnswer)) (svc n : Cidr.Str) : SrvAnswer :=
  match script.find? (fun e => e.1 == svc && lowerStr e.2.1 == lowerStr n) with
  | some e => e.2.2
  | none => .notFound

/-- well-known outcome codes: `S<hx m.server>` = honoured, `N...` = any refusal / error -/
def parseWK (s : String) : Option (Option Cidr.Str) :=
  -- LookupWellKnown never returns an empty m.server (it is an error)
  if s.startsWith "S" then (unhexStr (s.drop 1).toString).map (fun d => if d.isEmpty then none else some d)
  else if s.startsWith "N" then some none
  else none

def showTargets (ts : List Target) : String :=
  ";".intercalate (ts.map (fun t => hexStr t.dest ++ "," ++ hexStr t.host ++ "," ++ hexStr t.sni))

def showResult (r : Except Err (List Target)) (wkQueries : List Cidr.Str) : String :=
  match r with
  | .ok ts => "ok:" ++ showTargets ts ++ "|wk=" ++ ",".intercalate (wkQueries.map hexStr)
  | .error e => showErr e ++ "|wk=" ++ ",".intercalate (wkQueries.map hexStr)

/-- Is the name inside the property's quantifier?  The appendix grammar has `port = 1*5DIGIT` and
    `dns-name = 1*255dns-char`; spellings outside it that the code accepts (ports padded with leading
    zeros to more than five digits, over-long names) are left unspecified (decision of the lead). -/
def unspecifiedName (name : Cidr.Str) : Bool :=
  match splitLastColon name with
  | some (h, p) => (Spec.isPort p && p.length > 5) || h.length > 255
  | none => name.length > 255

/-! ### the RoundTrip op

  The network of the harness: every name has its own loopback address and four servers listen on all of them —
  port 1 = A answers; port 2 = B refuses the TLS handshake; port 3 = C closes the connection at once; port 4 = F
  drops the first `k` connections of a request after reading the request head and answers later ones; nothing
  listens on any other port.  Each server records what it saw of an attempt:
    A,<dialled host>,<SNI>,<Host header>   B,<dialled host>,<SNI>   C,<dialled host>
    D,<dialled host>,<SNI>,<Host header>  (dropped by F)   F,<dialled host>,<SNI>,<Host header>  (answered by F) -/

def portOf (t : Target) : Cidr.Str :=
  match splitLastColon t.dest with
  | some (_, p) => p
  | none => []

/-- the host part of a destination as the servers see it: the dialled NAME (lower case: DNS), or the address literal;
    `localhost` is resolved from the hosts file, not by the fake DNS -/
def dialledOf (t : Target) : Cidr.Str :=
  let h := match splitLastColon t.dest with
    | some (h, _) => h
    | none => t.dest
  let h := if h.head? == some '[' && h.getLast? == some ']' then (h.drop 1).dropLast else h
  if lowerStr h == "localhost".toList then "127.0.0.1".toList else lowerStr h

/-- crypto/tls sends no SNI for IP literals -/
def sniSent (s : Cidr.Str) : Cidr.Str := if (Cidr.parseIP s).isSome then [] else s

def rtNetwork (k : Nat) : Network := fun hist t =>
  let p := portOf t
  if p == "1".toList then .ok
  else if p == "2".toList then .tlsFail
  else if p == "3".toList then .reset
  else if p == "4".toList then
    if (hist.filter (fun a => portOf a.1 == "4".toList)).length < k then .dropped else .ok
  else .refused

def showAttempt (a : Target × Reach) : Option String :=
  let d := hexStr (dialledOf a.1)
  let full := d ++ "," ++ hexStr (sniSent a.1.sni) ++ "," ++ hexStr a.1.host
  match a.2 with
  | .ok => if portOf a.1 == "4".toList then some ("F," ++ full) else some ("A," ++ full)
  | .tlsFail => some ("B," ++ d ++ "," ++ hexStr (sniSent a.1.sni))
  | .reset => some ("C," ++ d)
  | .dropped => some ("D," ++ full)
  | .refused => none

/-- Does a recorded attempt `<server>,<dialled>[,<SNI>[,<Host>]]` go to the resolution result `t`, with the Host
    header and TLS server name of `t` as far as the server saw them? -/
def attemptMatches (t : Target) (fields : List String) : Bool :=
  let portOK (srv : String) : Bool :=
    portOf t == (if srv == "A" then "1" else if srv == "B" then "2" else if srv == "C" then "3" else "4").toList
  match fields with
  | [srv, d] => srv == "C" && portOK srv && d == hexStr (dialledOf t)
  | [srv, d, sni] => srv == "B" && portOK srv && d == hexStr (dialledOf t) && sni == hexStr (sniSent t.sni)
  | [srv, d, sni, host] =>
    (srv == "A" || srv == "D" || srv == "F") && portOK srv && d == hexStr (dialledOf t)
      && sni == hexStr (sniSent t.sni) && host == hexStr t.host
  | _ => false

/-! ### the policy op: real clients with allow / deny lists (network documented in harness/area_resolve.go) -/

def polHosts : List (Cidr.Str × List Cidr.Str) := [
  ("h1.example.com".toList, ["127.16.1.1".toList]), ("h2.example.com".toList, ["127.16.1.2".toList]),
  ("h3.example.com".toList, ["127.16.2.1".toList]), ("h6.example.com".toList, ["::1".toList]),
  ("hh.example.com".toList, ["127.16.1.1".toList, "127.16.2.1".toList])]

def polWAddrs : List Cidr.Str := ["127.16.1.1".toList, "127.16.1.2".toList, "127.16.2.1".toList]

/-- `host=kind,…`, kind = n | s<hx m.server> | r<hx host> -/
def parsePolScript (s : String) : Option (List (Cidr.Str × Policy.WkDoc)) :=
  if s == "." then some [] else
  (s.splitOn ",").mapM (fun e => match e.splitOn "=" with
    | [h, k] =>
      if k == "n" then some (h.toList, Policy.WkDoc.none)
      else if k.startsWith "s" then (unhexStr (k.drop 1).toString).map (fun d => (h.toList, Policy.WkDoc.server d))
      else if k.startsWith "r" then (unhexStr (k.drop 1).toString).map (fun d => (h.toList, Policy.WkDoc.redirect d))
      else none
    | _ => none)

def polNet (wk : List (Cidr.Str × Policy.WkDoc)) : Policy.Net :=
  { addrs := fun h => (polHosts.lookup h).getD [],
    -- F (symbolic port 5) listens on 0.0.0.0, G (6) on ::1, W (443) on three addresses; nothing on 8448
    listening := fun ip port =>
      if port == "5".toList then !ip.contains ':'
      else if port == "6".toList then ip == "::1".toList
      else if port == "443".toList then polWAddrs.contains ip
      else false,
    wkDoc := fun h => (wk.lookup h).getD .none }

def parsePolList (s : String) : Option (List Cidr.Str) :=
  if s == "-" then some [] else (s.splitOn ",").mapM unhexStr

def parsePolConfig (opts al dl cl : String) : Option Policy.Config :=
  match parsePolList al, parsePolList dl with
  | some allow, some deny =>
    let (ca, cd) : List Cidr.Str × List Cidr.Str :=
      if cl == "open" then (["0.0.0.0/0".toList, "::/0".toList], [])
      else if cl == "nil" then ([], [])
      else (allow, deny)
    some { wellKnown := opts.contains 'w', cache := opts.contains 'c', allow := allow, deny := deny, cacheAllow := ca, cacheDeny := cd }
  | _, _ => none

def polSym (port : Cidr.Str) : String :=
  if port == "5".toList then "F" else if port == "6".toList then "G" else if port == "443".toList then "W" else String.ofList port

def sortDedup (xs : List String) : List String :=
  (xs.mergeSort (fun a b => !(b < a))).foldr (fun x acc => if acc.head? == some x then acc else x :: acc) []

def showOutcome (o : Policy.Outcome) : String :=
  "arr:" ++ ",".intercalate (sortDedup (o.arrivals.map (fun a => String.ofList a.1 ++ "/" ++ polSym a.2))) ++ (if o.ok then "|ok" else "|err")

/-- C16 on one address: in no denied range and in at least one allowed range (Cidr.Spec.permitted) -/
def specPermits (allow deny : List Cidr.Str) (ip : Cidr.Str) : Bool :=
  match Cidr.parseIP ip with
  | some a => decide (Cidr.Spec.permitted (Cidr.normalise a) (allow.map Cidr.parseCIDR) (deny.map Cidr.parseCIDR))
  | none => false

/-- ops:
    policy <opts> <allow> <deny> <cache lists> <hx server name> <well-known script>
       -> arr:<sorted set of <address>/<F|G|W> a connection was accepted on>|ok or |err
    policy_forbidden <args of policy>
       -> forbidden:<the arrivals on addresses that do NOT lie in no denied range and in at least one allowed range of the
          client's lists (when it has any) and of its DNS cache's lists (when it has one)>
       The harness runs the scenario again and classifies the arrivals with net.ParseCIDR / IPNet.Contains; the model stream
       is the model's prediction classified with Cidr.Spec.permitted; the SPECIFICATION stream is the constant `forbidden:` —
       no connection is ever made to such an address, by whatever name or path (federation request, DNS cache, well-known
       fetch, redirect) it was reached.
    roundtrip <hx name> <wk of name> <srv script> [<k>]
       -> rt:<attempts;…>|ok/err|wk=<well-known lookups>#<the same for a second request, which sees the resolution cache>
    roundtrip_props <args of roundtrip> <hex of the implementation's outcome>  — implementation outcome is the constant
       `ok`; the driver prints `ok` when EVERY recorded attempt of both requests (first pass and retry pass) goes to a
       result of the SPECIFICATION's resolution of the original server name (`Spec.resolve`), with the Host header and
       TLS server name the specification assigns to that result — else `violates:attempt-is-no-resolution-result:<attempt>`.
       Where connections go is all the property says: re-using the targets that just failed is allowed.
    resolve <hx name> <wk of name> <wk of delegated (never consulted)> <srv script>
       -> ok:<dest,host,sni;...>|wk=<names asked for /.well-known> | err:invalid-server-name|wk=... | panic:...
-/
def handleOne (op : String) (args : Array String) : Option String :=
  match op, args.toList with
  | "resolve", [n, wk1, _wk2, script] =>
    match unhexStr n, parseWK wk1, parseScript script with
    | some name, some wk, some sc =>
      let o : Oracles := { wk := fun q => if q == name then wk else none, srv := srvOf sc }
      -- the well-known lookups the model performs: one for `name` iff steps 1 and 2 do not apply
      let wkq := match resolveDirect name with
        | .ok none => [name]
        | _ => []
      let m := showResult (resolve o name) wkq
      let delegatedUnspec := match wk with
        | some d => unspecifiedName d
        | none => false
      let s := if unspecifiedName name || (wkq != [] && delegatedUnspec) then "unspecified:name-spelling-outside-grammar"
               else showResult (Spec.resolve o name) (match Spec.classify name with
                 | some k => if (Spec.direct name k).isNone then [name] else []
                 | none => [])
      some (m ++ "\t" ++ s)
    | _, _, _ => some "bad-op"
  | "policy", [opts, al, dl, cl, n, script] =>
    match parsePolConfig opts al dl cl, unhexStr n, parsePolScript script with
    | some c, some name, some wk => some (showOutcome (Policy.request c (polNet wk) name))
    | _, _, _ => some "bad-op"
  | "policy_forbidden", [opts, al, dl, cl, n, script] =>
    match parsePolConfig opts al dl cl, unhexStr n, parsePolScript script with
    | some c, some name, some wk =>
      let o := Policy.request c (polNet wk) name
      let bad := o.arrivals.filter (fun a =>
        !((c.allow.isEmpty && c.deny.isEmpty) || specPermits c.allow c.deny a.1) ||
        (c.cache && !specPermits c.cacheAllow c.cacheDeny a.1))
      some ("forbidden:" ++ ",".intercalate (sortDedup (bad.map (fun a => String.ofList a.1 ++ "/" ++ polSym a.2))) ++ "\tforbidden:")
    | _, _, _ => some "bad-op"
  | "roundtrip", n :: wk1 :: script :: rest =>
    match unhexStr n, parseWK wk1, parseScript script with
    | some name, some wk, some sc =>
      let o : Oracles := { wk := fun q => if q == name then wk else none, srv := srvOf sc }
      let k := (rest.head?.bind String.toNat?).getD 0
      let showTrip (r : Except Err Trip) : String :=
        match r with
        | .error e => showErr e
        | .ok tr =>
          ";".intercalate (tr.attempts.filterMap showAttempt) ++ (if tr.ok then "|ok" else "|err") ++
            "|wk=" ++ (if tr.resolved && (match resolveDirect name with | .ok none => true | _ => false) then "1" else "0")
      let t1 := roundTrip o name (rtNetwork k) none
      let cache := match t1 with
        | .ok tr => tr.cache
        | .error _ => none
      let t2 := roundTrip o name (rtNetwork k) cache
      some ("rt:" ++ showTrip t1 ++ "#" ++ showTrip t2)
    | _, _, _ => some "bad-op"
  | "roundtrip_props", [n, wk1, script, _k, answer] =>
    match unhexStr n, parseWK wk1, parseScript script, (unhex answer).map bytesStr with
    | some name, some wk, some sc, some ans =>
      if !ans.startsWith "rt:" then some "bad-op" else
      let o : Oracles := { wk := fun q => if q == name then wk else none, srv := srvOf sc }
      let delegatedUnspec := match wk with
        | some d => unspecifiedName d
        | none => false
      if unspecifiedName name || delegatedUnspec then some "ok\tunspecified:name-spelling-outside-grammar" else
      -- the specification's resolution results for the ORIGINAL server name; none when it refuses the name
      let allowed : List Target := match Spec.resolve o name with
        | .ok ts => ts
        | .error _ => []
      -- every attempt either request made
      let attempts : List String := ((ans.drop 3).toString.splitOn "#").flatMap (fun req =>
        let tr := (req.splitOn "|").headD ""
        if tr.isEmpty || tr.startsWith "err:" then [] else tr.splitOn ";")
      match attempts.find? (fun a => !(allowed.any (fun t => attemptMatches t (a.splitOn ",")))) with
      | some a => some ("ok\tviolates:attempt-is-no-resolution-result:" ++ a)
      | none => some "ok\tok"
    | _, _, _, _ => some "bad-op"
  | "validate", [n] =>
    match unhexStr n with
    | some name =>
      some (match parseAndValidate name with
        | none => "invalid"
        | some (h, p) => "ok:" ++ hexStr h ++ ":" ++ (match p with | none => "-1" | some p => toString p))
    | none => some "bad-op"
  | _, _ => none

/-- `resolve_after name wk1 wk2 script first`: the resolution of `name` made after `first` was resolved in the same process on
    the same network (all well-known replies cacheable).  Resolution is a function of the name and of what the network answers
    — `C16.resolve_eq_spec` has no state argument — so the answer is that of `resolve name wk1 wk2 script`. -/
def handle (op : String) (args : Array String) : Option String :=
  match op, args.toList with
  | "resolve_after", [n, wk1, wk2, script, _first] => handleOne "resolve" #[n, wk1, wk2, script]
  | _, _ => handleOne op args

end V.Driver.ResolveOps
