/- Driver handlers for area `signers` (stub: replace `handle`). -/
import VDriver.Util
namespace V.Driver.SignersOps
open V V.Driver

def handle (_op : String) (_args : Array String) : Option String := none

end V.Driver.SignersOps
