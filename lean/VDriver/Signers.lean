/- Driver handlers for area `signers` (C06): VerifyEventSignatures against a scripted verifier.

   ops:
     verify <ver> <hex id>:<hex json> <script>   -> ok | rej | panic:…          (+ specification)
     trace  <ver> <hex id>:<hex json> <script>   -> asked:<sorted requests "hexserver@ts/strict/redacted"> | none | -
   script = "<hexserver>=<0|1>,...;<default 0|1>;<verifier error 0|1>"
-/
import VDriver.Util
import VModel.Signers
namespace V.Driver.SignersOps
open V V.Json V.Driver V.Signers

def parseEvArg (ver : Bytes) (arg : String) : Option Event :=
  match arg.splitOn ":" with
  | [idh, jsh] =>
    match unhex idh, unhex jsh with
    | some id, some js =>
      match parse js with
      | some p => match p.toJVal with
        | .obj kvs => some { ver := ver, eventID := id, obj := kvs }
        | _ => none
      | none => none
    | _, _ => none
  | _ => none

structure Script where
  table : List (Bytes × Bool)
  dflt : Bool
  verr : Bool

def parseScript (s : String) : Option Script :=
  match s.splitOn ";" with
  | [t, d, v] =>
    let entries : Option (List (Bytes × Bool)) :=
      if t == "-" || t == "" then some [] else
      (t.splitOn ",").mapM (fun e =>
        match e.splitOn "=" with
        | [h, b] => (unhex h).map (fun x => (x, b == "1"))
        | _ => none)
    entries.map (fun es => ⟨es, d == "1", v == "1"⟩)
  | _ => none

def Script.valid (sc : Script) (server : Bytes) : Bool :=
  match sc.table.find? (fun e => e.1 == server) with
  | some e => e.2
  | none => sc.dflt

def insertSorted (x : String) : List String → List String
  | [] => [x]
  | y :: ys => if x < y then x :: y :: ys else if x == y then y :: ys else y :: insertSorted x ys

def sortDedup (xs : List String) : List String := xs.foldr insertSorted []

def showReqs (rs : List (Bytes × Nat × Bool)) : String :=
  if rs.isEmpty then "-" else
  "asked:" ++ String.intercalate "," (sortDedup (rs.map (fun r => hex r.1 ++ "@" ++ toString r.2.1 ++ "/" ++ (if r.2.2 then "s1" else "s0") ++ "/r1")))

/-- the standard `userIDForSender`: `spec.NewUserID(sender, true)`; outer `none` = not modelled -/
def senderDomain (e : Event) : Option (Except Err (Option Bytes)) :=
  match parseUserID? e.sender with
  | none => none
  | some none => some (.error (errRej "sender"))
  | some (some u) => some (.ok (some u.domain))

def handle (op : String) (args : Array String) : Option String :=
  match op, args.toList with
  | opn, [ver, ev, script] =>
    if opn != "verify" && opn != "trace" then none else
    let v := strBytes ver
    match versionRow? v, parseEvArg v ev, parseScript script with
    | some row, some e, some sc =>
      if v == pseudoIDVersion then some "skip:pseudo-id room version (sender-key self-verification and mxid_mapping not modelled)"
      else match senderDomain e with
      | none => some "skip:sender domain is an IPv6 literal (server-name validation: C17)"
      | some sd =>
        let specSender : Option Bytes := match sd with
          | .ok (some d) => some d
          | _ => none
        let req := Spec.required ver e specSender
        if opn == "verify" then
          let m := match verifyEventSignatures row e sd (fun r => sc.valid r.server) sc.verr with
            | .ok _ => "ok"
            | .error (.panic s) => "panic:" ++ s
            | .error _ => "rej"
          let s := match req with
            | .unspecified => "unspecified:membership-unreadable"
            | .undeterminable => "rej"
            | .servers l => if sc.verr then "unspecified:verifier-error" else if l.all sc.valid then "ok" else "rej"
          some (m ++ "\t" ++ s)
        else
          let m := match requests row e sd with
            | .ok rs => showReqs (rs.map (fun r => (r.server, r.ts, r.strict)))
            | .error (.panic s) => "panic:" ++ s
            | .error _ => "none"
          let s := match req with
            | .servers l => showReqs (l.map (fun x => (x, e.originServerTS, Spec.strictFrom5 ver)))
            | _ => "unspecified:no-required-set"
          some (m ++ "\t" ++ s)
    | _, _, _ => some "bad-op"
  | _, _ => none

end V.Driver.SignersOps
