/- Driver handlers for area `signers` (C06): VerifyEventSignatures against a scripted verifier.

   ops:
     verify <ver> <hex id>:<hex json> <script>   -> ok | rej | panic:…          (+ specification)
     trace  <ver> <hex id>:<hex json> <script>   -> asked:<sorted requests "hexserver@ts/strict/redacted"> | none | -
     member_reading <ver> <hex id>:<hex json>    -> m=<hex membership>,via=<hex authoriser> | err   (+ specification)
       what NewMemberContentFromEvent — the reading of the auth rules — takes for the membership and the authoriser
       of a restricted join, against what the content says under the exact member names
   script = "<hexserver>=<0|1>,...;<default 0|1>;<verifier error 0|1>"
-/
import VDriver.Util
import VModel.Signers
namespace V.Driver.SignersOps
open V V.Json V.Driver V.Signers

def parseEvArg (ver : Bytes) (arg : String) : Option Event :=
  match arg.splitOn ":" with
  | [idh, jsh] =>
    match unhex idh, unhex jsh with
    | some id, some js =>
      match parse js with
      | some p => match p.toJVal with
        | .obj kvs => some { ver := ver, eventID := id, obj := kvs }
        | _ => none
      | none => none
    | _, _ => none
  | _ => none

structure Script where
  table : List (Bytes × Bool)
  dflt : Bool
  verr : Bool
  self : List (Bytes × Bool) := []   -- pseudo-ID version: names whose own key validly signed the event

def parseTable (t : String) : Option (List (Bytes × Bool)) :=
  if t == "-" || t == "" then some [] else
  (t.splitOn ",").mapM (fun e =>
    match e.splitOn "=" with
    | [h, b] => (unhex h).map (fun x => (x, b == "1"))
    | _ => none)

def parseScript (s : String) : Option Script :=
  match s.splitOn ";" with
  | [t, d, v] => (parseTable t).map (fun es => ⟨es, d == "1", v == "1", []⟩)
  | [t, d, v, sf] =>
    match parseTable t, parseTable sf with
    | some es, some ss => some ⟨es, d == "1", v == "1", ss⟩
    | _, _ => none
  | _ => none

def Script.selfValid (sc : Script) (name : Bytes) : Bool :=
  match sc.self.find? (fun e => e.1 == name) with
  | some e => e.2
  | none => false

/-- server part of a user ID (specification side of the pseudo-ID clause) -/
def userServer (u : Bytes) : Option Bytes := Spec.serverOf 0x40 u

def Script.valid (sc : Script) (server : Bytes) : Bool :=
  match sc.table.find? (fun e => e.1 == server) with
  | some e => e.2
  | none => sc.dflt

def insertSorted (x : String) : List String → List String
  | [] => [x]
  | y :: ys => if x < y then x :: y :: ys else if x == y then y :: ys else y :: insertSorted x ys

def sortDedup (xs : List String) : List String := xs.foldr insertSorted []

def showReqs (rs : List (Bytes × Nat × Bool)) : String :=
  if rs.isEmpty then "-" else
  "asked:" ++ String.intercalate "," (sortDedup (rs.map (fun r => hex r.1 ++ "@" ++ toString r.2.1 ++ "/" ++ (if r.2.2 then "s1" else "s0") ++ "/r1")))

/-- the standard `userIDForSender`: `spec.NewUserID(sender, true)`; outer `none` = not modelled -/
def senderDomain (e : Event) : Option (Except Err (Option Bytes)) :=
  match parseUserID? e.sender with
  | none => none
  | some none => some (.error (errRej "sender"))
  | some (some u) => some (.ok (some u.domain))

def showReading (r : MemberReading) : String := "m=" ++ hex r.membership ++ ",via=" ++ hex r.authorisedVia

def handleOne (op : String) (args : Array String) : Option String :=
  match op, args.toList with
  | "member_reading", [ver, ev] =>
    let v := strBytes ver
    match parseEvArg v ev with
    | none => some "bad-op"
    | some e =>
      match memberContent e.content with
      | none => some "err\tunspecified:ill-typed member content"
      | some r =>
        let s := match Spec.memberReading e.content with
          | some r' => showReading r'
          | none => "unspecified:duplicate member name"
        some (showReading r ++ "\t" ++ s)
  | opn, [ver, ev, script] =>
    if opn != "verify" && opn != "trace" then none else
    let v := strBytes ver
    match versionRow? v, parseEvArg v ev, parseScript script with
    | some row, some e, some sc =>
      if v == pseudoIDVersion then
        let r := verifyPseudo row e (fun q => sc.valid q.server) sc.verr sc.selfValid
        if opn == "verify" then
          let m := match r.verdict with
            | .ok _ => "ok"
            | .error (.panic s) => "panic:" ++ s
            | .error _ => "rej"
          -- the property's clause "the sender's server validly signed": in a pseudo-ID room the server that
          -- vouches for the sender is the server of mxid_mapping.user_id, over the mapping of a join
          -- … and that mapping must be the SENDER's: `user_room_key` is the key that sent (and self-signed) the event
          -- — a mapping for another key vouches for nothing here (K3).  The sender's own key must have signed.
          let s := if !sc.selfValid e.sender then "rej" else
            match membership e, getMXIDMapping e with
            | .ok mem, .ok mp =>
              if e.type == b!"m.room.member" && mem == b!"join" then
                if mp.userRoomKey != e.sender then "rej" else
                match userServer mp.userID with
                | some srv => if mp.servers.contains srv && sc.valid srv && !sc.verr then "unspecified:pseudo-id" else "rej"
                | none => "rej"
              else "unspecified:pseudo-id"
            | _, _ => "unspecified:pseudo-id"
          some (m ++ "\t" ++ s)
        else
          some (match r.asked with
            | none => "none"
            | some l => if l.isEmpty then "-" else
              "asked:" ++ String.intercalate "," (sortDedup (l.map (fun x => hex x ++ "@" ++ toString e.originServerTS ++ "/" ++ (if strictValidity row then "s1" else "s0") ++ "/r0"))))
      else match senderDomain e with
      | none => some "skip:sender domain is an IPv6 literal (server-name validation: C17)"
      | some sd =>
        let specSender : Option Bytes := match sd with
          | .ok (some d) => some d
          | _ => none
        let req := Spec.required ver e specSender
        if opn == "verify" then
          let m := match verifyEventSignatures row e sd (fun r => sc.valid r.server) sc.verr with
            | .ok _ => "ok"
            | .error (.panic s) => "panic:" ++ s
            | .error _ => "rej"
          let s := match req with
            | .unspecified => "unspecified:membership unreadable or member name repeated"
            | .undeterminable => "rej"
            | .servers l => if sc.verr then "unspecified:verifier-error" else if l.all sc.valid then "ok" else "rej"
          some (m ++ "\t" ++ s)
        else
          let m := match requests row e sd with
            | .ok rs => showReqs (rs.map (fun r => (r.server, r.ts, r.strict)))
            | .error (.panic s) => "panic:" ++ s
            | .error _ => "none"
          let s := match req with
            | .servers l => showReqs (l.map (fun x => (x, e.originServerTS, Spec.strictFrom5 ver)))
            | _ => "unspecified:no-required-set"
          some (m ++ "\t" ++ s)
    | _, _, _ => some "bad-op"
  | _, _ => none

/-- `verify_all <ver> <ev|ev|…> <script>`: `VerifyAllEventSignatures` is `VerifyEventSignatures` event by event — model and
    specification columns are the per-event answers of `verify`, joined; one event outside the model / the quantifier puts
    the whole op outside. -/
def handle (op : String) (args : Array String) : Option String :=
  match op, args.toList with
  | "verify_all", [ver, evs, script] =>
    let rs := (evs.splitOn "|").map (fun ev => handleOne "verify" #[ver, ev, script])
    if rs.any (fun r => r.isNone) then some "bad-op" else
    let cols := rs.map (fun r => (r.getD "").splitOn "\t")
    let ms := cols.map (fun c => c.headD "")
    let ss := cols.map (fun c => (c.drop 1).headD "")
    if ms.any (fun m => m == "bad-op") then some "bad-op" else
    match ms.find? (fun m => m.startsWith "skip") with
    | some m => some m
    | none =>
      let m := String.intercalate "," ms
      match ss.find? (fun s => s.startsWith "unspecified") with
      | some u => some (m ++ "\t" ++ u)
      | none => some (m ++ "\t" ++ String.intercalate "," ss)
  | _, _ => handleOne op args

end V.Driver.SignersOps
