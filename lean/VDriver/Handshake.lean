/- Driver handlers for area `handshake` (C15).

   The op line carries the request parameters, the oracle answers and the concrete events of the
   scenario; the event-shape facts of the abstract records (state key, sender, membership, authorised-via,
   join rules, power levels, creators, joined users) are read off the concrete events here with the
   accessor models of VModel.Event / VModel.Auth, the same way the Go accessors read them.

   handshake.sendjoin  ver cls ev evType roomID reqEventID origin local senderQ verify cur
       ver         room version of the request (unknown versions are generated too)
       cls         what NewEventFromUntrustedJSON makes of the body: o (clean) / p (too large but persistable: refused here) / x (unparseable)
       ev          <hex event ID>:<hex JSON> as the library reads it back ("-" for class x); a received event may already
                   carry an entry under (local server, local key ID) in `signatures` — planted, never the local server's
       evType      hex of the event's `type` as `PDU.Type()` reports it ("-" = the empty type, and for class x).  The harness
                   refuses the op (`err:construct:type`) unless the library's accessor says the same, the driver (`bad-op`)
                   unless the accessor model does.  C15's "it is a join" is about THIS: only `m.room.member` is a join.
       roomID, reqEventID   hex, the request path       origin, local   requesting / local server name
       senderQ     UserIDQuerier ok / err
       verify      the caller's verifier, asked whether ORIGIN validly signed the redacted event at the event's timestamp:
                   good / bad / err (any other question — other name, message or time — is answered "bad" by the harness mock)
       cur         MembershipQuerier.CurrentMembership: "err" | "m:<membership>"
     outcome: err:<class> | ok:aj=<AlreadyJoined>:sig=<1 iff the returned event carries a signature under (local, key ID) that
     VERIFIES with the real local public key over its redacted form>:unmod=<1 iff it equals the received event apart from that
     one slot and `unsigned`>:signer=<local>.  The specification stream demands `sig=1:unmod=1` of everything returned.
   handshake.makejoin  ver remoteVers userID origin local inRoom roomID jr pending pl create rooms tmode tstate
   handshake.makeleave ver userID origin inRoom roomID tmode tstate
   handshake.invite    ver ev roomID invitedUser senderQ verify known stripped stateq cur
   handshake.invitev3  ver roomID protoRoom protoType membership sender big known stripped stateq cur
       the proto event handed to HandleInviteV3: type `protoType` ("-" = empty), content {"membership": <membership>} — or
       "~missing" ({}), "~num" ({"membership":5}), "~null" ({"membership":null}), "~notobject" (content is the text 5);
       sender ok/err = GetOrCreateSenderID; big = content padded beyond the size limit.  outcome: err:<class> |
       ok:sig=<the invited user's room key validly signed the built event>:shape=<type, state key = invited sender ID, room,
       membership, sender as in the proto event>:stripped=<n>.  specification stream: `Spec.inviteV3Guards`.
   handshake.performjoin … (see below)
   handshake.perform_invite, handshake.sendjoin_pseudo: see VDriver/HandshakeInvite.lean

   Round 5:
     * `senderQ` of sendjoin / invite / sendjoin_pseudo has the value "nil": the user-ID querier answers (nil, nil).
     * handshake.invite has an optional 11th argument `inputSID` = what the caller puts into input.InvitedSenderID:
       "same" (the invited user's ID; default) | "empty" | "target" (the event's state key).  `cur` is the membership of the
       invite's TARGET — the event's state key; every other sender ID of the room is not joined ("leave").
     * handshake.invitev3 has an optional 12th argument `inputSID`: "same" (the ID GetOrCreateSenderID returns; default) |
       "empty" | "other".  `cur` is the membership of the ID GetOrCreateSenderID returns; every other ID is not joined.
     * handshake.performjoin_adopt ver pool auth state joinAuth roomID rclass instate admin
         a well-formed exchange in which the resident server puts `rclass` into the "event" member of its send_join response
         (classes: harness/area_handshake.go, hsRemoteJoinClasses); instate = 1: the presented state lists the join we sent.
         outcome: err:<stage> | ok:join=<the returned event is an m.room.member join of the joiner for the room>:oursig=<it
         carries a signature of the joining server that VERIFIES>:same=<event ID of the one sent>:sigs=<names>:red=<Redacted()>
         :n=<auth>/<state>.  The specification stream demands join=1:oursig=1 of everything returned.
     * handshake.performjoin_bodies mjbody sjbody: PerformJoin on hostile response bodies; outcome `nopanic` (C18).
     * handshake.performjoin_pseudo: see VDriver/HandshakeInvite.lean
-/
import VDriver.Util
import VDriver.Auth
import VDriver.Fedcheck
import VModel.Handshake
import VModel.HandshakeSpec
import VModel.FedCheckInst
import VDriver.HandshakeInvite
namespace V.Driver.HandshakeOps
open V V.Json V.GoJson V.Driver V.Handshake V.Driver.AuthOps

def showHErr : HErr → String
  | .matrix c => "err:" ++ c
  | .internal => "err:internal"
  | .other => "err:other"

/-- `event.Membership()`: decode of `struct{ Membership string }`, then the state-key check -/
def membershipOf (e : Event) : Option Bytes :=
  let m : Option Bytes := match e.content with
    | none => none
    | some .null => some []
    | some (.obj kvs) =>
      let d := decString (lookupExact kvs b!"membership")
      if d.err then none else some d.val
    | some _ => none
  match m with
  | none => none
  | some v => if e.stateKey.isNone then none else some v

/-- `json.Unmarshal(content, &MemberContent{})` succeeds, and the authorised-via it yields -/
def memberContentOf (e : Event) : Bool × Bytes :=
  match e.content with
  | none => (false, [])
  | some .null => (true, [])
  | some (.obj kvs) =>
    let m := decString (lookupExact kvs b!"membership")
    let dn := decString (lookupExact kvs b!"displayname")
    let av := decString (lookupExact kvs b!"avatar_url")
    let rs := decString (lookupExact kvs b!"reason")
    let isd := decBool false (lookupExact kvs b!"is_direct")
    let tp := Auth.decodeThirdParty (lookupExact kvs b!"third_party_invite")
    let via := decString (lookupExact kvs b!"join_authorised_via_users_server")
    let mm := (Auth.decodeMxidMapping (lookupExact kvs b!"mxid_mapping")).1
    (!(m.err || dn.err || av.err || rs.err || isd.err || tp.err || via.err || mm.err), via.val)
  | some _ => (false, [])

/-- the standard `spec.NewUserID(id, true)` as an oracle: `none` = invalid -/
def userIDOracle : UserIDOracle := fun id =>
  match parseUserID? id with
  | some (some u) => some u.domain
  | _ => none

/-- the user-ID querier's answer: scripted error / (nil, nil), else what the standard querier makes of the sender -/
def senderAns (senderQ : String) (std : Option Bytes) : SenderAns :=
  if senderQ == "err" then .err else if senderQ == "nil" then .nil
  else match std with
    | some d => .dom d
    | none => .err

def parseVerify (s : String) : VerifyAns :=
  if s == "err" then .callErr else if s == "bad" then .bad else .good

def parseCur (s : String) : Option Bytes :=
  if s == "err" then none else some (strBytes (s.drop 2).toString)

def unhexD (s : String) : Bytes := (unhex s).getD []

def knownVersion (v : Bytes) : Bool := (versionRow? v).isSome

/-- `json.Unmarshal(content, &JoinRuleContent{})` -/
def decodeJoinRules (c : Option JVal) : Option JoinRules :=
  match c with
  | none => none
  | some .null => some { rule := [], allow := [] }
  | some (.obj kvs) =>
    let jr := decString (lookupExact kvs b!"join_rule")
    let allow : Dec (List AllowRule) := match lookupField kvs b!"allow" with
      | none => ⟨[], false⟩
      | some .null => ⟨[], false⟩
      | some (.arr xs) =>
        let ds := xs.map (fun x => match x with
          | .null => ((⟨[], []⟩ : AllowRule), false)
          | .obj a =>
            let t := decString (lookupField a b!"type"); let r := decString (lookupField a b!"room_id")
            (⟨t.val, r.val⟩, t.err || r.err)
          | _ => (⟨[], []⟩, true))
        ⟨ds.map (·.1), ds.any (·.2)⟩
      | some _ => ⟨[], true⟩
    if jr.err || allow.err then none else some { rule := jr.val, allow := allow.val }
  | some _ => none

/-- spec.NewRoomID for the room IDs the generator uses ("!local:domain" shape or 43-char domainless) -/
def roomIDValid (id : Bytes) : Bool :=
  match id with
  | 0x21 :: rest =>
    match cutAt 0x3A rest with
    | some (l, d) => !l.isEmpty && (serverNameValid? d == some true) && id.length ≤ 255
    | none => rest.length == 43 && rest.all (fun c => isDNSNameChar c && c != 0x2E || c == 0x5F)
  | _ => false

def qEvent (ver : Bytes) (s : String) : QAns (Option Event) :=
  if s == "err" then .err else if s == "nil" then .ans none
  else match parseEvArg ver s with
    | some e => .ans (some e)
    | none => .err

def evList (ver : Bytes) (s : String) : List Event :=
  (FedcheckOps.splitList s ",").filterMap (parseEvArg ver)

/-- the event the harness's template builder makes of the proto event -/
def templateEvent (ver : Bytes) (type sender roomID : Bytes) (membership via : Bytes) : Event :=
  let content : List (Bytes × JVal) :=
    [(b!"membership", .str membership)] ++ (if via.isEmpty then [] else [(b!"join_authorised_via_users_server", .str via)])
  { ver := ver, eventID := b!"$template:hs1",
    obj := [(b!"type", .str type), (b!"sender", .str sender), (b!"room_id", .str roomID), (b!"state_key", .str sender),
            (b!"content", .obj content), (b!"depth", .num b!"10"), (b!"origin_server_ts", .num b!"1"),
            (b!"prev_events", .arr (if ((versionRow? ver).map (·.eventFormat)).getD 2 == 1
                then [.arr [.str b!"$prev:hs1", .obj [(b!"sha256", .str b!"47DEQpj8HBSa+/TImW+5JCeuQeRkm5NMpJWZG3hSuFU")]]]
                else [.str b!"$prev:hs1"])),
            (b!"auth_events", .arr [])] }

def templateAns (ver : Bytes) (tmode : String) (state : List Event) (sender roomID membership : Bytes) : Bytes → TemplateAns := fun via =>
  if tmode == "err" then .err else if tmode == "nilev" then .nilEvent else if tmode == "nilstate" then .nilState
  else
    let ty := if tmode == "wrongtype" then b!"m.room.message" else b!"m.room.member"
    let ev := templateEvent ver ty sender roomID membership via
    let stateOK := state.all (fun e => e.stateKey.isSome)
    let allowed := Auth.allowedFresh ev (Auth.Provider.ofEvents state) == .ok
    .built ty stateOK allowed

/-- the join event PerformJoin builds from the make_join template (origin_server_ts and hence the event ID
    depend on the clock: neither enters the checks) -/
def builtJoinEvent (ver : Bytes) (fmt1 : Bool) (joiner roomID : Bytes) (authIDs : List Bytes) : Event :=
  let refs (ids : List Bytes) : JVal := .arr (ids.map (fun id =>
    if fmt1 then .arr [.str id, .obj [(b!"sha256", .str b!"47DEQpj8HBSa+/TImW+5JCeuQeRkm5NMpJWZG3hSuFU")]] else .str id))
  { ver := ver, eventID := b!"$built",
    obj := [(b!"type", .str b!"m.room.member"), (b!"sender", .str joiner), (b!"room_id", .str roomID), (b!"state_key", .str joiner),
            (b!"content", .obj [(b!"displayname", .str b!"n"), (b!"membership", .str b!"join")]),
            (b!"depth", .num b!"20"), (b!"origin_server_ts", .num b!"1"),
            (b!"prev_events", refs [b!"$prev:hs1"]), (b!"auth_events", refs authIDs)] }

/-- the facts PerformJoin reads off the remote's copy of the join event -/
def remoteJoinOf (e : Event) (sigOK : Bool) : RemoteJoin :=
  { ev := e, type := e.type, sender := e.sender, membership := membershipOf e, roomID := e.roomID, stateKey := e.stateKey,
    sigOK := sigOK }

/-- `checkEventsContainCreateEvent` on the (untrusted) auth events of the response -/
def createFound (A : List Event) : CreateFound :=
  match A.find? (fun e => e.type == b!"m.room.create" && e.stateKey == some []) with
  | none => .missing
  | some ce =>
    match ce.content with
    | none => .undecodable
    | some .null => .version []
    | some (.obj kvs) =>
      let d := decString (lookupField kvs b!"room_version")
      if d.err then .undecodable else .version d.val
    | some _ => .undecodable

/-- set / replace a top-level member of an event -/
def setMember (e : Event) (k : Bytes) (v : JVal) : Event :=
  { e with obj := e.obj.filter (fun kv => kv.1 != k) ++ [(k, v)] }

/-- The look-alike of the resident server's copy of the join event, per class (harness: hsRemoteJoinClasses), made from the
    look-alike of the event we sent; with it whether VerifyEventSignatures accepts the copy — it does exactly when the copy
    still carries our signature and its redacted form is that of an event we signed (the echo classes, the redacted form,
    the replayed earlier join) — and what the harness will measure on the event if PerformJoin returns it:
    (same event ID as the one sent, signature names, Redacted()). -/
def remoteClass (built : Event) (cls : String) (instate : Bool) (admin : Bytes) : Option (RemoteJoin × String) :=
  let member (content : List (Bytes × JVal)) : Event := setMember built b!"content" (.obj content)
  let join (dn : String) : List (Bytes × JVal) := [(b!"displayname", .str (strBytes dn)), (b!"membership", .str b!"join")]
  if cls == "none" || cls == "x" then none
  else if cls == "echo" then some (remoteJoinOf built true, "same=1:sigs=hs5:red=0")
  else if cls == "echo-sig" || cls == "echo-unsigned" then some (remoteJoinOf built true, "same=1:sigs=hs1,hs5:red=0")
  else if cls == "echo-nosig" then some (remoteJoinOf built false, "same=1:sigs=hs1:red=0")
  else if cls == "redacted" then some (remoteJoinOf (member [(b!"membership", .str b!"join")]) true, "same=1:sigs=hs1,hs5:red=1")
  else if cls == "replay" then
    some (remoteJoinOf { member (join "earlier") with eventID := b!"$replayed" } true, "same=0:sigs=hs5:red=0")
  else if cls == "custom" then
    -- (with `instate` the copy cites our join as the sender's membership; the auth events do not enter the decision)
    let e := setMember (member [(b!"membership", .str b!"join")]) b!"type" (.str b!"x.custom")
    let _ := instate
    some (remoteJoinOf { e with eventID := b!"$custom" } false, "same=0:sigs=hs1:red=0")
  else if cls == "forged-content" then
    some (remoteJoinOf { member (join "chosen by the resident server") with eventID := b!"$forged" } false, "same=0:sigs=hs1:red=0")
  else if cls == "forged-stale" then
    some (remoteJoinOf { member (join "chosen by the resident server") with eventID := b!"$forged" } false, "same=0:sigs=hs1,hs5:red=0")
  else if cls == "forged-auth" then
    some (remoteJoinOf { setMember built b!"auth_events" (.arr []) with eventID := b!"$forged" } false, "same=0:sigs=hs1:red=0")
  else if cls == "other-sender" then
    -- validly signed by the admin's server — but not sent by the joiner
    some (remoteJoinOf { setMember (member [(b!"membership", .str b!"join")]) b!"sender" (.str admin) with eventID := b!"$other" } true,
          "same=0:sigs=hs1:red=0")
  else if cls == "leave" then
    some (remoteJoinOf { member [(b!"membership", .str b!"leave")] with eventID := b!"$leave" } false, "same=0:sigs=hs1:red=0")
  else none

def showSigned (aj : Option Bool) (s : Signed) : String :=
  "ok" ++ (match aj with | some b => ":aj=" ++ (if b then "1" else "0") | none => "") ++ ":sig=1:unmod=1:signer=" ++ bytesStr s.signer

/-- what the property demands of a response of HandleSendJoin, written without reference to the model's answer:
    "whatever they return additionally carries a valid signature of the local server over the unmodified event"
    (`sig=1`: the harness verified the entry under (local server, key ID) with the real local key; `unmod=1`: nothing
    else changed), and AlreadyJoined says whether the user is joined. -/
def demandedSendJoin (i : SendJoinIn) : String :=
  "ok:aj=" ++ (if i.curMembership == some b!"join" then "1" else "0") ++ ":sig=1:unmod=1:signer=" ++ bytesStr i.localServer

/-- specification stream of the two send_join ops: a refusal where the guards fail; where they hold and the handler
    answers, the answer must be `demandedSendJoin`; a refusal on passing guards (querier / verifier failures, undecodable
    content) is compared with the model only through the model's own class. -/
def withSpecSendJoin (m : String) (guards : Bool) (i : SendJoinIn) : String :=
  if !guards then (if m.startsWith "err" then m ++ "\t" ++ m else m ++ "\t" ++ "err:must-reject")
  else if m.startsWith "err" then m ++ "\t" ++ m
  else m ++ "\t" ++ demandedSendJoin i

/-- combine the model outcome with the property's guard predicate into the specification stream:
    where the guards fail the property demands a refusal -/
def withSpec (m : String) (guards : Bool) : String :=
  if guards then m ++ "\t" ++ m
  else if m.startsWith "err" then m ++ "\t" ++ m
  else m ++ "\t" ++ "err:must-reject"

def handle (op : String) (args : Array String) : Option String :=
  match op, args.toList with
  | "sendjoin", [ver, cls, ev, evType, roomID, reqEventID, origin, localS, senderQ, verify, cur] =>
    let v := strBytes ver
    if v == b!"org.matrix.msc4014" then some "skip:pseudo-id version" else
    let known := knownVersion v
    let e : Event := if cls == "o" || cls == "p" then (parseEvArg v ev).getD default else default
    if e.type != unhexD evType then some "bad-op" else
    let (dec, via) := memberContentOf e
    let i : SendJoinIn := {
      versionKnown := known, parses := cls == "o", evType := e.type,
      stateKey := e.stateKey, sender := e.sender, eventRoomID := e.roomID, eventID := e.eventID,
      membership := membershipOf e, contentDecodes := dec, authorisedVia := via,
      roomID := unhexD roomID, reqEventID := unhexD reqEventID, requestOrigin := strBytes origin,
      localServer := strBytes localS, keyID := b!"ed25519:k1",
      senderDomain := senderAns senderQ (userIDOracle e.sender),
      verify := parseVerify verify, curMembership := parseCur cur, userID := userIDOracle }
    let m := match handleSendJoin i with
      | .ok o => showSigned (some o.alreadyJoined) o.sig
      | .error er => showHErr er
    some (withSpecSendJoin m (Spec.sendJoinGuards i) i)
  | "makejoin", [ver, remoteVers, userID, origin, _localS, inRoom, roomID, jr, pending, pl, create, rooms, tmode, tstate] =>
    let v := strBytes ver
    match versionRow? v with
    | none => some "skip:unknown room version (MustGetRoomVersion precondition)"
    | some row =>
      let user := strBytes userID
      let jrAns : QAns (Option (Option JoinRules)) := match qEvent v jr with
        | .err => .err
        | .ans none => .ans none
        | .ans (some e) => .ans (some (decodeJoinRules e.content))
      let plAns : QAns (Option (Option PL)) := match qEvent v pl with
        | .err => .err
        | .ans none => .ans none
        | .ans (some e) =>
          if !e.stateKeyEquals [] then .ans (some none) else
          match Auth.powerLevelsFromEvent e with
          | .ok p => .ans (some (some { userLevel := p.userLevel, invite := p.invite }))
          | .error _ => .ans (some none)
      let crAns : QAns (Option (List Bytes)) := match qEvent v create with
        | .err => .err
        | .ans none => .ans none
        | .ans (some e) => .ans (some (e.sender :: ((Auth.decodeCreateContent e.content).map (·.additionalCreators)).getD []))
      let roomTbl : List (Bytes × QAns (Option RoomInfo)) := (FedcheckOps.splitList rooms "|").filterMap (fun ent =>
        match ent.splitOn ";" with
        | [rid, st, users] =>
          let a : QAns (Option RoomInfo) :=
            if st == "err" then .err else if st == "nil" then .ans none
            else
              let cs := st.toList
              .ans (some { localServerInRoom := cs[0]! == '1', userJoinedToRoom := cs[1]! == '1',
                           joinedUsers := (evList v users).map (fun e => { type := e.type, stateKey := e.stateKey }) })
          some (unhexD rid, a)
        | _ => none)
      let q : RestrictedQ := {
        joinRules := jrAns,
        invitePending := if pending == "err" then .err else .ans (pending == "1"),
        powerLevels := plAns, create := crAns, roomIDValid := roomIDValid,
        roomInfo := fun r => (roomTbl.lookup r).getD (.ans none) }
      let state := evList v tstate
      let i : MakeJoinIn := {
        roomVersion := v, remoteVersions := (FedcheckOps.splitList remoteVers ",").map strBytes,
        userDomain := (userIDOracle user).getD [], requestOrigin := strBytes origin,
        localServerInRoom := inRoom == "1",
        restrictedVersion := row.checkRestrictedJoin == "checkRestrictedJoin",
        privilegedCreators := row.privilegedCreators, q := q,
        template := templateAns v tmode state user (unhexD roomID) b!"join" }
      let m := match handleMakeJoin i with
        | .ok o => "ok:via=" ++ bytesStr o.authorisedVia
        | .error er => showHErr er
      some (withSpec m (Spec.makeJoinGuards i))
  | "makeleave", [ver, userID, origin, inRoom, roomID, tmode, tstate] =>
    let v := strBytes ver
    let user := strBytes userID
    let i : MakeLeaveIn := {
      roomVersion := v, userDomain := (userIDOracle user).getD [], requestOrigin := strBytes origin,
      localServerInRoom := inRoom == "1",
      template := templateAns v tmode (evList v tstate) user (unhexD roomID) b!"leave" [] }
    let m := match handleMakeLeave i with
      | .ok _ => "ok"
      | .error er => showHErr er
    some (withSpec m (Spec.makeLeaveGuards i))
  | "invite", ver :: ev :: roomID :: invitedUser :: senderQ :: verify :: known :: stripped :: stateq :: cur :: optSID =>
    let inputSID := optSID.headD "same"
    if optSID.length > 1 then none else
    let v := strBytes ver
    if v == b!"org.matrix.msc4014" then some "skip:pseudo-id version" else
    -- the event was built for version `evver` = ver when known, else "10"
    let ever := if knownVersion v then v else b!"10"
    let e : Event := (parseEvArg ever ev).getD default
    let i : InviteIn := {
      versionKnown := knownVersion v, eventRoomID := e.roomID, roomID := unhexD roomID,
      senderDomain := senderAns senderQ (userIDOracle e.sender),
      verify := parseVerify verify,
      invitedUserDomain := (userIDOracle (strBytes invitedUser)).getD [], keyID := b!"ed25519:k1",
      invitedUserID := strBytes invitedUser,
      invitedSenderID := if inputSID == "empty" then [] else if inputSID == "target" then e.stateKey.getD (strBytes invitedUser)
                         else strBytes invitedUser,
      knownRoom := if known == "err" then .err else .ans (known == "1"),
      strippedGiven := stripped.toNat!,
      stateQuery := if stateq == "err" then .err else .ans stateq.toNat!,
      -- the scripted membership is the TARGET's (the event's state key); everybody else is not joined
      membershipOf := fun id => if cur == "err" then none
                                else if id == e.stateKey.getD (strBytes invitedUser) then parseCur cur else some b!"leave",
      eventType := e.type, membership := membershipOf e, stateKey := e.stateKey }
    let m := match handleInvite i with
      | .ok o => showSigned none o.sig ++ ":stripped=" ++ toString o.strippedLen
      | .error er => showHErr er
    some (withSpec m (Spec.inviteGuards i))
  | "invitev3", ver :: roomID :: protoRoom :: ptype :: membership :: sender :: big :: known :: stripped :: stateq :: cur :: optSID =>
    let inputSID := optSID.headD "same"
    if optSID.length > 1 then none else
    let v := strBytes ver
    let created : Bytes := b!"invitee-room-key"
    let common : InviteIn := {
      versionKnown := knownVersion v, eventRoomID := unhexD protoRoom, roomID := unhexD roomID,
      senderDomain := .err, verify := .good, invitedUserDomain := b!"hs1", keyID := b!"ed25519:k1",
      invitedUserID := b!"@alice:hs1",
      -- input.InvitedSenderID: the ID GetOrCreateSenderID will return, nothing, or somebody else's
      invitedSenderID := if inputSID == "empty" then [] else if inputSID == "other" then b!"somebody-else-room-key" else created,
      knownRoom := if known == "err" then .err else .ans (known == "1"),
      strippedGiven := stripped.toNat!,
      stateQuery := if stateq == "err" then .err else .ans stateq.toNat!,
      -- the scripted membership is that of the ID GetOrCreateSenderID returns; everybody else is not joined
      membershipOf := fun id => if cur == "err" then none else if id == created then parseCur cur else some b!"leave",
      eventType := [], membership := none, stateKey := none }
    let i : InviteV3In := {
      common := common, protoRoomID := unhexD protoRoom,
      protoType := if ptype == "-" then [] else strBytes ptype,
      -- the proto event's content: {"membership": <string>} | "~missing" {} | "~num" {"membership":5} | "~null" {"membership":null}
      -- | "~notobject" (the content is the JSON text 5) | "~variant" {"Membership":"invite"} (the name under another
      -- spelling only: no member named exactly `membership`) | "~variantafter" {"membership":"leave","memberſhip":"invite"}
      -- | "~variantbefore" {"Membership":"leave","membership":"invite"}
      protoMembership :=
        if membership == "~missing" || membership == "~null" || membership == "~variant" then some []
        else if membership == "~num" || membership == "~notobject" then none
        else if membership == "~variantafter" then some b!"leave"
        else if membership == "~variantbefore" then some b!"invite"
        else some (strBytes membership),
      invitedSenderID := if sender == "err" then none else some created,
      -- Build succeeds exactly for the pseudo-ID version (elsewhere the sender, a bare key, fails the
      -- user-ID field check) and for events within the size limit
      buildOK := v == b!"org.matrix.msc4014" && big == "0" }
    let m := match handleInviteV3 i with
      | .ok o => "ok:sig=1:shape=1:stripped=" ++ toString o.strippedLen
      | .error er => showHErr er
    -- specification stream: a proto event that is not an invite (for the room of the request, for a user not already
    -- joined) must be refused
    some (withSpec m (Spec.inviteV3Guards i))
  | "performjoin", [ver, mjmode, mjver, pool, auth, state, badsig, prov, sjmode, remote, joinAuth, roomID] =>
    let v := strBytes ver
    if v == b!"org.matrix.msc4014" || mjver == "org.matrix.msc4014" then some "skip:pseudo-id version" else
    match parseEvArgs v (FedcheckOps.splitList pool ",") with
    | none => some "bad-op"
    | some es =>
      let env : FedcheckOps.Env := { pool := es.toArray }
      let fmt1 := ((versionRow? v).map (·.eventFormat)).getD 2 == 1
      let authIdx := FedcheckOps.natList joinAuth
      let resolved : Bytes := if mjver == "" || mjver == "-" then (if authIdx.isEmpty || fmt1 then b!"1" else b!"4") else strBytes mjver
      if knownVersion resolved && resolved != v then some "skip:make_join version differs from the events' version" else
      let O := FedCheck.authOracles ((env.evs (FedcheckOps.natList badsig)).map (·.eventID))
      let p := FedcheckOps.parseProv env prov
      let A := FedcheckOps.parseEntries env auth; let S := FedcheckOps.parseEntries env state
      let rid := unhexD roomID
      let joiner := b!"@newcomer:hs5"
      let built : Event := builtJoinEvent v fmt1 joiner rid ((env.evs authIdx).map (·.eventID))
      -- the remote's copy, when it parses cleanly; the joiner's server validly signed it iff the signature oracle says so
      let remoteEv : Option RemoteJoin :=
        match (FedcheckOps.parseEntries env remote) with
        | [.ok e] => some (remoteJoinOf e (O.sigOk e))
        | _ => none
      let create : CreateFound := createFound (FedCheck.untrusted A)
      let i : PerformJoinIn Auth.Provider := {
        makeJoinOK := mjmode != "err", versionKnown := knownVersion resolved, buildOK := true, sendJoinOK := sjmode != "err",
        built := built, roomID := rid, senderID := joiner, pseudoIDs := false, remote := remoteEv,
        create := create, knownVersion := knownVersion,
        O := O, prov := p, fuel := FedcheckOps.caFuel, auth := A, state := S }
      let used := if (remoteEv.map (adoptsRemote i)).getD false then "remote" else "built"
      let m := match performJoin i with
        | .ok (some o) => "ok:" ++ used ++ ":" ++ env.showEvs o.auth ++ "|" ++ env.showEvs o.state
        | .ok none => "diverge"
        | .error .makeJoinFailed => "err:make_join"
        | .error .unknownVersion => "err:version"
        | .error .buildFailed => "err:build"
        | .error .sendJoinFailed => "err:send_join"
        | .error .noCreate => "err:no-create"
        | .error .checkFailed => "err:check"
      -- C15: "returns a join only if the remote's state passes the federation-response checks and contains a
      -- create event of a known room version"
      let ev := joinEventUsed i
      let contractOK := FedCheck.Spec.provOKOn p (FedcheckOps.idsInPlay (ev :: FedCheck.untrusted A ++ FedCheck.untrusted S))
      if !contractOK then some (m ++ "\tunspecified:provider-contract") else
      let guards := checkCreate knownVersion create &&
        (FedCheck.Spec.sendJoin O p (FedCheck.untrusted A) (FedCheck.untrusted S) ev).isSome
      some (withSpec m guards)
  | "performjoin_adopt", [ver, pool, auth, state, joinAuth, roomID, rclass, instate, admin] =>
    let v := strBytes ver
    match parseEvArgs v (FedcheckOps.splitList pool ",") with
    | none => some "bad-op"
    | some es =>
      let env : FedcheckOps.Env := { pool := es.toArray }
      let fmt1 := ((versionRow? v).map (·.eventFormat)).getD 2 == 1
      let O := FedCheck.authOracles []
      let rid := unhexD roomID
      let joiner := b!"@newcomer:hs5"
      let built : Event := builtJoinEvent v fmt1 joiner rid ((env.evs (FedcheckOps.natList joinAuth)).map (·.eventID))
      let A := FedcheckOps.parseEntries env auth
      -- instate: the state of the response lists the join event that was sent
      let S := FedcheckOps.parseEntries env state ++ (if instate == "1" then [.ok built] else [])
      let rc := remoteClass built rclass (instate == "1") (strBytes admin)
      let i : PerformJoinIn Auth.Provider := {
        makeJoinOK := true, versionKnown := knownVersion v, buildOK := true, sendJoinOK := true,
        built := built, roomID := rid, senderID := joiner, pseudoIDs := false, remote := rc.map (·.1),
        create := createFound (FedCheck.untrusted A), knownVersion := knownVersion,
        O := O, prov := none, fuel := FedcheckOps.caFuel, auth := A, state := S }
      let adopted := (i.remote.map (adoptsRemote i)).getD false
      let m := match performJoin i with
        | .ok (some o) =>
          -- what the harness measures on the returned event: ours (a join, our signature, the ID sent, signed by hs5 only)
          -- or the adopted copy
          let tail := if adopted then (rc.map (·.2)).getD "?" else "same=1:sigs=hs5:red=0"
          let joinBit := if adopted then
              (match i.remote with
               | some r => if r.type == b!"m.room.member" && r.membership == some b!"join" && r.sender == joiner
                              && r.stateKey == some joiner && r.roomID == rid then "1" else "0"
               | none => "1")
            else "1"
          let sigBit := if adopted then (match i.remote with | some r => if r.sigOK then "1" else "0" | none => "1") else "1"
          "ok:join=" ++ joinBit ++ ":oursig=" ++ sigBit ++ ":" ++ tail ++ ":n=" ++ toString o.auth.length ++ "/" ++ toString o.state.length
        | .ok none => "diverge"
        | .error .makeJoinFailed => "err:make_join"
        | .error .unknownVersion => "err:version"
        | .error .buildFailed => "err:build"
        | .error .sendJoinFailed => "err:send_join"
        | .error .noCreate => "err:no-create"
        | .error .checkFailed => "err:check"
      -- specification stream (from the property text): whatever PerformJoin returns is a join of the joiner that carries a
      -- valid signature of the joining server — `join=1:oursig=1` — and the state passed the federation-response checks
      let ev := joinEventUsed i
      let guards := checkCreate knownVersion i.create &&
        (FedCheck.Spec.sendJoin O none (FedCheck.untrusted A) (FedCheck.untrusted S) ev).isSome
      if m.startsWith "ok" && !m.startsWith "ok:join=1:oursig=1:" then some (m ++ "\terr:must-not-return-this-event")
      else some (withSpec m guards)
  | "performjoin_bodies", [_mj, _sj] =>
    -- C18: no make_join / send_join body makes PerformJoin panic (the model has no panic site left on this path: the nil-map
    -- write after `json.Unmarshal(null, &input.Content)` went with the round-5 repair)
    some "nopanic\tnopanic"
  | "sendjoin_pseudo", [ver, cls, ev, evType, roomID, reqEventID, origin, localS, senderQ, verify, store, selfok, cur] =>
    -- HandleSendJoin for org.matrix.msc4014 (encoding: VDriver/HandshakeInvite.lean)
    let v := strBytes ver
    let e : Event := if cls == "o" then (parseEvArg v ev).getD default else default
    if e.type != unhexD evType then some "bad-op" else
    let (dec, via) := memberContentOf e
    let base : SendJoinIn := {
      versionKnown := knownVersion v, parses := cls == "o", evType := e.type,
      stateKey := e.stateKey, sender := e.sender, eventRoomID := e.roomID, eventID := e.eventID,
      membership := membershipOf e, contentDecodes := dec, authorisedVia := via,
      roomID := unhexD roomID, reqEventID := unhexD reqEventID, requestOrigin := strBytes origin,
      localServer := strBytes localS, keyID := b!"ed25519:k1",
      senderDomain := if senderQ.startsWith "d:" then .dom (strBytes (senderQ.drop 2).toString)
                      else if senderQ == "nil" then .nil else .err,
      verify := .good, curMembership := parseCur cur, userID := userIDOracle }
    -- getMXIDMapping + validateMXIDMappingSignatures, the caller's verifier answering `verify` for every listed server
    let mapping : MappingAns :=
      match Signers.getMXIDMapping e with
      | .error _ => .missing
      | .ok mp =>
        match Signers.splitIDDomain 0x40 mp.userID with
        | none => .invalid
        | some us => if !mp.servers.contains us then .invalid else if verify != "good" then .invalid else .valid
    let i : SendJoinPseudoIn := { base := base, mapping := mapping, storeOK := store != "err", selfVerify := selfok == "1" }
    let m := match handleSendJoinPseudo i with
      | .ok o => showSigned (some o.alreadyJoined) o.sig
      | .error er => showHErr er
    some (withSpecSendJoin m (Spec.sendJoinPseudoGuards i) base)
  -- PerformInvite: VDriver.HandshakeInvite
  | _, _ => HandshakeInviteOps.handle op args

end V.Driver.HandshakeOps
