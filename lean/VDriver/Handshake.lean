/- Driver handlers for area `handshake` (stub: replace `handle`). -/
import VDriver.Util
namespace V.Driver.HandshakeOps
open V V.Driver

def handle (_op : String) (_args : Array String) : Option String := none

end V.Driver.HandshakeOps
