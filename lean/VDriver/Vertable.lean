/- Driver handlers for area `vertable` (stub: replace `handle`). -/
import VDriver.Util
namespace V.Driver.VertableOps
open V V.Driver

def handle (_op : String) (_args : Array String) : Option String := none

end V.Driver.VertableOps
