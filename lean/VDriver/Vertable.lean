/- Driver handlers for area `vertable` (C17): the room-version table read through the public API.
   model = VGen.roomVersions (regenerated from eventversion.go) read by V.Vertable.traitsOfRow;
   spec  = V.Vertable.Spec.table (hand-written from the Matrix specification). -/
import VDriver.Util
import VModel.Vertable
namespace V.Driver.VertableOps
open V V.Driver V.Vertable

def modelTraits (ver : String) : Option Traits := (VGen.roomVersions.find? (·.key == ver)).bind traitsOfRow
def specTraits (ver : String) : Option Traits := Spec.traitsOf ver

/-- answer a probe from both tables -/
def both (ver : String) (f : Traits → String) : Option String :=
  let m := match modelTraits ver with
    | some t => f t
    | none => "skip:version not in the regenerated table, or a column is nil / names an unknown function"
  let s := match specTraits ver with
    | some t => f t
    | none => "unspecified:version-not-in-the-specification-table"
  some (m ++ "\t" ++ s)

def okErr (b : Bool) : String := if b then "ok" else "err"

def csv (s : String) : List String := if s == "-" then [] else s.splitOn ","

def showKeys (p : List String × List String) : String :=
  "ok:top=" ++ ",".intercalate p.1 ++ ";content=" ++ ",".intercalate p.2

/-- ops:
    meta <ver>                                   getters
    sigvalid <ver> <now> <at> <validUntil>       SignatureValidityCheck           true|false
    canon <ver> <hex json> <okIfEnforced 0|1>    CheckCanonicalJSON               ok|err
    knock <ver> <joinRule> <prevMembership>      CheckKnockingAllowed             ok|err
    rjallowed <ver>                              CheckRestrictedJoinsAllowed      ok|err
    rjserver <ver> <hex value or ~>              RestrictedJoinServername         ok:<hex>|err
    parsepl <ver> <hex literal>                  ParsePowerLevels {"ban":literal}  ok:<n>|err
    redactkeys <ver> <type> <top csv> <content csv>   RedactEventJSON: surviving keys
    built <ver>                                  EventBuilder.Build: event format / event ID format
-/
def handle (op : String) (args : Array String) : Option String :=
  match op, args.toList with
  | "meta", [ver] => both ver (fun t => "ok:" ++ metaLine ver t)
  | "sigvalid", [ver, now, atTS, vu] =>
    match now.toNat?, atTS.toNat?, vu.toNat? with
    | some n, some a, some v => both ver (fun t => toString (sigValid t n a v))
    | _, _, _ => some "bad-op"
  | "canon", [ver, _json, okE] => both ver (fun t => okErr (canonOk t (okE == "1")))
  | "knock", [ver, jr, prev] => both ver (fun t => okErr (knockOk t jr (if prev == "-" then "" else prev)))
  | "rjallowed", [ver] => both ver (fun t => okErr t.restrictedJoinAllowed)
  | "rjserver", [ver, v] =>
    let arg : Option (Option Ident.BS) := if v == "~" then some none else (unhex v).map some
    match arg with
    | none => some "bad-op"
    | some a => both ver (fun t => match rjServer t a with | some d => "ok:" ++ hex d | none => "err")
  | "parsepl", [ver, lit] =>
    match unhex lit with
    | none => some "bad-op"
    | some l =>
      both ver (fun t => match parsePL t (bytesStr l) with
        | none => "skip:not a probe literal"
        | some (some n) => "ok:" ++ toString n
        | some none => "err")
  | "redactkeys", [ver, ty, top, content] =>
    let topK := csv top
    let conK := csv content
    let m := match (VGen.roomVersions.find? (·.key == ver)).bind (fun r => keepListsOfName r.redactionAlgorithm) with
      | some k => showKeys (survivors k ty topK conK)
      | none => "skip:no regenerated keep lists for this version's redaction function"
    let s := match (specTraits ver).bind (fun t => Spec.keepLists t.redaction) with
      | some k => showKeys (survivors k ty topK conK)
      | none => "unspecified:version-not-in-the-specification-table"
    some (m ++ "\t" ++ s)
  | "built", [ver] => both ver (fun t => "ok:" ++ builtLine t)
  | _, _ => none

end V.Driver.VertableOps
