/- Driver handlers for area `ctx` (stub: replace `handle`). -/
import VDriver.Util
namespace V.Driver.CtxOps
open V V.Driver

def handle (_op : String) (_args : Array String) : Option String := none

end V.Driver.CtxOps
