/- Driver handlers for area `ctx` (C09): one reused allowerContext fed a sequence of updates and checks. -/
import VDriver.Util
import VDriver.Auth
import VModel.Auth
import VDriver.AuthNeeded
namespace V.Driver.CtxOps
open V V.Json V.Driver V.Auth V.Driver.AuthOps

structure St where
  provs : Array (List Event)
  /-- room IDs a provider object remembers beyond those of the events added since its last `Clear()` (none since
      d0889b7: `Clear()` empties `roomIDs` too; before, it kept them) -/
  stale : Array (List Bytes)
  ctx : Option Ctx := none
  cur : Nat := 0
  outM : List String := []
  outS : List String := []
  bad : Option String := none

def verdictOf (r : R Unit) : String :=
  match r with
  | .ok () => "ok"
  | .error v => v.coarse

/-- the provider OBJECT number `i` as the code holds it: the events added since the last `Clear()`, and every room ID it
    has ever seen -/
def St.provider (s : St) (i : Nat) : Provider :=
  let p := Provider.ofEvents (s.provs[i]!) (i + 1)
  { p with roomIDs := (s.stale[i]! ++ p.roomIDs).foldl (fun acc r => if acc.contains r then acc else acc ++ [r]) [] }

/-- a FRESH provider holding exactly the events provider `i` holds now (the specification's view) -/
def St.freshProvider (s : St) (i : Nat) : Provider := Provider.ofEvents (s.provs[i]!) (i + 1)

def step (evs : Array Event) (s : St) (st : String) : St :=
  if s.bad.isSome then s else
  match st.toList with
  | 'u' :: rest =>
    let i := (String.ofList rest).toNat!
    let p := s.provider i
    match (s.ctx.getD {}).update p with
    | .ok c => { s with ctx := some c, cur := i }
    | .error v => { s with bad := some v.coarse }
  | 'c' :: rest =>
    let i := (String.ofList rest).toNat!
    -- `Clear()` forgets the events and, since d0889b7, the room IDs it had seen
    { s with provs := s.provs.set! i [], stale := s.stale.set! i [] }
  | 'f' :: rest =>
    -- the standalone `Allowed(event, provider object i)`; specification: `Allowed` on a fresh provider with the same events
    match (String.ofList rest).splitOn ":" with
    | [is, js, sig] =>
      let i := is.toNat!; let j := js.toNat!
      let m := (allowedFresh evs[j]! (s.provider i) (sig == "1")).coarse
      let fresh := (allowedFresh evs[j]! (s.freshProvider i) (sig == "1")).coarse
      { s with outM := s.outM ++ [m], outS := s.outS ++ [fresh] }
    | _ => { s with bad := some "bad-op" }
  | 'm' :: rest =>
    match (String.ofList rest).splitOn ":" with
    | [is, js] =>
      let i := is.toNat!; let j := js.toNat!
      { s with provs := s.provs.set! i (s.provs[i]! ++ [evs[j]!]) }
    | _ => { s with bad := some "bad-op" }
  | 'a' :: rest =>
    match (String.ofList rest).splitOn ":" with
    | [js, sig] =>
      let j := js.toNat!
      match s.ctx with
      | none => { s with bad := some "bad-op" }
      | some c =>
        let m := verdictOf (c.allowed evs[j]! (sig == "1"))
        -- specification: the verdict of the standalone `Allowed` (with its Valid() gate) on a fresh provider holding the
        -- events the checker's provider holds NOW
        let fresh := (allowedFresh evs[j]! (s.freshProvider s.cur) (sig == "1")).coarse
        { s with outM := s.outM ++ [m], outS := s.outS ++ [fresh] }
    | _ => { s with bad := some "bad-op" }
  | _ => { s with bad := some "bad-op" }

def handle (op : String) (args : Array String) : Option String :=
  match op, args.toList with
  | "needed", as => NeededOps.handle as
  | "addauth", as => NeededOps.handleAddAuth as
  | "seq", [ver, provs, evs, steps] =>
    let v := strBytes ver
    let ps : Option (List (List Event)) := (provs.splitOn "|").mapM (fun p =>
      if p == "-" || p == "" then some [] else parseEvArgs v (p.splitOn ","))
    match ps, parseEvArgs v (evs.splitOn ",") with
    | some ps, some es =>
      let s := (steps.splitOn ",").foldl (step es.toArray) { provs := ps.toArray, stale := (ps.map (fun _ => [])).toArray }
      match s.bad with
      | some b => some b
      | none =>
        let m := ",".intercalate s.outM
        let sp := ",".intercalate s.outS
        if s.outM.any (fun x => x.startsWith "skip") || s.outS.any (fun x => x.startsWith "skip") then some "skip:unmodelled step"
        else some (m ++ "\t" ++ sp)
    | _, _ => some "bad-op"
  | _, _ => none

end V.Driver.CtxOps
