/- Driver handlers for area `ctx` (C09): one reused allowerContext fed a sequence of updates and checks. -/
import VDriver.Util
import VDriver.Auth
import VModel.Auth
import VDriver.AuthNeeded
namespace V.Driver.CtxOps
open V V.Json V.Driver V.Auth V.Driver.AuthOps

structure St where
  provs : Array (List Event)
  ctx : Option Ctx := none
  cur : Nat := 0
  outM : List String := []
  outS : List String := []
  bad : Option String := none

def verdictOf (r : R Unit) : String :=
  match r with
  | .ok () => "ok"
  | .error v => v.coarse

def step (evs : Array Event) (s : St) (st : String) : St :=
  if s.bad.isSome then s else
  match st.toList with
  | 'u' :: rest =>
    let i := (String.ofList rest).toNat!
    let p := Provider.ofEvents (s.provs[i]!) (i + 1)
    match (s.ctx.getD {}).update p with
    | .ok c => { s with ctx := some c, cur := i }
    | .error v => { s with bad := some v.coarse }
  | 'c' :: rest =>
    let i := (String.ofList rest).toNat!
    { s with provs := s.provs.set! i [] }
  | 'm' :: rest =>
    match (String.ofList rest).splitOn ":" with
    | [is, js] =>
      let i := is.toNat!; let j := js.toNat!
      { s with provs := s.provs.set! i (s.provs[i]! ++ [evs[j]!]) }
    | _ => { s with bad := some "bad-op" }
  | 'a' :: rest =>
    match (String.ofList rest).splitOn ":" with
    | [js, sig] =>
      let j := js.toNat!
      match s.ctx with
      | none => { s with bad := some "bad-op" }
      | some c =>
        let m := verdictOf (c.allowed evs[j]! (sig == "1"))
        -- specification: the verdict of a fresh check against the provider as it is NOW
        let fresh := (allowedFreshNoValid evs[j]! (Provider.ofEvents (s.provs[s.cur]!) (s.cur + 1)) (sig == "1")).coarse
        { s with outM := s.outM ++ [m], outS := s.outS ++ [fresh] }
    | _ => { s with bad := some "bad-op" }
  | _ => { s with bad := some "bad-op" }

def handle (op : String) (args : Array String) : Option String :=
  match op, args.toList with
  | "needed", as => NeededOps.handle as
  | "seq", [ver, provs, evs, steps] =>
    let v := strBytes ver
    let ps : Option (List (List Event)) := (provs.splitOn "|").mapM (fun p =>
      if p == "-" || p == "" then some [] else parseEvArgs v (p.splitOn ","))
    match ps, parseEvArgs v (evs.splitOn ",") with
    | some ps, some es =>
      let s := (steps.splitOn ",").foldl (step es.toArray) { provs := ps.toArray }
      match s.bad with
      | some b => some b
      | none =>
        let m := ",".intercalate s.outM
        let sp := ",".intercalate s.outS
        if s.outM.any (fun x => x.startsWith "skip") || s.outS.any (fun x => x.startsWith "skip") then some "skip:unmodelled step"
        else some (m ++ "\t" ++ sp)
    | _, _ => some "bad-op"
  | _, _ => none

end V.Driver.CtxOps
