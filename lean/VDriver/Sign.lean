/- Driver handlers for area `sign` (C02): SignJSON / VerifyJSON / ListKeyIDs with symbolic cryptography.

   The scheme the driver instantiates the model with is an ORACLE scheme: the op line lists the facts
   "these signature bytes were made with the key whose public half is pk over payload P"; `verify pk m s`
   holds iff (s, pk, m) is one of the facts.  Signing returns a fixed 64-byte marker (the harness
   replaces the real ed25519 signature in SignJSON's output by the same marker before comparing).

   ops:
     sign   <label> <hex text> <hex name> <hex kid> <key index>
            -> ok:<hex canonical output, signature = marker>:<hex payload>:<VerifyJSON verdict on the output> | err | panic:…
     verify <label> <hex text> <hex name> <hex kid> <hex pk> <facts> <expect>   -> verdict class (model only)
     accept <label> <hex text> <hex name> <hex kid> <hex pk> <facts> <expect>   -> ok | rej  (+ specification)
     list   <label> <hex text> <hex name>                                       -> ok:<sorted hex key IDs> | err
     deep_verify <kind> <depth>   a correctly signed object (`srv`, `ed25519:1`) one member of which is nested <depth> deep
                                  (kind arr | obj: a signed member; uns: `unsigned`; sigs: inside `signatures`; open: never
                                  closed), built from the two numbers on both sides        -> ok | rej (+ specification)
     deep_sign   <kind> <depth>   SignJSON on such an object (arr | obj | uns), then VerifyJSON on the result
                                                                                         -> ok:<verdict> | err (+ specification)
-/
import VDriver.Util
import VModel.Sign
namespace V.Driver.SignOps
open V V.Json V.Driver V.Sign

def marker : Bytes := List.replicate 64 0xFF
def dummyPk : Bytes := List.replicate 32 0x01

def oracleScheme (facts : List (Bytes × Bytes × Bytes)) : SigScheme :=
  { SK := Unit
    pk := fun _ => dummyPk
    sign := fun _ _ => marker
    verify := fun pk m s => facts.any (fun f => f.1 == s && f.2.1 == pk && f.2.2 == m)
    sigSizeOk := fun s => s.length == 64
    pkSizeOk := fun k => k.length == 32 }

/-- "sig:pk:payload,sig:pk:payload" (hex) -/
def parseFacts (s : String) : Option (List (Bytes × Bytes × Bytes)) :=
  if s == "-" || s == "" then some [] else
  (s.splitOn ",").mapM (fun f =>
    match f.splitOn ":" with
    | [a, b, c] =>
      match unhex a, unhex b, unhex c with
      | some x, some y, some z => some (x, y, z)
      | _, _, _ => none
    | _ => none)

def showVerdict : Except Err Unit → String
  | .ok _ => "ok"
  | .error e => showErr e

def coarse : Except Err Unit → String
  | .ok _ => "ok"
  | .error (.panic s) => "panic:" ++ s
  | .error _ => "rej"

/-- the parsed text (`none`: not JSON) -/
def readText (t : Bytes) : Option PVal := parse t

/-- inside the gate of VerifyJSON (`strictJSON`): everything but the inside of the value of `unsigned` — which is also
    where the property speaks ("… and after `unsigned` is changed": to anything) -/
def strictP (p : PVal) : Bool := (pruneUnsigned p).wellFormed && (pruneUnsigned p).noDupKeys

/-- the whole message is one definite value for every reader -/
def wholeP (p : PVal) : Bool := p.wellFormed && p.noDupKeys

/-- inside the gate of SignJSON (`signStrictJSON`: no UTF-8 clause) -/
def signStrictP (p : PVal) : Bool := pairedOk p && p.noDupKeys

/-- specification answer for a text the gate refuses: refusal is DEMANDED when the signed members themselves
    are ambiguous; ambiguity confined to `signatures` / `unsigned` is outside the property's text -/
def specAmbiguous (definite : Bool) (refusal : String) : String :=
  if !definite then refusal else "unspecified:ambiguous-outside-the-signed-members"

def insertSorted (x : String) : List String → List String
  | [] => [x]
  | y :: ys => if x < y then x :: y :: ys else y :: insertSorted x ys

def sortStrings (xs : List String) : List String := xs.foldr insertSorted []

def showKeys (ks : List Bytes) : String :=
  let hs := sortStrings (ks.map hex)
  "ok:" ++ (if hs.isEmpty then "-" else String.intercalate "," hs)

/-- specification answer for a text nested deeper than encoding/json reads: C02 speaks of JSON objects the library can
    read at all; C18 demands an answer (no crash, within the time budget) — which one is the model's business -/
def specTooDeep : String := "unspecified:nested-deeper-than-encoding/json-reads(10000)"

/-- the `accept` answer (model TAB specification) for a text; `factsOf` gives the oracle facts from the members of the
    object the text denotes (never evaluated on a text beyond the depth limit: nothing parses such a text) -/
def acceptAnswer (t name kid pk : Bytes) (factsOf : List (Bytes × JVal) → List (Bytes × Bytes × Bytes)) (expect : String) : String :=
  if !depthOk t then coarse (verifyJSONText (oracleScheme []) name kid pk t) ++ "\t" ++ specTooDeep else
  match readText t with
  | none => "rej\trej"
  | some p =>
    let v := p.toJVal
    let S := oracleScheme (match v with
      | .obj o => factsOf o
      | _ => [])
    let m := coarse (verifyJSONText S name kid pk t)
    let a := Spec.accepts S name kid pk v
    let wf := match v with
      | .obj o => Spec.wellFormedSigs (getLast o kSignatures)
      | _ => false
    -- the property demands rejection whenever there is no valid signature of (name, kid, pk) over the
    -- payload, and acceptance when there is one and `signatures` is a well-formed signature object — whatever
    -- `unsigned` holds (`strictP` does not look into it)
    let s :=
      if !strictP p then
        (if expect == "ok" then "spec-mismatch:generator-expects-ok" else specAmbiguous (Spec.definitePayload p) "rej")
      else if expect == "ok" then (if a && wf then "ok" else "spec-mismatch:generator-expects-ok")
      else if expect == "rej" then (if !a then "rej" else "spec-mismatch:generator-expects-rej")
      else if !a then "rej" else if wf then "ok" else "unspecified:signatures-not-a-signature-map"
    m ++ "\t" ++ s

def brackets (d : Nat) : Bytes := List.replicate d 0x5B ++ List.replicate d 0x5D

def sigBlock (sig : Bytes) : Bytes := b!"\"signatures\":{\"srv\":{\"ed25519:1\":\"" ++ sig ++ b!"\"}}"

/-- the texts of `deep_verify` (the harness builds the same bytes, with a real signature in place of `sig`) -/
def deepText (kind : String) (d : Nat) (sig : Bytes) : Option Bytes :=
  if kind == "arr" then some (b!"{\"a\":" ++ brackets d ++ b!"," ++ sigBlock sig ++ b!"}")
  else if kind == "obj" then
    some (b!"{\"a\":" ++ (List.replicate d b!"{\"a\":").flatten ++ b!"1" ++ List.replicate d 0x7D ++ b!"," ++ sigBlock sig ++ b!"}")
  else if kind == "uns" then some (b!"{\"a\":1," ++ sigBlock sig ++ b!",\"unsigned\":" ++ brackets d ++ b!"}")
  else if kind == "sigs" then
    some (b!"{\"a\":1,\"signatures\":{\"srv\":{\"ed25519:1\":\"" ++ sig ++ b!"\"},\"zz\":" ++ brackets d ++ b!"}}")
  else if kind == "open" then some (b!"{\"a\":" ++ List.replicate d 0x5B)
  else none

/-- the texts of `deep_sign` -/
def deepSignText (kind : String) (d : Nat) : Option Bytes :=
  if kind == "arr" then some (b!"{\"a\":" ++ brackets d ++ b!"}")
  else if kind == "obj" then some (b!"{\"a\":" ++ (List.replicate d b!"{\"a\":").flatten ++ b!"1" ++ List.replicate d 0x7D ++ b!"}")
  else if kind == "uns" then some (b!"{\"a\":1,\"unsigned\":" ++ brackets d ++ b!"}")
  else none

def handle (op : String) (args : Array String) : Option String :=
  match op, args.toList with
  | "sign", [_label, th, nh, kh, _key] =>
    match unhex th, unhex nh, unhex kh with
    | some t, some name, some kid =>
      match readText t with
      | none => some "err"
      | some p =>
        -- SignJSON has no UTF-8 clause (PDU.Sign must not fail on events the constructors accept): on a text that passes
        -- its gate but is not valid UTF-8 it behaves as before the K7 repair, which is outside the property (JSON texts
        -- are Unicode) and outside this tie (the harness finds the signed payload through encoding/json, which rewrites
        -- invalid UTF-8 in member names)
        if signStrictP p && !wholeP p then some "skip:sign-of-a-text-that-is-not-valid-utf8" else
        let v := p.toJVal
        let pay : Bytes := match v with
          | .obj o => payload o
          | _ => encodeCanon v
        let S := oracleScheme [(marker, dummyPk, pay)]
        let res := signJSONText S name kid () t
        let m := match res with
          | .ok out => "ok:" ++ hex (encodeCanon out) ++ ":" ++ hex pay ++ ":" ++ showVerdict (verifyJSONText S name kid dummyPk (encodeCanon out))
          | .error (.panic s) => "panic:" ++ s
          | .error _ => "err"
        -- specification: what C02 demands of the signed object (only when signing is not refused)
        let s := if !signStrictP p then specAmbiguous (Spec.definitePayloadSign p) "err" else match v, res with
          | .obj _, .error (.other _) => "unspecified:signing-refused"
          | .obj _, .error .badJSON => "unspecified:signing-refused"
          | .obj _, _ =>
            match Spec.signJSON S name kid () v with
            | some out => "ok:" ++ hex (encodeCanon out) ++ ":" ++ hex pay ++ ":ok"
            | none => "unspecified:signatures-not-a-signature-map"
          | _, _ => "unspecified:not-an-object"
        some (m ++ "\t" ++ s)
    | _, _, _ => some "bad-op"
  | "verify", [_label, th, nh, kh, pkh, fs, _expect] =>
    match unhex th, unhex nh, unhex kh, unhex pkh, parseFacts fs with
    | some t, some name, some kid, some pk, some facts =>
      some (showVerdict (verifyJSONText (oracleScheme facts) name kid pk t))
    | _, _, _, _, _ => some "bad-op"
  | "accept", [_label, th, nh, kh, pkh, fs, expect] =>
    match unhex th, unhex nh, unhex kh, unhex pkh, parseFacts fs with
    | some t, some name, some kid, some pk, some facts => some (acceptAnswer t name kid pk (fun _ => facts) expect)
    | _, _, _, _, _ => some "bad-op"
  | "deep_verify", [kind, depth] =>
    let d := depth.toNat!
    match deepText kind d (b64Encode marker) with
    | none => some "bad-op"
    | some t =>
      -- the oracle: the marker signature is genuine for the payload of the object the text denotes
      let facts := fun (o : List (Bytes × JVal)) => [(marker, dummyPk, payload o)]
      let expect := if kind == "sigs" then "any" else if kind == "open" then "rej" else "ok"
      some (acceptAnswer t b!"srv" b!"ed25519:1" dummyPk facts expect)
  | "deep_sign", [kind, depth] =>
    let d := depth.toNat!
    match deepSignText kind d with
    | none => some "bad-op"
    | some t =>
      if !depthOk t then some ("err\t" ++ specTooDeep) else
      match readText t with
      | none => some "err\terr"
      | some p =>
        let pay : Bytes := match p.toJVal with
          | .obj o => payload o
          | v => encodeCanon v
        let S := oracleScheme [(marker, dummyPk, pay)]
        let m := match signJSONText S b!"srv" b!"ed25519:1" () t with
          | .ok out => "ok:" ++ showVerdict (verifyJSONText S b!"srv" b!"ed25519:1" dummyPk (encodeCanon out))
          | .error (.panic s) => "panic:" ++ s
          | .error _ => "err"
        -- C02: a JSON object signed with SignJSON verifies
        some (m ++ "\tok:ok")
  | "list", [_label, th, nh] =>
    match unhex th, unhex nh with
    | some t, some name =>
      match readText t with
      | none => some "err"
      | some p =>
        -- ListKeyIDs has no gate of its own (its callers go on to VerifyJSON, which has); on texts the gate
        -- refuses the value-level model is not tied to encoding/json (which member wins, U+FFFD rewriting)
        if !strictP p then some "skip:list-on-a-text-VerifyJSON-refuses (duplicate names / ill-formed Unicode)" else
        let v := p.toJVal
        let m := match listKeyIDs name v with
          | some ks => showKeys ks
          | none => "err"
        let s := match v with
          | .obj o =>
            match getLast o kSignatures with
              | none => showKeys []
              | some .null => showKeys []
              | some (.obj ms) =>
                if !(ms.all (fun x => match x.2 with | .null => true | .obj _ => true | _ => false)) then "unspecified:signatures-not-a-map-of-maps"
                else match getLast ms name with
                  | some (.obj es) => showKeys (es.map (·.1))
                  | _ => showKeys []
              | some _ => "unspecified:signatures-not-a-map"
          | _ => "unspecified:not-an-object"
        some (m ++ "\t" ++ s)
    | _, _ => some "bad-op"
  | _, _ => none

end V.Driver.SignOps
