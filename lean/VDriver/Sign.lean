/- Driver handlers for area `sign` (stub: replace `handle`). -/
import VDriver.Util
namespace V.Driver.SignOps
open V V.Driver

def handle (_op : String) (_args : Array String) : Option String := none

end V.Driver.SignOps
