/- Driver handlers for area `conc` (C19): schedule-for-schedule replay of the interleaving models. -/
import VDriver.Util
import VModel.ConcDns
import VModel.ConcFetch
import VModel.ConcVerify
namespace V.Driver.ConcOps
open V V.Driver V.Conc

/-! ## DNS cache

op line:  conc.dns  <cap>  <regime>  <ops>  <sched>  <impl trace>
  cap     decimal, the cache's `size`
  regime  h : duration 1h (nothing expires) | n : duration -1s (everything is expired when stored)
          s : duration 500ms with real sleeps (`z` moves) of 650ms
  ops     goroutines separated by `;`, ops by `,`:  `a` lookup a | `a!` lookup a, resolver fails | `-a` delete a
  sched   one char per harness move: p, q, r = poke goroutine 0, 1, 2; `z` = sleep past the duration
  trace   moves joined by `|`; a move is  <obs>[<sorted cache keys joined by ,>]
          obs:  R<g>:<n>:h:<addrs> | R<g>:<n>:m:<addrs> | F<g>:<n> | D<g>:<n> | B<g>:<n> | - | Z ; the trace ends early with H<g> (hang)
-/

def nameIdx (n : String) : Nat :=
  match n.toList with
  | [c] => if 'a' ≤ c ∧ c ≤ 'z' then c.toNat - 'a'.toNat else 25
  | _ => 26

/-- the scripted resolver's answer for a host name (a function of the name): 10.0.0.(i+1), and for odd i also 10.0.1.(i+1) -/
def ansOf (n : String) : List Nat :=
  let i := nameIdx n
  if i % 2 == 1 then [i + 1, 256 + i + 1] else [i + 1]

/-- what one resolver call answers: selector 0 = the answer of the name, 1 = the call fails, k ≥ 2 = variant k of the answer
    (the same host at another time: third octet + 2k), so that two calls for one name can be told apart -/
def ansVar (n : String) (sel : Nat) : List Nat := if sel ≥ 2 then (ansOf n).map (· + 512 * sel) else ansOf n

def dnsResolver (n : String) (sel : Nat) : Option (List Nat) := if sel == 1 then none else some (ansVar n sel)

def parseOp (s : String) : Option Dns.Op :=
  match s.toList with
  | ['-', c] => some (.del (String.singleton c))
  | [c, '!'] => some (.lookup (String.singleton c) 1)
  | [c, d] => if '2' ≤ d ∧ d ≤ '9' then some (.lookup (String.singleton c) (d.toNat - '0'.toNat)) else none
  | [c] => some (.lookup (String.singleton c) 0)
  | _ => none

def parseOps (s : String) : Option (List (List Dns.Op)) :=
  (s.splitOn ";").mapM (fun g => if g == "" then some [] else (g.splitOn ",").mapM parseOp)

/-- `~a` = `DNSCache.DialContext("a:443")` with every connection refused: a CLIENT of the cache made of the modelled
    operations — `lookup a`; after a cache hit (all cached addresses failed) `delete a` and `lookup a` once more; then the
    dial fails.  It is replayed on the lookup / delete model (so every theorem about all op lists and schedules covers
    it); the flag marks the source op. -/
def parseOpD (s : String) : Option (Dns.Op × Bool) :=
  match s.toList with
  | ['~', c] => some (.lookup (String.singleton c) 0, true)
  | _ => (parseOp s).map (fun o => (o, false))

def parseOpsD (s : String) : Option (List (List (Dns.Op × Bool))) :=
  (s.splitOn ";").mapM (fun g => if g == "" then some [] else (g.splitOn ",").mapM parseOpD)

def showAddrs (a : List Nat) : String := String.intercalate "+" (a.map toString)

def showObs : Dns.Obs → String
  | .ret g (.hit n e) => s!"R{g}:{n}:h:{showAddrs e.addrs}"
  | .ret g (.miss n e) => s!"R{g}:{n}:m:{showAddrs e.addrs}"
  | .ret g (.fail n) => s!"F{g}:{n}"
  | .ret g (.deleted n) => s!"D{g}:{n}"
  | .blocked g n => s!"B{g}:{n}"
  | .noop => "-"
  | .hang g => s!"H{g}"
  | .stuck => "X"

def sortStrs (l : List String) : List String := l.mergeSort (fun a b => decide (a ≤ b))

def showKeys (s : Dns.State) : String := "[" ++ String.intercalate "," (sortStrs (s.entries.map (·.1))) ++ "]"

structure Regime where
  dur : Int
  tick : Int
  sleep : Int

def regimeOf : String → Option Regime
  | "h" => some ⟨1000000000, 1, 0⟩
  | "n" => some ⟨-1, 1, 0⟩
  | "s" => some ⟨1000, 1, 1500⟩
  | _ => none

/-- prepend ops to thread `g`'s to-do list -/
def injectOps (s : Dns.State) (g : Nat) (ops : List Dns.Op) : Dns.State :=
  match s.threads[g]? with
  | some th => { s with threads := s.threads.set g { th with todo := ops ++ th.todo } }
  | none => s

structure ReplaySt where
  idx : List Nat      -- per goroutine: index of its current source op
  retry : List Bool   -- per goroutine: inside the second lookup of a dial

def dnsReplay (c : Dns.Cfg) (rg : Regime) (dials : List (List Bool)) : List Char → Dns.State → Int → ReplaySt → List String → List String
  | [], _, _, _, acc => acc.reverse
  | ch :: rest, s, t, rs, acc =>
    if ch == 'z' then
      dnsReplay c rg dials rest s (t + rg.sleep) rs (("Z" ++ showKeys s) :: acc)
    else
      let g := ch.toNat - 'p'.toNat
      let t' := t + rg.tick
      let (s', o) := Dns.poke c 64 s g t'
      let i := (rs.idx[g]?).getD 0
      let isDial := (((dials[g]?).bind (·[i]?)).getD false)
      let adv (r : ReplaySt) : ReplaySt := ⟨r.idx.set g (i + 1), r.retry.set g false⟩
      match o with
      | .hang _ => (showObs o :: acc).reverse
      | .ret _ (.hit n _) =>
        if isDial && !((rs.retry[g]?).getD false) then
          -- every cached address refused the connection: delete the entry and look the name up once more (same move)
          let s1 := injectOps s' g [.del n, .lookup n 0]
          let (s2, _) := Dns.poke c 64 s1 g t'
          let (s3, o3) := Dns.poke c 64 s2 g t'
          dnsReplay c rg dials rest s3 t' ⟨rs.idx, rs.retry.set g true⟩ ((showObs o3 ++ showKeys s3) :: acc)
        else dnsReplay c rg dials rest s' t' (adv rs) ((showObs o ++ showKeys s') :: acc)
      | .ret _ (.miss n _) =>
        if isDial then dnsReplay c rg dials rest s' t' (adv rs) ((s!"X{g}:{n}" ++ showKeys s') :: acc)
        else dnsReplay c rg dials rest s' t' (adv rs) ((showObs o ++ showKeys s') :: acc)
      | .ret _ (.fail n) =>
        if isDial then dnsReplay c rg dials rest s' t' (adv rs) ((s!"X{g}:{n}" ++ showKeys s') :: acc)
        else dnsReplay c rg dials rest s' t' (adv rs) ((showObs o ++ showKeys s') :: acc)
      | .ret _ _ => dnsReplay c rg dials rest s' t' (adv rs) ((showObs o ++ showKeys s') :: acc)
      | _ => dnsReplay c rg dials rest s' t' rs ((showObs o ++ showKeys s') :: acc)

def dnsModel (cap : Int) (rg : Regime) (todosD : List (List (Dns.Op × Bool))) (sched : String) : String :=
  let c : Dns.Cfg := ⟨cap, rg.dur, dnsResolver⟩
  let todos := todosD.map (·.map (·.1))
  let dials := todosD.map (·.map (·.2))
  String.intercalate "|" (dnsReplay c rg dials sched.toList (Dns.init todos 0) 0 ⟨todos.map (fun _ => 0), todos.map (fun _ => false)⟩ [])

/-! ### the property's predicates, evaluated on the IMPLEMENTATION's trace -/

structure SpecSt where
  idx : List Nat                 -- per goroutine: index of its current op
  stored : List String           -- names stored since the last sleep (regime s)

def opAt (todos : List (List Dns.Op)) (g i : Nat) : Option Dns.Op := (todos[g]?).bind (·[i]?)

def bump (l : List Nat) (g : Nat) : List Nat := l.set g ((l[g]?).getD 0 + 1)

def hasDup : List String → Bool
  | [] => false
  | x :: xs => xs.contains x || hasDup xs

/-- check one move of the implementation's trace; `none` = fine -/
def specMove (cap : Int) (regime : String) (todos : List (List Dns.Op)) (st : SpecSt) (mv : String) : SpecSt × Option String :=
  -- split "<obs>[keys]"
  match mv.splitOn "[" with
  | [obs, ks] =>
    let keys := if ks == "]" then [] else ((ks.dropEnd 1).toString.splitOn ",")
    let sizeBad := (keys.length : Int) > max cap 0
    if sizeBad then (st, some "size-exceeded") else
    if hasDup keys then (st, some "duplicate-key") else
    let f := obs.splitOn ":"
    match obs.toList.head?, f with
    | some 'R', [rg, n, hm, ad] =>
      let g := (rg.drop 1).toString.toNat?.getD 99
      let cur := opAt todos g ((st.idx[g]?).getD 0)
      let st' : SpecSt := ⟨bump st.idx g, if hm == "m" then n :: st.stored else st.stored⟩
      let curSel : Option Nat := match cur with
        | some (.lookup n' sel) => if n' == n then some sel else none
        | _ => none
      if curSel.isNone then (st', some "answer-for-another-request")
      else if !((List.range 10).any (fun k => k != 1 && ad == showAddrs (ansVar n k))) then (st', some "wrong-host-addresses")
      -- every stored entry is past its expiry at once in regime n: a lookup that went to the resolver can only be
      -- answered with what ITS OWN call returned — anything else is an entry served past its expiry
      else if hm == "m" && regime == "n" && curSel != some 1 && ad != showAddrs (ansVar n (curSel.getD 0)) then (st', some "stale-entry-served")
      else if hm == "h" && regime == "n" then (st', some "stale-entry-served")
      else if hm == "h" && regime == "s" && !st.stored.contains n then (st', some "stale-entry-served")
      else if hm == "h" && !keys.contains n then (st', some "hit-without-entry")
      else if hm == "m" && cap > 0 && !keys.contains n then (st', some "not-stored-under-requested-name")
      else (st', none)
    | some 'F', [rg, n] =>
      let g := (rg.drop 1).toString.toNat?.getD 99
      let cur := opAt todos g ((st.idx[g]?).getD 0)
      let st' : SpecSt := ⟨bump st.idx g, st.stored⟩
      if cur != some (.lookup n 1) then (st', some "failed-though-resolver-answered") else (st', none)
    | some 'D', [rg, n] =>
      let g := (rg.drop 1).toString.toNat?.getD 99
      (⟨bump st.idx g, st.stored⟩, if keys.contains n then some "deleted-entry-present" else none)
    | some 'X', [rg, _] =>   -- a dial whose connections were all refused returned its error (size / duplicate checks above)
      let g := (rg.drop 1).toString.toNat?.getD 99
      (⟨bump st.idx g, st.stored⟩, none)
    | some 'B', [_, _] => (st, none)
    | some '-', _ => (st, none)
    | some 'Z', _ => (⟨st.idx, []⟩, none)
    | _, _ => (st, some "bad-trace")
  | _ =>
    if mv.startsWith "H" then (st, some "hang") else (st, some "bad-trace")

def specLoop (cap : Int) (regime : String) (todos : List (List Dns.Op)) : List String → Nat → SpecSt → Option String
  | [], _, _ => none
  | mv :: rest, i, st =>
    match specMove cap regime todos st mv with
    | (_, some why) => some s!"violates:{why}@move{i}"
    | (st', none) => specLoop cap regime todos rest (i + 1) st'

def dnsSpec (cap : Int) (regime : String) (todos : List (List Dns.Op)) (sched trace : String) : String :=
  let mvs := trace.splitOn "|"
  match specLoop cap regime todos mvs 0 ⟨todos.map (fun _ => 0), []⟩ with
  | some v => v
  | none => if mvs.length != sched.length then "violates:incomplete-trace" else trace

def handleDns (args : List String) : Option String :=
  match args with
  | [cap, regime, ops, sched, trace] =>
    match cap.toInt?, regimeOf regime, parseOpsD ops with
    | some cp, some rg, some todosD =>
      some (dnsModel cp rg todosD sched ++ "\t" ++ dnsSpec cp regime (todosD.map (·.map (·.1))) sched trace)
    | _, _, _ => some "bad-op"
  | _ => some "bad-op"

/-! ## FetchKeys

op line:  conc.fetch  <cfg>  <sched>  <impl outcome>
  cfg     servers separated by `;` (server i is named s<i>):  <kids>:<direct>:<notary>
          kids    requested key ids, `,`-separated codes: a = ed25519:a, z = ed25519:zz
          direct  L local server name | E error | G good | M good, several keys, old key overriding a verify key |
                  U unsigned | P partly signed | Z valid_until_ts = 0 | C no ed25519 key | W response names another server
          notary  E error | N no entry for the server | G [other server, good] | B [unsigned, good] (first match is bad) |
                  M [several keys] | - (local)
  sched   letters p, q, …, y: release the pending client call of server 0, 1, …, 9 (no-op if it has none); afterwards every
          remaining call is released in index order
  outcome <per move: `>` went on to the notary, `.` job done, `-` no-op>#<sorted results: srv/kid=K<i>.<j>:<validUntil>:<expired>, …>
conc.fetchbig  <cfg>  <policy>  <impl outcome>  : more than 64 servers (the queue is used); outcome = `#results` only.
-/

open Fetch in
def kidOf : String → String
  | "a" => "ed25519:a"
  | "z" => "ed25519:zz"
  | x => x

open Fetch in
def respG (name : String) (i vu : Nat) (k0 k1 : Nat) (chk : KCheck) : Resp :=
  ⟨name, vu, [("ed25519:a", 10 * i + k0, chk)], [("ed25519:o", 10 * i + k1, 500 + i)]⟩

open Fetch in
def respM (name : String) (i vu : Nat) (chkB : KCheck) : Resp :=
  ⟨name, vu, [("ed25519:a", 10 * i + 0, .ok), ("ed25519:b", 10 * i + 2, chkB), ("x25519:c", 10 * i + 3, .notEd)],
   [("ed25519:b", 10 * i + 1, 500 + i)]⟩

open Fetch in
def directOf (i : Nat) (code : String) : Option Resp :=
  let s := s!"s{i}"
  match code with
  | "G" => some (respG s i (1000 + i) 0 1 .ok)
  | "M" => some (respM s i (1000 + i) .ok)
  | "U" => some (respG s i (1000 + i) 0 1 .bad)
  | "P" => some (respM s i (1000 + i) .bad)
  | "Z" => some (respG s i 0 0 1 .ok)
  | "C" => some ⟨s, 1000 + i, [("x25519:c", 10 * i + 3, .notEd)], []⟩
  | "W" => some (respG s!"w{i}" i (1000 + i) 4 5 .ok)
  | _ => none

open Fetch in
def notaryOf (i : Nat) (code : String) : Option (List Resp) :=
  let s := s!"s{i}"
  match code with
  | "N" => some [respG s!"w{i}" i (2000 + i) 4 5 .ok]
  | "G" => some [respG s!"w{i}" i (2000 + i) 4 5 .ok, respG s i (2000 + i) 0 1 .ok]
  | "B" => some [respG s i (2000 + i) 0 1 .bad, respG s i (2000 + i) 0 1 .ok]
  | "M" => some [respM s i (2000 + i) .ok]
  | _ => none

structure SrvCfg where
  kids : List String
  direct : String
  notary : String

def parseSrv (s : String) : Option SrvCfg :=
  match s.splitOn ":" with
  | [k, d, n] => some ⟨if k == "" then [] else (k.splitOn ",").map kidOf, d, n⟩
  | _ => none

def srvIdx (s : String) : Option Nat :=
  match s.toList with
  | 's' :: ds => (String.ofList ds).toNat?
  | _ => none

open Fetch in
def fetchCfg (srvs : List SrvCfg) : Cfg :=
  let arr := srvs.toArray
  let code (sel : SrvCfg → String) (s : String) : Option (Nat × String) :=
    match srvIdx s with
    | some i => (arr[i]?).map (fun c => (i, sel c))
    | none => none
  { requests := (List.range srvs.length).flatMap (fun i => ((arr[i]?).map (·.kids)).getD [] |>.map (fun k => (s!"s{i}", k))),
    isLocal := fun s => match code (·.direct) s with | some (_, d) => d == "L" | none => false,
    localKey := 9999,
    direct := fun s => match code (·.direct) s with | some (i, d) => directOf i d | none => none,
    notary := fun s => match code (·.notary) s with | some (i, d) => notaryOf i d | none => none }

open Fetch in
def showVal (v : Val) : String :=
  (if v.key == 9999 then "KL" else s!"K{v.key / 10}.{v.key % 10}") ++ s!":{v.validUntilTS}:{v.expiredTS}"

open Fetch in
def showResults (m : RMap) : String :=
  String.intercalate "," (sortStrs (m.map (fun p => s!"{p.1.1}/{p.1.2}={showVal p.2}")))

open Fetch in
def fetchFinish (c : Cfg) (n : Nat) : Nat → State → State
  | 0, s => s
  | fuel + 1, s =>
    if s.wait == 0 then s else
    let s' := (List.range n).foldl (fun acc i => (release c (release c acc s!"s{i}").1 s!"s{i}").1) s
    fetchFinish c n fuel s'

open Fetch in
def fetchModel (srvs : List SrvCfg) (sched : List Char) (withTrace : Bool) : String :=
  let c := fetchCfg srvs
  let order := byServerKeys c
  let s0 := startAll c (init c order)
  let (s1, tr) := sched.foldl (fun (acc : State × String) ch =>
      let (s', o) := release c acc.1 s!"s{ch.toNat - 'p'.toNat}"
      (s', acc.2 ++ o)) (s0, "")
  let s2 := fetchFinish c srvs.length (srvs.length + 2) s1
  match step c s2 .main with
  | some s3 => (if withTrace then tr else "") ++ "#" ++ showResults s3.results ++ (if s3.negWait then "!negative-waitgroup" else "")
  | none => "stuck"

open Fetch in
def fetchSpec (srvs : List SrvCfg) (impl : String) : String :=
  -- the property: the result is the sequential union, whatever the schedule; nothing hangs
  match impl.splitOn "#" with
  | [tr, _] => tr ++ "#" ++ showResults (specMap (fetchCfg srvs))
  | _ => "violates:" ++ "no-result"

def handleFetch (withTrace : Bool) (args : List String) : Option String :=
  match args with
  | [cfg, sched, impl] =>
    match (cfg.splitOn ";").mapM parseSrv with
    | some srvs => some (fetchModel srvs (if withTrace then sched.toList else []) withTrace ++ "\t" ++ fetchSpec srvs impl)
    | none => some "bad-op"
  | _ => some "bad-op"


/-! ## two concurrent FetchKeys calls on one DirectKeyFetcher

op line:  conc.fetch2  <cfg>  <plan>  <impl outcome>      (see harness/conc_fetch.go)
  plan    A / B start caller A / B;  p q r s / P Q R S release caller A's / B's pending call for server 0..3;
          x / y cancel caller A's / B's context;  afterwards everything pending is released
  outcome <trace>#<A's results>#<B's results>

Model: the two calls are independent (`Fetch.Two`): each caller is a `Fetch.State` of its own; a cancelled caller's client
answers `Two.failing`.  Specification (the property: "yields for every caller the result a sequential execution would
give", "never deadlocks", "exactly the union of the per-server results that succeeded"): a caller whose context is never
cancelled gets `specMap` — whatever the other caller does, including being cancelled; a caller that is cancelled gets a
part of it (which part depends on when the cancellation arrives: only "no foreign entry" is demanded). -/

structure Caller2 where
  started : Bool := false
  cancelled : Bool := false
  st : Fetch.State

open Fetch in
def cfgOf2 (c : Cfg) (k : Caller2) : Cfg := if k.cancelled then Two.failing c else c

open Fetch in
def pendingCalls (s : State) : Nat :=
  s.workers.countP (fun pc => match pc with | .fetch _ => true | .notary _ => true | _ => false)

open Fetch in
def fetch2Move (c : Cfg) (n : Nat) (ka kb : Caller2) (ch : Char) : Caller2 × Caller2 × String :=
  let upd (g : Nat) (k : Caller2) : Caller2 × Caller2 := if g == 0 then (k, kb) else (ka, k)
  let start (g : Nat) : Caller2 × Caller2 × String :=
    let k := if g == 0 then ka else kb
    if k.started then (ka, kb, "-") else
    let c' := cfgOf2 c k
    let s0 := startAll c' (init c' (byServerKeys c'))
    let s1 := if k.cancelled then fetchFinish c' n (n + 2) s0 else s0
    let (a, b) := upd g { k with started := true, st := s1 }
    (a, b, (if g == 0 then "A" else "B") ++ toString (pendingCalls s1))
  let rel (g i : Nat) : Caller2 × Caller2 × String :=
    let k := if g == 0 then ka else kb
    if !k.started || k.cancelled then (ka, kb, "-") else
    let (s', o) := release c k.st s!"s{i}"
    let (a, b) := upd g { k with st := s' }
    (a, b, o)
  let cancel (g : Nat) : Caller2 × Caller2 × String :=
    let k := if g == 0 then ka else kb
    let running := k.started && k.st.wait != 0
    let k' : Caller2 := { k with cancelled := true }
    let k'' : Caller2 := if running then { k' with st := fetchFinish (Two.failing c) n (n + 2) k.st } else k'
    let (a, b) := upd g k''
    (a, b, (if g == 0 then "x" else "y") ++ (if running then "." else "-"))
  if ch == 'A' then start 0 else if ch == 'B' then start 1
  else if ch == 'x' then cancel 0 else if ch == 'y' then cancel 1
  else if 'p' ≤ ch ∧ ch ≤ 's' then rel 0 (ch.toNat - 'p'.toNat)
  else if 'P' ≤ ch ∧ ch ≤ 'S' then rel 1 (ch.toNat - 'P'.toNat)
  else (ka, kb, "?")

open Fetch in
def fetch2Result (c : Cfg) (n : Nat) (k : Caller2) : String :=
  if !k.started then "-" else
  let c' := cfgOf2 c k
  match step c' (fetchFinish c' n (n + 2) k.st) .main with
  | some s => showResults s.results ++ (if s.negWait then "!negative-waitgroup" else "")
  | none => "stuck"

open Fetch in
def fetch2Model (srvs : List SrvCfg) (plan : List Char) : String :=
  let c := fetchCfg srvs
  let n := srvs.length
  let k0 : Caller2 := { st := init c [] }
  let (ka, kb, tr) := plan.foldl (fun (acc : Caller2 × Caller2 × String) ch =>
      let (a, b, o) := fetch2Move c n acc.1 acc.2.1 ch
      (a, b, acc.2.2 ++ o)) (k0, k0, "")
  tr ++ "#" ++ fetch2Result c n ka ++ "#" ++ fetch2Result c n kb

open Fetch in
def fetch2Spec (srvs : List SrvCfg) (plan : List Char) (impl : String) : String :=
  match impl.splitOn "#" with
  | [tr, ra, rb] =>
    let want := showResults (specMap (fetchCfg srvs))
    let wantEntries := if want == "" then [] else want.splitOn ","
    let judge (start cancel : Char) (r : String) : String :=
      if !plan.contains start then "-"
      else if !plan.contains cancel then want
      else if r == "" || (r.splitOn ",").all (fun e => wantEntries.contains e) then r
      else "violates:cancelled-caller-holds-an-entry-no-server-gave"
    tr ++ "#" ++ judge 'A' 'x' ra ++ "#" ++ judge 'B' 'y' rb
  | _ => "violates:no-result(a caller did not return)"

def handleFetch2 (args : List String) : Option String :=
  match args with
  | [cfg, plan, impl] =>
    match (cfg.splitOn ";").mapM parseSrv with
    | some srvs =>
      if srvs.length > 4 then some "bad-op" else
      some (fetch2Model srvs plan.toList ++ "\t" ++ fetch2Spec srvs plan.toList impl)
    | none => some "bad-op"
  | _ => some "bad-op"

/-! ## getTransport / reaper through time

op line:  conc.transport  <script>  <impl trace>        (see harness/conc_transport.go)
  script  `,`-separated: g<n> getTransport(n) | i<n> n's transport idle for 2 x lifetime | j<n> idle for lifetime - 1 min | R reaper pass
  trace   g<n>=<id>[names] | i<n>:<0|1>[names] | j<n>:<0|1>[names] | R[names]  joined by `|`; `H` = the move did not finish

Model: `Transport.trun` — every call is one region under transportsMutex, so the run is the sequence of its regions; the
reaper's `dead` predicate is "idle for more than 5 minutes since its last use" (idle periods add up: two `j` make 8 minutes).  Specification, evaluated on the implementation's trace:
every move finishes (no deadlock); the cached names never repeat; getTransport returns the cached transport of that name
if there is one and a fresh one otherwise, and the name is cached afterwards; a reaper pass removes exactly the transports
idle for longer than the lifetime. -/

open Fetch.Transport in
structure TrSt where
  s : TState
  idle : List (String × Nat)      -- minutes since the name's transport was last used (absent = 0)

def showNames (l : List String) : String := "[" ++ String.intercalate "," (sortStrs l) ++ "]"

/-- minutes an `i` / `j` move adds: 2 x destinationTripperLifetime, destinationTripperLifetime - 1 minute -/
def idleMinutes (k : Char) : Nat := if k == 'i' then 10 else 4

def idleOf (idle : List (String × Nat)) (n : String) : Nat := ((idle.find? (·.1 == n)).map (·.2)).getD 0

def addIdle (idle : List (String × Nat)) (n : String) (m : Nat) : List (String × Nat) :=
  (n, idleOf idle n + m) :: idle.filter (·.1 != n)

/-- `time.Since(since) > destinationTripperLifetime` (5 minutes) -/
def idleTooLong (idle : List (String × Nat)) (n : String) : Bool := decide (idleOf idle n > 5)

open Fetch.Transport in
def transportMove (st : TrSt) (mv : String) : Option (TrSt × String) :=
  let names (s : TState) := showNames (s.transports.map (·.1))
  match mv.toList with
  | ['R'] =>
    let s' := tstep st.s (.reap (idleTooLong st.idle))
    some (⟨s', st.idle.filter (fun p => !idleTooLong st.idle p.1)⟩, "R" ++ names s')
  | ['g', c] =>
    let n := String.singleton c
    let s' := tstep st.s (.get 0 n)
    let id := match s'.got.head? with | some (_, _, id) => id | none => 0
    some (⟨s', st.idle.filter (·.1 != n)⟩, s!"g{n}={id}" ++ names s')
  | [k, c] =>
    if k != 'i' && k != 'j' then none else
    let n := String.singleton c
    let present := (tget n st.s.transports).isSome
    some (⟨st.s, if present then addIdle st.idle n (idleMinutes k) else st.idle⟩,
          s!"{k}{n}:" ++ (if present then "1" else "0") ++ names st.s)
  | _ => none

open Fetch.Transport in
def transportModel (script : String) : String :=
  let rec go : List String → TrSt → List String → String
    | [], _, acc => String.intercalate "|" acc.reverse
    | mv :: rest, st, acc =>
      match transportMove st mv with
      | none => "bad-op"
      | some (st', o) => go rest st' (o :: acc)
  go (script.splitOn ",") ⟨tinit, []⟩ []

/-- the specification's own bookkeeping while it reads the implementation's trace -/
structure TrSpec where
  cached : List (String × Nat)     -- name ↦ transport, as the trace so far says
  idle : List (String × Nat)       -- name ↦ minutes since its transport was last used
  maxId : Option Nat

def trSpecMove (st : TrSpec) (mv obs : String) : TrSpec × Option String :=
  match obs.splitOn "[" with
  | [hd, ks] =>
    let keys := if ks == "]" then [] else ((ks.dropEnd 1).toString.splitOn ",")
    if hasDup keys then (st, some "duplicate-name") else
    let sameNames (want : List String) : Bool := sortStrs want == sortStrs keys
    match mv.toList with
    | ['R'] =>
      let keep := st.cached.filter (fun p => !idleTooLong st.idle p.1)
      if hd != "R" then (st, some "bad-trace")
      else if !sameNames (keep.map (·.1)) then
        (st, some (if keys.any (fun k => idleTooLong st.idle k) then "idle-transport-not-reaped" else "live-transport-reaped"))
      else (⟨keep, st.idle.filter (fun p => !idleTooLong st.idle p.1), st.maxId⟩, none)
    | ['g', c] =>
      let n := String.singleton c
      match hd.splitOn "=" with
      | [lhs, ids] =>
        match ids.toNat? with
        | none => (st, some "bad-trace")
        | some id =>
          if lhs != s!"g{n}" then (st, some "bad-trace") else
          let fresh := match st.maxId with | none => true | some m => decide (id > m)
          let st' : TrSpec := ⟨(st.cached.filter (·.1 != n)) ++ [(n, id)], st.idle.filter (·.1 != n),
                              some (match st.maxId with | none => id | some m => max m id)⟩
          match st.cached.find? (·.1 == n) with
          | some (_, t) => if id != t then (st', some "another-transport-for-a-cached-name")
                           else if !sameNames (st.cached.map (·.1)) then (st', some "cache-changed-by-a-hit") else (st', none)
          | none => if !fresh then (st', some "transport-of-another-name-returned")
                    else if !sameNames (n :: st.cached.map (·.1)) then (st', some "new-transport-not-cached") else (st', none)
      | _ => (st, some "bad-trace")
    | [k, c] =>
      let n := String.singleton c
      let present := (st.cached.find? (·.1 == n)).isSome
      if k != 'i' && k != 'j' then (st, some "bad-trace")
      else if hd != s!"{k}{n}:" ++ (if present then "1" else "0") then (st, some "cached-transport-not-found")
      else if !sameNames (st.cached.map (·.1)) then (st, some "cache-changed")
      else (⟨st.cached, if present then addIdle st.idle n (idleMinutes k) else st.idle, st.maxId⟩, none)
    | _ => (st, some "bad-trace")
  | _ => (st, some (if obs == "H" || obs.endsWith "H" then "a-move-never-finished(deadlock)" else "bad-trace"))

def trSpecLoop : List String → List String → Nat → TrSpec → Option String
  | [], [], _, _ => none
  | _ :: _, [], i, _ => some s!"violates:incomplete-trace@move{i}"
  | [], _ :: _, i, _ => some s!"violates:bad-trace@move{i}"
  | mv :: ms, o :: os, i, st =>
    match trSpecMove st mv o with
    | (_, some why) => some s!"violates:{why}@move{i}"
    | (st', none) => trSpecLoop ms os (i + 1) st'

def transportSpec (script impl : String) : String :=
  match trSpecLoop (script.splitOn ",") (impl.splitOn "|") 0 ⟨[], [], none⟩ with
  | some v => v
  | none => impl

def handleTransport (args : List String) : Option String :=
  match args with
  | [script, impl] => some (transportModel script ++ "\t" ++ transportSpec script impl)
  | _ => some "bad-op"

/-! ## concurrent VerifyJSONs calls on one key ring with one shared key database

op line:  conc.verify2  <cfg>  <sched>  <impl outcome>      (see harness/conc_verify.go)
  cfg     <db>|<world>|<caller>;<caller>[;<caller>]
          db, world : per server s0, s1, … the entry of (s<i>, ed25519:a): `-` | <slot 0|1><validity F|S|X>
          caller    : <fetch E|W|_>:<request>+…   request = <server><at o|n><rule s|l>
  sched   p, q, r = caller 0, 1, 2 runs to its next barrier (R database read, F fetcher, S database store; D = returned);
          afterwards every caller that has not returned is moved until it has, caller 0 first
  outcome <trace>#<verdicts>/<verdicts>…#<final database>

Model: `Verify.poke` move by move (VModel/ConcVerify.lean).
Specification (the property: "yields for every caller the result a sequential execution would give"; "stores what it
fetched"): the sequential executions are the orders of the callers that keep every caller which RETURNED before another
one STARTED in front of it (read off the implementation's trace), each call run alone on the database the previous
ones left (`Verify.serial`, i.e. the sequential model of C12).
  * where at most one caller's fetcher answers (all others fail or answer nothing), the outcome — every caller's
    verdicts and the final database together — must be the outcome of ONE of these orders (theorem
    `V.C19.verify_serializable_one_writer`);
  * where several callers' fetchers answer, every caller's verdicts must be those it gets in some such order, and the
    final database that of some such order.
Nothing may hang. -/

namespace V2
open V.KeyRing V.Conc.Verify

def v2Now : Nat := 100000000
def v2Kid : Bytes := strBytes "ed25519:a"
def v2Srv (i : Nat) : Bytes := strBytes s!"s{i}"
def v2Key (i j : Nat) : Bytes := List.replicate 32 (UInt8.ofNat (10 * i + j))

def parseEntry (i : Nat) (s : String) : Option (Option (KeyReq × KeyRes)) :=
  match s.toList with
  | ['-'] => some none
  | [sl, v] =>
    let j := sl.toNat - '0'.toNat
    if sl != '0' && sl != '1' then none else
    let q : KeyReq := ⟨v2Srv i, v2Kid⟩
    if v == 'F' then some (some (q, ⟨v2Key i j, 0, v2Now + 3600000⟩))
    else if v == 'S' then some (some (q, ⟨v2Key i j, 0, v2Now - 3600000⟩))
    else if v == 'X' then some (some (q, ⟨v2Key i j, v2Now - 7200000, 0⟩))
    else none
  | _ => none

def parseEntries (s : String) : Option (Nat × KeyMap) :=
  let parts := s.splitOn ","
  let rec go : List String → Nat → KeyMap → Option KeyMap
    | [], _, acc => some acc.reverse
    | e :: rest, i, acc =>
      match parseEntry i e with
      | none => none
      | some none => go rest (i + 1) acc
      | some (some x) => go rest (i + 1) (x :: acc)
  (go parts 0 []).map (fun m => (parts.length, m))

def parseReq (n : Nat) (s : String) : Option Request :=
  match s.toList with
  | [d, a, r] =>
    let i := d.toNat - '0'.toNat
    if d < '0' || i ≥ n || (a != 'o' && a != 'n') || (r != 's' && r != 'l') then none else
    some { server := v2Srv i, atTS := if a == 'o' then v2Now - 10800000 else v2Now - 60000, strict := r == 's', listOk := true,
           sigs := [{ keyID := v2Kid, reaches := true, verifies := fun k => k == v2Key i 0 }] }
  | _ => none

/-- (the caller, whether its fetcher answers the world) -/
def parseCaller (n : Nat) (world : KeyMap) (s : String) : Option (Caller × Bool) :=
  match s.splitOn ":" with
  | [f, rs] =>
    let script : Option FetchScript := if f == "E" then some none else if f == "W" then some (some world) else if f == "_" then some (some []) else none
    match script, (if rs == "" then some [] else (rs.splitOn "+").mapM (parseReq n)) with
    | some sc, some reqs => some (⟨reqs, [sc]⟩, f == "W")
    | _, _ => none
  | _ => none

structure Cfg where
  n : Nat
  db : KeyMap
  callers : List Caller
  writers : Nat

def parseCfg (s : String) : Option Cfg :=
  match s.splitOn "|" with
  | [d, w, cs] =>
    match parseEntries d, parseEntries w with
    | some (n, db), some (n', world) =>
      if n != n' || n > 3 then none else
      match (cs.splitOn ";").mapM (parseCaller n world) with
      | some l => if l.length < 1 || l.length > 3 then none else some ⟨n, db, l.map (·.1), (l.filter (·.2)).length⟩
      | none => none
    | _, _ => none
  | _ => none

def showObs : Obs → Char
  | .R => 'R' | .F => 'F' | .S => 'S' | .D => 'D' | .nop => '-'

def showRes : Except CallErr (List Bool) → String
  | .ok bits => if bits.isEmpty then "_" else String.ofList (bits.map (fun b => if b then '1' else '0'))
  | .error _ => "err"

def showEntry (i : Nat) (r : KeyRes) : String :=
  let slot := if r.key == v2Key i 0 then "0" else if r.key == v2Key i 1 then "1" else "?"
  if r.expiredTS == 0 && r.validUntilTS == v2Now + 3600000 then slot ++ "F"
  else if r.expiredTS == 0 && r.validUntilTS == v2Now - 3600000 then slot ++ "S"
  else if r.expiredTS == v2Now - 7200000 && r.validUntilTS == 0 then slot ++ "X"
  else slot ++ "?"

def showDB (n : Nat) (db : KeyMap) : String :=
  String.intercalate "," ((List.range n).map (fun i =>
    match AList.lookup (⟨v2Srv i, v2Kid⟩ : KeyReq) db with
    | some r => showEntry i r
    | none => "-"))

/-- the moves after the schedule: every caller that has not returned is moved until it has (at most 4 moves) -/
def finish (cs : List Caller) (k : Nat) (s : State) (tr : List Char) : State × List Char :=
  (List.range k).foldl (fun (acc : State × List Char) g =>
    (List.range 4).foldl (fun (a : State × List Char) _ =>
      match a.1.pcs[g]? with
      | some (PC.done _) => a
      | _ => let (s', o) := poke cs v2Now a.1 g; (s', showObs o :: a.2)) acc) (s, tr)

def model (c : Cfg) (sched : List Char) : String :=
  let k := c.callers.length
  let (s1, tr1) := sched.foldl (fun (acc : State × List Char) ch =>
      let (s', o) := poke c.callers v2Now acc.1 (ch.toNat - 'p'.toNat); (s', showObs o :: acc.2)) (init c.db k, [])
  let (s2, tr2) := finish c.callers k s1 tr1
  let verdicts := (List.range k).map (fun g => match resultOf s2 g with | some r => showRes r | none => "?")
  String.ofList tr2.reverse ++ "#" ++ String.intercalate "/" verdicts ++ "#" ++ showDB c.n s2.db

def permsAux : Nat → List Nat → List (List Nat)
  | 0, _ => [[]]
  | _, [] => [[]]
  | fuel + 1, l => l.flatMap (fun x => (permsAux fuel (l.filter (· != x))).map (x :: ·))

def perms (l : List Nat) : List (List Nat) := permsAux l.length l

/-- per caller: (index of its first move, index of the move with which it returned), read off the implementation's trace;
    the moves after the schedule are reconstructed as the harness makes them -/
def spans (k : Nat) (sched : List Char) (trace : List Char) : List (Option Nat × Option Nat) :=
  let note (sp : List (Option Nat × Option Nat)) (g i : Nat) (o : Char) : List (Option Nat × Option Nat) :=
    match sp[g]? with
    | none => sp
    | some (st, en) =>
      let st' := if st.isNone && o != '-' then some i else st
      let en' := if o == 'D' then some i else en
      sp.set g (st', en')
  let tr := trace.toArray
  let sp0 : List (Option Nat × Option Nat) := List.replicate k (none, none)
  let (sp1, pos) := sched.foldl (fun (acc : List (Option Nat × Option Nat) × Nat) ch =>
      (note acc.1 (ch.toNat - 'p'.toNat) acc.2 (tr[acc.2]?.getD '?'), acc.2 + 1)) (sp0, 0)
  let (sp2, _) := (List.range k).foldl (fun (acc : List (Option Nat × Option Nat) × Nat) g =>
      (List.range 4).foldl (fun (a : List (Option Nat × Option Nat) × Nat) _ =>
        match a.1[g]? with
        | some (_, some _) => a
        | _ => if a.2 < tr.size then (note a.1 g a.2 (tr[a.2]?.getD '?'), a.2 + 1) else a) acc) (sp1, pos)
  sp2

/-- `g` returned before `h` started -/
def precedes (sp : List (Option Nat × Option Nat)) (g h : Nat) : Bool :=
  match sp[g]?, sp[h]? with
  | some (_, some e), some (some s, _) => decide (e < s)
  | _, _ => false

def respects (sp : List (Option Nat × Option Nat)) (order : List Nat) : Bool :=
  let rec go : List Nat → Bool
    | [] => true
    | x :: rest => rest.all (fun y => !precedes sp y x) && go rest
  go order

def spec (c : Cfg) (sched : List Char) (impl : String) : String :=
  match impl.splitOn "#" with
  | [tr, vs, dbs] =>
    if tr.toList.contains 'H' then "violates:a-call-never-reached-its-next-barrier(hang)" else
    let k := c.callers.length
    let sp := spans k sched tr.toList
    if sp.any (fun p => p.2.isNone) then "violates:a-call-never-returned" else
    let orders := (perms (List.range k)).filter (respects sp)
    let outcomes := orders.map (fun o =>
      let (rs, db) := serial c.callers v2Now o c.db
      ((List.range k).map (fun g => match rs.find? (fun (p : Nat × Except CallErr (List Bool)) => p.1 == g) with | some (_, r) => showRes r | none => "?"), showDB c.n db))
    let implV := vs.splitOn "/"
    let seqs := String.intercalate "|" (outcomes.map (fun o => String.intercalate "/" o.1 ++ "#" ++ o.2))
    if c.writers ≤ 1 then
      if outcomes.any (fun o => o.1 == implV && o.2 == dbs) then impl
      else "violates:outcome-of-no-sequential-order(sequential:" ++ seqs ++ ")"
    else
      let badCaller := (List.range k).find? (fun g => !outcomes.any (fun o => o.1[g]? == implV[g]?))
      match badCaller with
      | some g => s!"violates:caller-{g}-holds-a-result-of-no-sequential-order(sequential:" ++ seqs ++ ")"
      | none =>
        if outcomes.any (fun o => o.2 == dbs) then impl
        else "violates:final-database-of-no-sequential-order(sequential:" ++ seqs ++ ")"
  | _ => "violates:no-result"

end V2

def handleVerify2 (args : List String) : Option String :=
  match args with
  | [cfg, sched, impl] =>
    match V2.parseCfg cfg with
    | some c =>
      if sched.toList.any (fun ch => ch < 'p' || ch.toNat - 'p'.toNat ≥ c.callers.length) then some "bad-op" else
      some (V2.model c sched.toList ++ "\t" ++ V2.spec c sched.toList impl)
    | none => some "bad-op"
  | _ => some "bad-op"

/-! ## getTransport: the model of a sequence of locked regions; race-detector ops have the model outcome `clean` -/

def handle (op : String) (args : Array String) : Option String :=
  match op with
  | "dns" => handleDns args.toList
  | "dns_size0" => handleDns args.toList
  | "fetch" => handleFetch true args.toList
  | "fetchbig" => handleFetch false args.toList
  | "fetch2" => handleFetch2 args.toList
  | "transport" => handleTransport args.toList
  | "verify2" => handleVerify2 args.toList
  | "race_dns" | "race_fetch" | "race_transport" | "race_event_readonly" | "race_eventid" => some "clean\tclean"
  | _ => none

end V.Driver.ConcOps
