/- Driver handlers for area `conc` (C19): schedule-for-schedule replay of the interleaving models. -/
import VDriver.Util
import VModel.ConcDns
import VModel.ConcFetch
namespace V.Driver.ConcOps
open V V.Driver V.Conc

/-! ## DNS cache

op line:  conc.dns  <cap>  <regime>  <ops>  <sched>  <impl trace>
  cap     decimal, the cache's `size`
  regime  h : duration 1h (nothing expires) | n : duration -1s (everything is expired when stored)
          s : duration 500ms with real sleeps (`z` moves) of 650ms
  ops     goroutines separated by `;`, ops by `,`:  `a` lookup a | `a!` lookup a, resolver fails | `-a` delete a
  sched   one char per harness move: p, q, r = poke goroutine 0, 1, 2; `z` = sleep past the duration
  trace   moves joined by `|`; a move is  <obs>[<sorted cache keys joined by ,>]
          obs:  R<g>:<n>:h:<addrs> | R<g>:<n>:m:<addrs> | F<g>:<n> | D<g>:<n> | B<g>:<n> | - | Z ; the trace ends early with H<g> (hang)
-/

def nameIdx (n : String) : Nat :=
  match n.toList with
  | [c] => if 'a' ≤ c ∧ c ≤ 'z' then c.toNat - 'a'.toNat else 25
  | _ => 26

/-- the scripted resolver's answer for a host name (a function of the name): 10.0.0.(i+1), and for odd i also 10.0.1.(i+1) -/
def ansOf (n : String) : List Nat :=
  let i := nameIdx n
  if i % 2 == 1 then [i + 1, 256 + i + 1] else [i + 1]

def dnsResolver (n : String) (sel : Nat) : Option (List Nat) := if sel == 0 then some (ansOf n) else none

def parseOp (s : String) : Option Dns.Op :=
  match s.toList with
  | ['-', c] => some (.del (String.singleton c))
  | [c, '!'] => some (.lookup (String.singleton c) 1)
  | [c] => some (.lookup (String.singleton c) 0)
  | _ => none

def parseOps (s : String) : Option (List (List Dns.Op)) :=
  (s.splitOn ";").mapM (fun g => if g == "" then some [] else (g.splitOn ",").mapM parseOp)

def showAddrs (a : List Nat) : String := String.intercalate "+" (a.map toString)

def showObs : Dns.Obs → String
  | .ret g (.hit n e) => s!"R{g}:{n}:h:{showAddrs e.addrs}"
  | .ret g (.miss n e) => s!"R{g}:{n}:m:{showAddrs e.addrs}"
  | .ret g (.fail n) => s!"F{g}:{n}"
  | .ret g (.deleted n) => s!"D{g}:{n}"
  | .blocked g n => s!"B{g}:{n}"
  | .noop => "-"
  | .hang g => s!"H{g}"
  | .stuck => "X"

def sortStrs (l : List String) : List String := l.mergeSort (fun a b => decide (a ≤ b))

def showKeys (s : Dns.State) : String := "[" ++ String.intercalate "," (sortStrs (s.entries.map (·.1))) ++ "]"

structure Regime where
  dur : Int
  tick : Int
  sleep : Int

def regimeOf : String → Option Regime
  | "h" => some ⟨1000000000, 1, 0⟩
  | "n" => some ⟨-1, 1, 0⟩
  | "s" => some ⟨1000, 1, 1500⟩
  | _ => none

def dnsReplay (c : Dns.Cfg) (rg : Regime) : List Char → Dns.State → Int → List String → List String
  | [], _, _, acc => acc.reverse
  | ch :: rest, s, t, acc =>
    if ch == 'z' then
      dnsReplay c rg rest s (t + rg.sleep) (("Z" ++ showKeys s) :: acc)
    else
      let g := ch.toNat - 'p'.toNat
      let t' := t + rg.tick
      let (s', o) := Dns.poke c 64 s g t'
      match o with
      | .hang _ => (showObs o :: acc).reverse
      | _ => dnsReplay c rg rest s' t' ((showObs o ++ showKeys s') :: acc)

def dnsModel (cap : Int) (rg : Regime) (todos : List (List Dns.Op)) (sched : String) : String :=
  let c : Dns.Cfg := ⟨cap, rg.dur, dnsResolver⟩
  String.intercalate "|" (dnsReplay c rg sched.toList (Dns.init todos 0) 0 [])

/-! ### the property's predicates, evaluated on the IMPLEMENTATION's trace -/

structure SpecSt where
  idx : List Nat                 -- per goroutine: index of its current op
  stored : List String           -- names stored since the last sleep (regime s)

def opAt (todos : List (List Dns.Op)) (g i : Nat) : Option Dns.Op := (todos[g]?).bind (·[i]?)

def bump (l : List Nat) (g : Nat) : List Nat := l.set g ((l[g]?).getD 0 + 1)

def hasDup : List String → Bool
  | [] => false
  | x :: xs => xs.contains x || hasDup xs

/-- check one move of the implementation's trace; `none` = fine -/
def specMove (cap : Int) (regime : String) (todos : List (List Dns.Op)) (st : SpecSt) (mv : String) : SpecSt × Option String :=
  -- split "<obs>[keys]"
  match mv.splitOn "[" with
  | [obs, ks] =>
    let keys := if ks == "]" then [] else ((ks.dropEnd 1).toString.splitOn ",")
    let sizeBad := (keys.length : Int) > max cap 0
    if sizeBad then (st, some "size-exceeded") else
    if hasDup keys then (st, some "duplicate-key") else
    let f := obs.splitOn ":"
    match obs.toList.head?, f with
    | some 'R', [rg, n, hm, ad] =>
      let g := (rg.drop 1).toString.toNat?.getD 99
      let cur := opAt todos g ((st.idx[g]?).getD 0)
      let st' : SpecSt := ⟨bump st.idx g, if hm == "m" then n :: st.stored else st.stored⟩
      if cur != some (.lookup n 0) && cur != some (.lookup n 1) then (st', some "answer-for-another-request")
      else if ad != showAddrs (ansOf n) then (st', some "wrong-host-addresses")
      else if hm == "h" && regime == "n" then (st', some "stale-entry-served")
      else if hm == "h" && regime == "s" && !st.stored.contains n then (st', some "stale-entry-served")
      else if hm == "h" && !keys.contains n then (st', some "hit-without-entry")
      else if hm == "m" && cap > 0 && !keys.contains n then (st', some "not-stored-under-requested-name")
      else (st', none)
    | some 'F', [rg, n] =>
      let g := (rg.drop 1).toString.toNat?.getD 99
      let cur := opAt todos g ((st.idx[g]?).getD 0)
      let st' : SpecSt := ⟨bump st.idx g, st.stored⟩
      if cur != some (.lookup n 1) then (st', some "failed-though-resolver-answered") else (st', none)
    | some 'D', [rg, n] =>
      let g := (rg.drop 1).toString.toNat?.getD 99
      (⟨bump st.idx g, st.stored⟩, if keys.contains n then some "deleted-entry-present" else none)
    | some 'B', [_, _] => (st, none)
    | some '-', _ => (st, none)
    | some 'Z', _ => (⟨st.idx, []⟩, none)
    | _, _ => (st, some "bad-trace")
  | _ =>
    if mv.startsWith "H" then (st, some "hang") else (st, some "bad-trace")

def specLoop (cap : Int) (regime : String) (todos : List (List Dns.Op)) : List String → Nat → SpecSt → Option String
  | [], _, _ => none
  | mv :: rest, i, st =>
    match specMove cap regime todos st mv with
    | (_, some why) => some s!"violates:{why}@move{i}"
    | (st', none) => specLoop cap regime todos rest (i + 1) st'

def dnsSpec (cap : Int) (regime : String) (todos : List (List Dns.Op)) (sched trace : String) : String :=
  let mvs := trace.splitOn "|"
  match specLoop cap regime todos mvs 0 ⟨todos.map (fun _ => 0), []⟩ with
  | some v => v
  | none => if mvs.length != sched.length then "violates:incomplete-trace" else trace

def handleDns (args : List String) : Option String :=
  match args with
  | [cap, regime, ops, sched, trace] =>
    match cap.toInt?, regimeOf regime, parseOps ops with
    | some cp, some rg, some todos =>
      some (dnsModel cp rg todos sched ++ "\t" ++ dnsSpec cp regime todos sched trace)
    | _, _, _ => some "bad-op"
  | _ => some "bad-op"

/-! ## FetchKeys

op line:  conc.fetch  <cfg>  <sched>  <impl outcome>
  cfg     servers separated by `;` (server i is named s<i>):  <kids>:<direct>:<notary>
          kids    requested key ids, `,`-separated codes: a = ed25519:a, z = ed25519:zz
          direct  L local server name | E error | G good | M good, several keys, old key overriding a verify key |
                  U unsigned | P partly signed | Z valid_until_ts = 0 | C no ed25519 key | W response names another server
          notary  E error | N no entry for the server | G [other server, good] | B [unsigned, good] (first match is bad) |
                  M [several keys] | - (local)
  sched   letters p, q, …, y: release the pending client call of server 0, 1, …, 9 (no-op if it has none); afterwards every
          remaining call is released in index order
  outcome <per move: `>` went on to the notary, `.` job done, `-` no-op>#<sorted results: srv/kid=K<i>.<j>:<validUntil>:<expired>, …>
conc.fetchbig  <cfg>  <policy>  <impl outcome>  : more than 64 servers (the queue is used); outcome = `#results` only.
-/

open Fetch in
def kidOf : String → String
  | "a" => "ed25519:a"
  | "z" => "ed25519:zz"
  | x => x

open Fetch in
def respG (name : String) (i vu : Nat) (k0 k1 : Nat) (chk : KCheck) : Resp :=
  ⟨name, vu, [("ed25519:a", 10 * i + k0, chk)], [("ed25519:o", 10 * i + k1, 500 + i)]⟩

open Fetch in
def respM (name : String) (i vu : Nat) (chkB : KCheck) : Resp :=
  ⟨name, vu, [("ed25519:a", 10 * i + 0, .ok), ("ed25519:b", 10 * i + 2, chkB), ("x25519:c", 10 * i + 3, .notEd)],
   [("ed25519:b", 10 * i + 1, 500 + i)]⟩

open Fetch in
def directOf (i : Nat) (code : String) : Option Resp :=
  let s := s!"s{i}"
  match code with
  | "G" => some (respG s i (1000 + i) 0 1 .ok)
  | "M" => some (respM s i (1000 + i) .ok)
  | "U" => some (respG s i (1000 + i) 0 1 .bad)
  | "P" => some (respM s i (1000 + i) .bad)
  | "Z" => some (respG s i 0 0 1 .ok)
  | "C" => some ⟨s, 1000 + i, [("x25519:c", 10 * i + 3, .notEd)], []⟩
  | "W" => some (respG s!"w{i}" i (1000 + i) 4 5 .ok)
  | _ => none

open Fetch in
def notaryOf (i : Nat) (code : String) : Option (List Resp) :=
  let s := s!"s{i}"
  match code with
  | "N" => some [respG s!"w{i}" i (2000 + i) 4 5 .ok]
  | "G" => some [respG s!"w{i}" i (2000 + i) 4 5 .ok, respG s i (2000 + i) 0 1 .ok]
  | "B" => some [respG s i (2000 + i) 0 1 .bad, respG s i (2000 + i) 0 1 .ok]
  | "M" => some [respM s i (2000 + i) .ok]
  | _ => none

structure SrvCfg where
  kids : List String
  direct : String
  notary : String

def parseSrv (s : String) : Option SrvCfg :=
  match s.splitOn ":" with
  | [k, d, n] => some ⟨if k == "" then [] else (k.splitOn ",").map kidOf, d, n⟩
  | _ => none

def srvIdx (s : String) : Option Nat :=
  match s.toList with
  | 's' :: ds => (String.ofList ds).toNat?
  | _ => none

open Fetch in
def fetchCfg (srvs : List SrvCfg) : Cfg :=
  let arr := srvs.toArray
  let code (sel : SrvCfg → String) (s : String) : Option (Nat × String) :=
    match srvIdx s with
    | some i => (arr[i]?).map (fun c => (i, sel c))
    | none => none
  { requests := (List.range srvs.length).flatMap (fun i => ((arr[i]?).map (·.kids)).getD [] |>.map (fun k => (s!"s{i}", k))),
    isLocal := fun s => match code (·.direct) s with | some (_, d) => d == "L" | none => false,
    localKey := 9999,
    direct := fun s => match code (·.direct) s with | some (i, d) => directOf i d | none => none,
    notary := fun s => match code (·.notary) s with | some (i, d) => notaryOf i d | none => none }

open Fetch in
def showVal (v : Val) : String :=
  (if v.key == 9999 then "KL" else s!"K{v.key / 10}.{v.key % 10}") ++ s!":{v.validUntilTS}:{v.expiredTS}"

open Fetch in
def showResults (m : RMap) : String :=
  String.intercalate "," (sortStrs (m.map (fun p => s!"{p.1.1}/{p.1.2}={showVal p.2}")))

open Fetch in
def fetchFinish (c : Cfg) (n : Nat) : Nat → State → State
  | 0, s => s
  | fuel + 1, s =>
    if s.wait == 0 then s else
    let s' := (List.range n).foldl (fun acc i => (release c (release c acc s!"s{i}").1 s!"s{i}").1) s
    fetchFinish c n fuel s'

open Fetch in
def fetchModel (srvs : List SrvCfg) (sched : List Char) (withTrace : Bool) : String :=
  let c := fetchCfg srvs
  let order := byServerKeys c
  let s0 := startAll c (init c order)
  let (s1, tr) := sched.foldl (fun (acc : State × String) ch =>
      let (s', o) := release c acc.1 s!"s{ch.toNat - 'p'.toNat}"
      (s', acc.2 ++ o)) (s0, "")
  let s2 := fetchFinish c srvs.length (srvs.length + 2) s1
  match step c s2 .main with
  | some s3 => (if withTrace then tr else "") ++ "#" ++ showResults s3.results ++ (if s3.negWait then "!negative-waitgroup" else "")
  | none => "stuck"

open Fetch in
def fetchSpec (srvs : List SrvCfg) (impl : String) : String :=
  -- the property: the result is the sequential union, whatever the schedule; nothing hangs
  match impl.splitOn "#" with
  | [tr, _] => tr ++ "#" ++ showResults (specMap (fetchCfg srvs))
  | _ => "violates:" ++ "no-result"

def handleFetch (withTrace : Bool) (args : List String) : Option String :=
  match args with
  | [cfg, sched, impl] =>
    match (cfg.splitOn ";").mapM parseSrv with
    | some srvs => some (fetchModel srvs (if withTrace then sched.toList else []) withTrace ++ "\t" ++ fetchSpec srvs impl)
    | none => some "bad-op"
  | _ => some "bad-op"

/-! ## getTransport: the model of a sequence of locked regions; race-detector ops have the model outcome `clean` -/

def handle (op : String) (args : Array String) : Option String :=
  match op with
  | "dns" => handleDns args.toList
  | "dns_size0" => handleDns args.toList
  | "fetch" => handleFetch true args.toList
  | "fetchbig" => handleFetch false args.toList
  | "race_dns" | "race_fetch" | "race_transport" | "race_event_readonly" | "race_eventid" => some "clean\tclean"
  | _ => none

end V.Driver.ConcOps
