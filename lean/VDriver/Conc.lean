/- Driver handlers for area `conc` (stub: replace `handle`). -/
import VDriver.Util
namespace V.Driver.ConcOps
open V V.Driver

def handle (_op : String) (_args : Array String) : Option String := none

end V.Driver.ConcOps
