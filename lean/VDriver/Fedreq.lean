/- Driver handlers for area `fedreq` (stub: replace `handle`). -/
import VDriver.Util
namespace V.Driver.FedreqOps
open V V.Driver

def handle (_op : String) (_args : Array String) : Option String := none

end V.Driver.FedreqOps
