/- Driver handlers for area `fedreq` (C13: federation request authentication). -/
import VDriver.Util
import VModel.FedReq
namespace V.Driver.FedreqOps
open V V.Driver V.FedReq V.Json

def sigPlaceholder : Bytes := strBytes "$SIG"

/-- `X<hex>` with a one-letter tag -/
def tagged (tag : String) (s : String) : Option Bytes :=
  if s.startsWith tag then unhex (s.drop tag.length).toString else none

def parseHexList (s : String) : Option (List Bytes) :=
  if s == "." then some [] else (s.splitOn ",").mapM unhex

def parseTable (s : String) : Option (List KeyEntry × Bool) :=
  let (dbErr, body) := if s.startsWith "!" then (true, (s.drop 1).toString) else (false, s)
  if body == "." then some ([], dbErr) else
  ((body.splitOn ",").mapM (fun (e : String) => match e.splitOn "|" with
    | [sv, kid, idx, vu, ex] =>
      match unhex sv, unhex kid, idx.toNat?, vu.toNat?, ex.toNat? with
      | some sv, some kid, some idx, some vu, some ex => some (⟨sv, kid, idx, vu, ex⟩ : KeyEntry)
      | _, _, _, _, _ => none
    | _ => none)).map (fun t => (t, dbErr))

def showSendErr : SendErr → String
  | .setContent => "err:setcontent"
  | .sign => "err:sign"
  | .build => "err:build"
  | .unmodelled => "skip:non-utf8-key-id-or-signature-text"

def showRefusal : Refusal → String
  | .badRequest => "err:400"
  | .unauthorized => "err:401"
  | .internal => "err:500"
  | .unmodelled => "skip:non-utf8-key-id-or-signature-text"

/-- canonical content as the harness prints it -/
def showContent (c : Option Bytes) : String :=
  match c with
  | none => "N"
  | some raw =>
    if raw.isEmpty then "N" else
    match canonical raw with
    | .ok b => "C" ++ hex b
    | .error _ => "R" ++ hex raw

def showOk (method uri origin dest : Bytes) (content : Option Bytes) : String :=
  "ok:" ++ hex method ++ "," ++ hex uri ++ "," ++ hex origin ++ "," ++ hex dest ++ "," ++ showContent content

def wallclock : Nat := 2000000000000

def canonOf (c : Option Bytes) : Option (Option Bytes) :=
  match contentValue c with
  | none => none
  | some none => some none
  | some (some v) => some (some (encodeCanon v))

/-- ops:
    verify  (see harness/area_fedreq.go for the 20 arguments)
       -> ok:<method>,<uri>,<origin>,<destination>,<content> | err:setcontent | err:sign | err:build | err:400 | err:401 | err:500
    parseauth <hx header> -> <scheme>,<origin>,<destination>,<key>,<sig> (hex each)
-/
def handle (op : String) (args : Array String) : Option String :=
  match op, args.toList with
  | "parseauth", [h] =>
    match unhex h with
    | some hdr =>
      let a := parseAuthorization hdr
      some ("auth:" ++ hex a.scheme ++ "," ++ hex a.origin ++ "," ++ hex a.destination ++ "," ++ hex a.key ++ "," ++ hex a.sig)
    | none => some "bad-op"
  | "verify", [m, o, d, u, c, sn, kid, kidx, up, txm, _txuText, txu, _txct, txmt, txb, txa, now, rd, loc, tbl] =>
    let content : Option (Option Bytes) := if c == "N" then some none else (tagged "J" c).map some
    let urlParse : Option (Option Bytes) := if up == "E" then some none else (tagged "U" up).map some
    let localNames : Option (Option (List Bytes)) := if loc == "nil" then some none else (parseHexList loc).map some
    match unhex m, unhex o, unhex d, unhex u, content, unhex sn, unhex kid, kidx.toNat?, urlParse,
          now.toNat?, unhex rd, localNames, parseTable tbl with
    | some m, some o, some d, some u, some content, some sn, some kid, some kidx, some urlParse,
      some now, some rd, some localNames, some (table, dbErr) =>
      -- sender side
      let f0 := newRequest m o d u
      let f1 : Except SendErr Fields := match content with
        | none => .ok f0
        | some raw => setContent f0 raw
      let sent : Except SendErr (Fields × JVal × HttpReq) := do
        let f1 ← f1
        -- record the object that is signed
        let fo := { f1 with origin := sn }
        let obj := match contentValue fo.content with
          | some cv => signingObject cv fo.destination fo.method fo.origin fo.uri
          | none => .null
        let f2 ← sign f1 sn kid (fun _ => sigPlaceholder)
        let req ← httpRequest f2 urlParse
        pure (f2, obj, req)
      match sent with
      | .error e => let s := showSendErr e; some (s ++ "\t" ++ s)
      | .ok (signed, signedObj, produced) =>
        -- the transmitted request: the produced one with the tampered parts replaced
        let txMethod := if txm == "=" then some produced.method else tagged "M" txm
        let txURI := if txu == "=" then some produced.requestURI else tagged "U" txu
        let txMedia : Option (Option Bytes) :=
          if txmt == "=" then some produced.mediaType else if txmt == "E" then some none else (tagged "T" txmt).map some
        let txBody := if txb == "=" then some produced.body else tagged "B" txb
        let txAuth := if txa == "=" then some produced.authorization else parseHexList txa
        match txMethod, txURI, txMedia, txBody, txAuth with
        | some txMethod, some txURI, some txMedia, some txBody, some txAuth =>
          let req : HttpReq := ⟨txMethod, txURI, txBody, txMedia, txAuth⟩
          let signedPayload := encodeCanon signedObj
          let sigOK (pk : Nat) (obj : JVal) (sig : Bytes) : Bool :=
            sig == sigPlaceholder && pk == kidx && encodeCanon obj == signedPayload
          let isLocal := localNames.map (fun names => fun (n : Bytes) => names.contains n)
          -- the receiver's JSONVerifier is a KeyRing: VerifyJSON = the gate of signing.go on the message, then the signature
          let res := verifyWithKeyRing req now rd isLocal table dbErr wallclock sigOK
          let mOut := match res with
            | .ok r => showOk r.method r.uri r.origin r.destination r.content
            | .error e => showRefusal e
          -- specification stream -----------------------------------------------------------------
          -- what was signed
          let sMethod := signed.method
          let sURI := signed.uri
          let sOrigin := signed.origin
          let sDest := signed.destination
          let sContent := signed.content
          -- what the transmitted request claims (X-Matrix headers read with the model's parser)
          let xs := (txAuth.map parseAuthorization).filter (fun a => a.scheme == xMatrix)
          let noXMatrix := xs.isEmpty
          let malformed := xs.any (fun a => a.origin.isEmpty || a.key.isEmpty || a.sig.isEmpty)
          let origins := xs.map (·.origin)
          let claimedOrigin := origins.getLast?.getD []
          let conflictingOrigins := origins.any (fun x => x != claimedOrigin)
          let hdrDest := (xs.getLast?.map (·.destination)).getD []
          let claimedDest := if hdrDest.isEmpty then rd else hdrDest
          let owned := if hdrDest.isEmpty then true else match localNames with
            | some names => names.contains hdrDest
            | none => rd == hdrDest
          let bodyPresent := !txBody.isEmpty
          let badBody := bodyPresent && (txMedia != some applicationJSON || !utf8Valid txBody)
          let contentDiffers :=
            match canonOf sContent, canonOf (if bodyPresent then some txBody else none) with
            | some a, some b => a != b
            | _, _ => true
          let keyOK := !dbErr && xs.any (fun a => a.sig == sigPlaceholder &&
            table.any (fun k => k.server == claimedOrigin && k.keyID == a.key && k.pk == kidx && wasValidAt wallclock k now))
          let mustRefuse := txMethod != sMethod || txURI != sURI || claimedOrigin != sOrigin || conflictingOrigins ||
            claimedDest != sDest || contentDiffers || !owned || noXMatrix || malformed ||
            !validServerName claimedOrigin || badBody || !keyOK
          let pristine := txm == "=" && txu == "=" && txmt == "=" && txb == "=" && txa == "="
          let signedOut := showOk sMethod sURI sOrigin sDest sContent
          -- key IDs range over the grammar ed25519:[A-Za-z0-9_]+ (the only algorithm the key ring supports)
          let kidSuffix := kid.drop ed25519Prefix.length
          let kidInGrammar := ed25519Prefix.isPrefixOf kid && !kidSuffix.isEmpty &&
            kidSuffix.all (fun c => (0x30 ≤ c && c ≤ 0x39) || (0x41 ≤ c && c ≤ 0x5A) || (0x61 ≤ c && c ≤ 0x7A) || c == 0x5F)
          -- completeness: an untouched request must be accepted when the receiver owns the named destination and
          -- holds the signing key as valid at the time of receipt (decided from what was signed, not from the header)
          let sOwned := !sDest.isEmpty && (match localNames with
            | some names => names.contains sDest
            | none => rd == sDest)
          let sKeyValid := !dbErr && table.any (fun k => k.server == sOrigin && k.keyID == kid && k.pk == kidx && wasValidAt wallclock k now)
          -- (a body that is not valid UTF-8 is to be refused even when it is the signed one: the sender's fault)
          let acceptDemanded := pristine && !badBody && sOwned && validServerName sOrigin && validServerName sDest && sKeyValid
          let sOut :=
            if m.isEmpty then "unspecified:empty-method"
            else if !kidInGrammar then "unspecified:key-id-outside-grammar"
            else if acceptDemanded then signedOut
            else if mustRefuse then (match res with | .error e => showRefusal e | .ok _ => "err:must-refuse")
            else (match res with | .ok _ => signedOut | .error e => showRefusal e)
          some (mOut ++ "\t" ++ sOut)
        | _, _, _, _, _ => some "bad-op"
    | _, _, _, _, _, _, _, _, _, _, _, _, _ => some "bad-op"
  | _, _ => none

end V.Driver.FedreqOps
