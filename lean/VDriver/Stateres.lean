/- Driver handlers for area `stateres` (stub: replace `handle`). -/
import VDriver.Util
namespace V.Driver.StateresOps
open V V.Driver

def handle (_op : String) (_args : Array String) : Option String := none

end V.Driver.StateresOps
