/- Driver handlers for area `stateres` (C10, C11). -/
import VDriver.Util
import VDriver.Auth
import VModel.StateRes
import VModel.StateResSpecExec
namespace V.Driver.StateresOps
open V V.Json V.Driver V.Auth V.StateRes V.Driver.AuthOps

def idxList (s : String) : List Nat :=
  if s == "-" || s == "" then [] else (s.splitOn ".").map String.toNat!

def sortIDs (ids : List Bytes) : List Bytes := sortBy bytesLt ids

def showIDs (ids : List Bytes) : String := ",".intercalate ((sortIDs ids).map bytesStr)

structure Parsed where
  ver : Bytes
  evs : Array Event
  sets : List (List Event)
  auth : List Event
  rejected : List Bytes
  sha : Bytes → Bytes

def parseArgs (ver setsS authS rejS shaS : String) (evArgs : List String) : Option Parsed :=
  let v := strBytes ver
  match parseEvArgs v evArgs with
  | none => none
  | some es =>
    let arr := es.toArray
    let get (i : Nat) : Event := arr[i]!
    let shas := (shaS.splitOn ".").map (fun h => (unhex h).getD [])
    let table : List (Bytes × Bytes) := (es.map (·.eventID)).zip shas
    some { ver := v, evs := arr,
           sets := (setsS.splitOn "|").map (fun s => (idxList s).map get),
           auth := (idxList authS).map get,
           rejected := (idxList rejS).map (fun i => (get i).eventID),
           sha := fun id => ((table.find? (fun x => x.1 == id)).map (·.2)).getD [] }

/-- C11 result predicates evaluated on the implementation's answer `res` (sorted ID list, or an error marker) -/
def resultProps (p : Parsed) (old : Bool) (res : String) : String :=
  if res.startsWith "nondet" then "violates:order-dependent"
  else if res.startsWith "malformed" then "violates:" ++ res
  else if res.startsWith "panic" then "violates:panic"
  else if res == "err" then "ok"
  -- the deprecated resolver returns nothing at all when the auth events lack the create event ("we should return an
  -- error here"): such inputs are outside the well-formed domain (auth events cover the auth chains)
  else if old && (getCreateEvent p.auth).isNone then "unspecified:auth events lack the create event"
  else
    let ids : List Bytes := if res.isEmpty then [] else (res.splitOn ",").map strBytes
    let supplied := (p.sets.flatten ++ p.auth).map (·.eventID)
    let all := p.sets.flatten
    let inSupplied := ids.all (fun id => supplied.contains id)
    -- keys on which every state set agrees must keep exactly that event
    let groups := groupByKey (distinctStateEvents p.sets)
    let agreed := groups.filter (fun g => g.2.length == 1 &&
      p.sets.all (fun s => s.any (fun e => e.eventID == (g.2.head!).eventID)))
    -- the deprecated entry point decides "conflicted" on the flattened input: a key with a single event is kept
    let keep := if old then groups.filter (fun g => g.2.length == 1) else agreed
    let keepsAgreed := keep.all (fun g => ids.contains (g.2.head!).eventID)
    let allEqual := match p.sets with
      | [] => true
      | s0 :: rest => rest.all (fun s => sortIDs (s.map (·.eventID)) == sortIDs (s0.map (·.eventID)))
    let eqState := !allEqual || (match p.sets with
      | [] => true
      | s0 :: _ => sortIDs ids == sortIDs ((eventMapFromEvents s0).filter (fun e => e.stateKey.isSome) |>.map (·.eventID)))
    let _ := all
    if !inSupplied then "violates:result-not-subset-of-inputs"
    else if !keepsAgreed then "violates:agreed-key-not-kept"
    else if !eqState then "violates:equal-sets-not-returned"
    else "ok"

def handle (op : String) (args : Array String) : Option String :=
  match op, args.toList with
  | "resolve", ver :: setsS :: authS :: rejS :: shaS :: evArgs =>
    match parseArgs ver setsS authS rejS shaS evArgs with
    | none => some "bad-op"
    | some p =>
      match resolveConflictsNew p.sha p.ver p.sets p.auth p.rejected with
      | none => some "err"
      | some ids =>
        -- C10: the model is the executable definition (the algorithm with the library's refinements), so the
        -- specification stream is the model's answer: a different result is a concrete violation
        -- the specification stream is computed by the executable rendering of the definition (VModel/StateResSpecExec.lean),
        -- which shares no loop with the model (version 1: `Exec.v1Result`, the definition `V1Result` executed)
        let algo := ((versionRow? p.ver).map (·.stateResAlgorithm)).getD 0
        let specIDs := if algo == 2 || algo == 3 then V.StateResSpec.Exec.resolve algo p.sets p.auth p.rejected
          else if algo == 1 then V.StateResSpec.Exec.v1Result p.sha p.sets p.auth else ids
        some (showIDs ids ++ "\t" ++ showIDs specIDs)
  | "resolve_twice", ver :: setsS :: authS :: rejS :: shaS :: nS :: evArgs =>
    -- history A and a history B re-using A's event IDs with other contents, resolved in ONE process in the order B, A, B, A:
    -- C11 "on every run of the process" demands the same answer for the two runs of A, namely what A resolves to on its
    -- own (the model is a function of its arguments, so its answer is the resolution of A followed by `same`)
    match parseArgs ver setsS authS rejS shaS (evArgs.take nS.toNat!) with
    | none => some "bad-op"
    | some p =>
      match resolveConflictsNew p.sha p.ver p.sets p.auth p.rejected with
      | none => some "err|same"
      | some ids =>
        let algo := ((versionRow? p.ver).map (·.stateResAlgorithm)).getD 0
        let specIDs := if algo == 2 || algo == 3 then V.StateResSpec.Exec.resolve algo p.sets p.auth p.rejected
          else if algo == 1 then V.StateResSpec.Exec.v1Result p.sha p.sets p.auth else ids
        some (showIDs ids ++ "|same\t" ++ showIDs specIDs ++ "|same")
  | "resolve_cyc", ver :: setsS :: authS :: rejS :: shaS :: evArgs =>
    -- room versions 1 / 2 with sender-chosen event IDs: the auth graph may be CYCLIC (the harness runs the op in a child
    -- process).  The algorithm's definition (C10) speaks about DAGs only, so there is no specification answer for the
    -- resolved state; what C18 / C11 demand of such inputs — the call returns (any `panic:` outcome is a concrete
    -- violation), the result is well formed (`resolve_props` on the implementation's answer) — is checked apart.
    match parseArgs ver setsS authS rejS shaS evArgs with
    | none => some "bad-op"
    | some p =>
      match resolveConflictsNew p.sha p.ver p.sets p.auth p.rejected with
      | none => some "err"
      | some ids => some (showIDs ids ++ "\tunspecified:cyclic auth_events are outside the algorithm's definition")
  | "resolve_old_cyc", ver :: setsS :: authS :: rejS :: shaS :: evArgs =>
    match parseArgs ver setsS authS rejS shaS evArgs with
    | none => some "bad-op"
    | some p =>
      match resolveConflictsOld p.sha p.ver p.sets.flatten p.auth p.rejected with
      | none => some "err"
      | some ids => some (showIDs ids)
  | "stages", ver :: setsS :: authS :: rejS :: shaS :: evArgs =>
    match parseArgs ver setsS authS rejS shaS evArgs with
    | none => some "bad-op"
    | some p =>
      let algo := ((versionRow? p.ver).map (·.stateResAlgorithm)).getD 0
      let st := resolveV2New algo p.sets p.auth p.rejected
      let sh (l : List Bytes) := " ".intercalate (l.map bytesStr)
      some ("conflicted=" ++ sh st.conflicted ++ " ; unconflicted=" ++ sh st.unconflicted ++ " ; authDiff=" ++ sh st.authDiff
        ++ " ; control=" ++ sh st.control ++ " ; others=" ++ sh st.others ++ " ; controlOrder=" ++ sh st.controlOrder
        ++ " ; othersOrder=" ++ sh st.othersOrder ++ " ; result=" ++ sh st.result)
  | "resolve_old", ver :: setsS :: authS :: rejS :: shaS :: evArgs =>
    -- the deprecated entry point `ResolveConflicts` over the flattened state sets (C11)
    match parseArgs ver setsS authS rejS shaS evArgs with
    | none => some "bad-op"
    | some p =>
      match resolveConflictsOld p.sha p.ver p.sets.flatten p.auth p.rejected with
      | none => some "err"
      | some ids => some (showIDs ids)
  | "resolve_props", ver :: tagged :: setsS :: authS :: rejS :: shaS :: evArgs =>
    match parseArgs ver setsS authS rejS shaS evArgs with
    | none => some "bad-op"
    | some p =>
      let old := tagged.startsWith "old:"
      let res := bytesStr ((unhex (tagged.drop 4).toString).getD [])
      some ("ok\t" ++ resultProps p old res)
  | _, _ => none

end V.Driver.StateresOps
