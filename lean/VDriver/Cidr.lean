/- Driver handlers for area `cidr` (stub: replace `handle`). -/
import VDriver.Util
namespace V.Driver.CidrOps
open V V.Driver

def handle (_op : String) (_args : Array String) : Option String := none

end V.Driver.CidrOps
