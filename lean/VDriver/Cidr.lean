/- Driver handlers for area `cidr` (C16: outbound network policy). -/
import VDriver.Util
import VModel.Cidr
namespace V.Driver.CidrOps
open V V.Driver V.Cidr

def natOfHex (s : String) : Option Nat :=
  s.toList.foldl (fun acc c => match acc, hexDigitVal c with
    | some n, some d => some (n * 16 + d)
    | _, _ => none) (some 0)

def hexOfNat (width : Nat) (n : Nat) : String :=
  String.ofList ((List.range width).reverse.map (fun i => hexChar ((n / 16 ^ i) % 16)))

def unhexStr (s : String) : Option Cidr.Str := (unhex s).map (fun b => (bytesStr b).toList)

/-- `<bitLen>/<hex32>/<ones>` or `x` -/
def parseNum (s : String) : Option (Option CIDR) :=
  if s == "x" then some none else
  match s.splitOn "/" with
  | [b, a, n] =>
    match b.toNat?, natOfHex a, n.toNat? with
    | some b, some a, some n => some (some ⟨b, a, n⟩)
    | _, _, _ => none
  | _ => none

def showCIDR : Option CIDR → String
  | none => "x"
  | some c => toString c.bitLen ++ "/" ++ hexOfNat 32 c.addr16 ++ "/" ++ toString c.ones

/-- an entry `hex(text)=<num>`: returns (Lean's parse of the text, Go's parse) -/
def parseEntry (e : String) : Option (Option CIDR × Option CIDR) :=
  match e.splitOn "=" with
  | [t, n] =>
    match unhexStr t, parseNum n with
    | some txt, some g => some (parseCIDR txt, g)
    | _, _ => none
  | _ => none

def parseList (s : String) : Option (List (Option CIDR × Option CIDR)) :=
  if s == "." then some [] else (s.splitOn ",").mapM parseEntry

def showVerdict : Verdict → String
  | .ok => "ok"
  | .badNetwork => "err:network"
  | .badHostPort => "err:hostport"
  | .badIP => "err:ip"
  | .denied => "err:denied"

/-- ops:
    control <net> <addr> <split> <goip> <allow> <deny>  -> ok | err:network | err:hostport | err:ip | err:denied   (+ spec)
    allowed <ip hex32> <allow> <deny>                   -> true | false                                            (+ spec)
    parseip <text>                                      -> x | <hex32>
    parsecidr <text>                                    -> x | <bitLen>/<hex32>/<ones>
-/
def handle (op : String) (args : Array String) : Option String :=
  match op, args.toList with
  | "control", [net, _addr, split, goip, al, dl] =>
    match unhexStr net, parseList al, parseList dl with
    | some network, some allow2, some deny2 =>
      let sp : Option (Option Cidr.Str) :=
        if split == "E" then some none
        else if split.startsWith "H" then (unhexStr (split.drop 1).toString).map some
        else none
      match sp with
      | none => some "bad-op"
      | some sp =>
        -- the text layer is tied here: Lean's parse of every entry must be Go's
        if (allow2 ++ deny2).any (fun p => p.1 != p.2) then some "tie:parsecidr-mismatch" else
        let allow := allow2.map (·.1)
        let deny := deny2.map (·.1)
        let leanIP := sp.bind parseIP
        let goIP := if goip == "x" then none else natOfHex goip
        if sp.isSome && leanIP != goIP then some "tie:parseip-mismatch" else
        let m := control allow deny network sp
        let netOK := network == "tcp4".toList || network == "tcp6".toList
        let specOK : Bool := netOK && (match leanIP with
          | some ip => decide (Spec.permitted (normalise ip) allow deny)
          | none => false)
        let s := if specOK then "ok" else if m != .ok then showVerdict m else "err:must-refuse"
        some (showVerdict m ++ "\t" ++ s)
    | _, _, _ => some "bad-op"
  | "allowed", [ip, al, dl] =>
    match natOfHex ip, parseList al, parseList dl with
    | some ip16, some allow2, some deny2 =>
      if (allow2 ++ deny2).any (fun p => p.1 != p.2) then some "tie:parsecidr-mismatch" else
      let allow := allow2.map (·.1)
      let deny := deny2.map (·.1)
      let m := isAllowed ip16 allow deny
      let s : Bool := decide (Spec.permitted (normalise ip16) allow deny)
      some (toString m ++ "\t" ++ toString s)
    | _, _, _ => some "bad-op"
  | "parseip", [t] =>
    match unhexStr t with
    | some txt => some ("ip:" ++ (match parseIP txt with | none => "x" | some a => hexOfNat 32 a))
    | none => some "bad-op"
  | "parsecidr", [t] =>
    match unhexStr t with
    | some txt => some ("cidr:" ++ showCIDR (parseCIDR txt))
    | none => some "bad-op"
  | _, _ => none

end V.Driver.CidrOps
