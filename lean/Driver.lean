/-
  Driver: line protocol between the Go harness and the Lean models.
  One op per input line:  <area>.<op> TAB arg TAB arg ...   ->  one output line.
  Core Lean only (links as a lean_exe).
-/
import VDriver.Util
import VDriver.Json
import VDriver.Fuzz
import VDriver.Ident
import VDriver.B64
import VDriver.Limits
import VDriver.Vertable
import VDriver.Tokens
import VDriver.Keyring
import VDriver.Resolve
import VDriver.Cidr
import VDriver.Wellknown
import VDriver.Fedreq
import VDriver.Conc
import VDriver.Sign
import VDriver.Signers
import VDriver.Redact
import VDriver.Event
import VDriver.Auth
import VDriver.Pl
import VDriver.Ctx
import VDriver.Stateres
import VDriver.Topo
import VDriver.Fedcheck
import VDriver.Handshake

open V.Driver

def dispatch (line : String) : String :=
  let parts := (line.splitOn "\t").toArray
  if parts.size == 0 then "bad-op" else
  let full := parts[0]!
  let args := parts.extract 1 parts.size
  match full.splitOn "." with
  | [area, op] =>
    let r : Option String := match area with
      | "json" => JsonOps.handle op args
      | "fuzz" => FuzzOps.handle op args
      | "ident" => IdentOps.handle op args
      | "b64" => B64Ops.handle op args
      | "limits" => LimitsOps.handle op args
      | "vertable" => VertableOps.handle op args
      | "tokens" => TokensOps.handle op args
      | "keyring" => KeyringOps.handle op args
      | "resolve" => ResolveOps.handle op args
      | "cidr" => CidrOps.handle op args
      | "wellknown" => WellknownOps.handle op args
      | "fedreq" => FedreqOps.handle op args
      | "conc" => ConcOps.handle op args
      | "sign" => SignOps.handle op args
      | "signers" => SignersOps.handle op args
      | "redact" => RedactOps.handle op args
      | "event" => EventOps.handle op args
      | "auth" => AuthOps.handle op args
      | "pl" => PlOps.handle op args
      | "ctx" => CtxOps.handle op args
      | "stateres" => StateresOps.handle op args
      | "topo" => TopoOps.handle op args
      | "fedcheck" => FedcheckOps.handle op args
      | "handshake" => HandshakeOps.handle op args
      | _ => none
    r.getD "bad-op"
  | _ => "bad-op"

partial def loop (hin hout : IO.FS.Stream) : IO Unit := do
  let line ← hin.getLine
  if line.isEmpty then return ()
  let l := if line.back == '\n' then (line.dropEnd 1).toString else line
  hout.putStrLn (dispatch l)
  loop hin hout

def main : IO Unit := do
  let hin ← IO.getStdin
  let hout ← IO.getStdout
  loop hin hout
  hout.flush
