/-
  Driver: line protocol between the Go harness and the Lean models.
  One op per input line:  <area>.<op> TAB arg TAB arg ...   ->  one output line.
  Core Lean only (links as a lean_exe).
-/
import VDriver.Util
import VDriver.Json

open V.Driver

def dispatch (line : String) : String :=
  let parts := (line.splitOn "\t").toArray
  if parts.size == 0 then "bad-op" else
  let full := parts[0]!
  let args := parts.extract 1 parts.size
  match full.splitOn "." with
  | [area, op] =>
    let r : Option String := match area with
      | "json" => JsonOps.handle op args
      | _ => none
    r.getD "bad-op"
  | _ => "bad-op"

partial def loop (hin hout : IO.FS.Stream) : IO Unit := do
  let line ← hin.getLine
  if line.isEmpty then return ()
  let l := if line.back == '\n' then (line.dropEnd 1).toString else line
  hout.putStrLn (dispatch l)
  loop hin hout

def main : IO Unit := do
  let hin ← IO.getStdin
  let hout ← IO.getStdout
  loop hin hout
  hout.flush
