/-
  VModel.Signers — executable model of VerifyEventSignatures (eventcrypto.go): which servers must have
  signed an event (`needed` map), and the verdict given a signature-verifier oracle.

  The JSON handed to the verifier is the event's redacted JSON (redaction is C05's model; the
  correspondence checks that the request message IS RedactEventJSON(event JSON)); each request is made at
  the event's origin_server_ts with the room version's validity rule.  The verifier (KeyRing in
  production, C12) is an oracle `valid : server → Bool`.

  Version-dependent behaviour comes from the regenerated table `VGen.roomVersions` (columns
  eventIDFormat, restrictedJoinServernameFunc, signatureValidityCheckFunc).  Core Lean only.
-/
import VModel.Event
import VModel.Auth
import VModel.Sign
namespace V.Signers
open V V.Json V.GoJson

/-- `SplitID(sigil, id)`: the domain is everything after the first `:`; an ID that does not start with
    the sigil or has no `:` is an error. -/
def splitIDDomain (sigil : UInt8) (id : Bytes) : Option Bytes :=
  match id with
  | [] => none
  | c :: _ => if c == sigil then (cutAt 0x3A id).map (·.2) else none

/-- first member with the exact key (gjson path lookup) -/
def getFirst : List (Bytes × JVal) → Bytes → Option JVal
  | [], _ => none
  | (k', v) :: rest, k => if k' == k then some v else getFirst rest k

def errRej (why : String) : Err := .other why

/-- decoding `{membership string}` from the content (Go struct decoding: case-folded key, null tolerated) -/
def membershipField (c : JVal) : Option Bytes :=
  match c with
  | .null => some []
  | .obj kvs =>
    let d := decString (lookupField kvs b!"membership")
    if d.err then none else some d.val
  | _ => none

/-- `e.Membership()`: decode the content, then insist on a state key. -/
def membership (e : Event) : Except Err Bytes :=
  match e.content with
  | none => .error (errRej "membership")
  | some c =>
    match membershipField c with
    | none => .error (errRej "membership")
    | some m => if e.stateKey.isNone then .error (errRej "membership") else .ok m

/-- `extractAuthorisedViaServerName(content)`: `gjson.GetBytes(content, "join_authorised_via_users_server")`;
    if the member exists its `String()` must split as a user ID.  For a non-string value `String()` is the
    raw JSON text (or "" for null), which never starts with `@`: an error.  `ok []` = nobody extra. -/
def extractAuthorisedVia (content : Option JVal) : Except Err Bytes :=
  match content with
  | some (.obj kvs) =>
    match getFirst kvs b!"join_authorised_via_users_server" with
    | none => .ok []
    | some (.str s) =>
      match splitIDDomain 0x40 s with
      | some d =>
        -- an empty server name ("@user:") would be taken for "nobody" by the caller: refused (commit d4c4559)
        if d.isEmpty then .error (errRej "authorised-via") else .ok d
      | none => .error (errRej "authorised-via")
    | some _ => .error (errRej "authorised-via")
  | _ => .ok []

/-- `verImpl.RestrictedJoinServername(content)` by the regenerated column. -/
def restrictedJoinServername (row : VGen.VersionRow) (content : Option JVal) : Except Err Bytes :=
  if row.restrictedJoinServernameFunc == "extractAuthorisedViaServerName" then extractAuthorisedVia content
  else if row.restrictedJoinServernameFunc == "emptyAuthorisedViaServerName" then .ok []
  else .error (.panic "eventversion.go:RestrictedJoinServername nil function")

/-- insertion into the `needed` set -/
def addNeeded (s : Bytes) (l : List Bytes) : List Bytes := if l.contains s then l else l ++ [s]

def pseudoIDVersion : Bytes := b!"org.matrix.msc4014"

/-- The `needed` map of VerifyEventSignatures for non-pseudo-ID room versions.
    `senderDomain` is the answer of `userIDForSender` (error / no user / user's domain). -/
def requiredSigners (row : VGen.VersionRow) (e : Event) (senderDomain : Except Err (Option Bytes)) :
    Except Err (List Bytes) :=
  -- the sender's server
  match senderDomain with
  | .error err => .error err
  | .ok sd =>
    let n0 : List Bytes := match sd with
      | some d => [d]
      | none => []
    -- room versions whose event IDs name a server
    let n1? : Option (List Bytes) :=
      if row.eventIDFormat == 1 then (splitIDDomain 0x24 e.eventID).map (fun d => addNeeded d n0)
      else some n0
    match n1? with
    | none => .error (errRej "event-id")
    | some n1 =>
      if e.type != b!"m.room.member" then .ok n1
      else
        match membership e with
        | .error err => .error err
        | .ok m =>
          -- invites: the invited user's server
          let n2? : Except Err (List Bytes) :=
            if m == b!"invite" then
              match e.stateKey with
              | none => .error (.panic "eventcrypto.go:VerifyEventSignatures *e.StateKey()")
              | some sk =>
                match splitIDDomain 0x40 sk with
                | some d => .ok (addNeeded d n1)
                | none => .error (errRej "state-key")
            else .ok n1
          match n2? with
          | .error err => .error err
          | .ok n2 =>
            -- joins: the server of the user who authorised a restricted join
            if m == b!"join" then
              match restrictedJoinServername row e.content with
              | .error err => .error err
              | .ok auth => if auth.isEmpty then .ok n2 else .ok (addNeeded auth n2)
            else .ok n2

/-- Does the version demand the strict key-validity rule (`valid_until_ts` honoured)? -/
def strictValidity (row : VGen.VersionRow) : Bool :=
  row.signatureValidityCheckFunc == "StrictValiditySignatureCheck"

/-- One VerifyJSONRequest: the redacted event (abstract), for `server`, at `ts`, with the validity rule. -/
structure Request where
  server : Bytes
  ts : Nat
  strict : Bool
  deriving Repr, DecidableEq

def requests (row : VGen.VersionRow) (e : Event) (senderDomain : Except Err (Option Bytes)) : Except Err (List Request) :=
  match requiredSigners row e senderDomain with
  | .error err => .error err
  | .ok l => .ok (l.map (fun s => ⟨s, e.originServerTS, strictValidity row⟩))

/-- Model of `VerifyEventSignatures`.  `valid r` = the verifier reports no error for request `r`;
    `verifierFails` = `VerifyJSONs` itself returned an error. -/
def verifyEventSignatures (row : VGen.VersionRow) (e : Event) (senderDomain : Except Err (Option Bytes))
    (valid : Request → Bool) (verifierFails : Bool) : Except Err Unit :=
  match requests row e senderDomain with
  | .error err => .error err
  | .ok rs =>
    if verifierFails then .error (errRej "verifier")
    else if rs.all valid then .ok () else .error (errRej "signature")

/-! ## The pseudo-ID room version (org.matrix.msc4014)

The sender ID (and an invite's state key) is itself an ed25519 public key: the event is verified against
those keys by `JSONVerifierSelf` (an oracle `selfValid name` here: the name decodes as base64 to a key under
which `VerifyJSON(name, "ed25519:1", key, redacted event)` succeeds — C02).  For joins the `mxid_mapping`
of the content is verified first, through the caller's verifier, for every server listed in
`mxid_mapping.signatures` — among which must be the server of `mxid_mapping.user_id` (/repo e791b10). -/

structure Mapping where
  servers : List Bytes      -- keys of mxid_mapping.signatures
  userID : Bytes
  deriving Repr

/-- `*MXIDMapping` inside MemberContent: outer `none` = type error, `some none` = nil pointer -/
def decodeMapping (v : Option JVal) : Option (Option Mapping) :=
  match v with
  | none => some none
  | some .null => some none
  | some (.obj kvs) =>
    let k := decString (lookupField kvs b!"user_room_key")
    let u := decString (lookupField kvs b!"user_id")
    let sigs : Option (Option Sign.SigMap) := match lookupField kvs b!"signatures" with
      | none => some none
      | some sv => Sign.decodeOuterInto Sign.decodeSigVal none sv
    match sigs with
    | none => none
    | some sm => if k.err || u.err then none else some (some ⟨(sm.getD []).map (·.1), u.val⟩)
  | some _ => none

/-- `getMXIDMapping`: the full `MemberContent` decode must succeed and carry a mapping. -/
def getMXIDMapping (e : Event) : Except Err Mapping :=
  match e.content with
  | some (.obj kvs) =>
    let errs : Bool :=
      (decString (lookupField kvs b!"membership")).err || (decString (lookupField kvs b!"displayname")).err ||
      (decString (lookupField kvs b!"avatar_url")).err || (decString (lookupField kvs b!"reason")).err ||
      (decBool false (lookupField kvs b!"is_direct")).err ||
      (Auth.decodeThirdParty (lookupField kvs b!"third_party_invite")).err ||
      (decString (lookupField kvs b!"join_authorised_via_users_server")).err
    match decodeMapping (lookupField kvs b!"mxid_mapping") with
    | none => .error (errRej "member-content")
    | some none => if errs then .error (errRej "member-content") else .error (errRej "missing-mxid-mapping")
    | some (some mp) => if errs then .error (errRej "member-content") else .ok mp
  | some .null => .error (errRej "missing-mxid-mapping")
  | _ => .error (errRej "member-content")

structure PseudoResult where
  /-- servers the caller's verifier was asked about (`none`: it was never called) -/
  asked : Option (List Bytes)
  verdict : Except Err Unit

/-- Model of `VerifyEventSignatures` for the pseudo-ID version. -/
def verifyPseudo (row : VGen.VersionRow) (e : Event) (valid : Request → Bool) (verifierFails : Bool)
    (selfValid : Bytes → Bool) : PseudoResult :=
  let finish (asked : Option (List Bytes)) (needed : List Bytes) : PseudoResult :=
    ⟨asked, if needed.all selfValid then .ok () else .error (errRej "signature")⟩
  let n0 : List Bytes := [e.sender]
  if e.type != b!"m.room.member" then finish none n0
  else
    match membership e with
    | .error err => ⟨none, .error err⟩
    | .ok m =>
      -- joins: the mxid_mapping, through the caller's verifier
      let stage1 : Except PseudoResult (Option (List Bytes)) :=
        if m == b!"join" then
          match getMXIDMapping e with
          | .error err => .error ⟨none, .error err⟩
          | .ok mp =>
            -- the server of the user the mapping names must be among the signers (commit e791b10)
            match splitIDDomain 0x40 mp.userID with
            | none => .error ⟨none, .error (errRej "mxid-mapping-user")⟩
            | some userServer =>
            if !mp.servers.contains userServer then .error ⟨none, .error (errRej "mxid-mapping-unsigned")⟩
            else if verifierFails then .error ⟨some mp.servers, .error (errRej "verifier")⟩
            else if mp.servers.all (fun s => valid ⟨s, e.originServerTS, strictValidity row⟩) then .ok (some mp.servers)
            else .error ⟨some mp.servers, .error (errRej "mxid-mapping")⟩
        else .ok none
      match stage1 with
      | .error r => r
      | .ok asked =>
        let n1 : List Bytes :=
          if m == b!"invite" then
            match e.stateKey with
            | some sk => addNeeded sk n0
            | none => n0      -- unreachable: Membership() insists on a state key
          else n0
        if m == b!"join" then
          match restrictedJoinServername row e.content with
          | .error err => ⟨asked, .error err⟩
          | .ok auth => finish asked (if auth.isEmpty then n1 else addNeeded auth n1)
        else finish asked n1

/-! ## Specification: the required servers, from the property text

  * the sender's server;
  * in room versions 1 and 2 also the server named in the event ID;
  * for invite memberships also the invited user's server;
  * for joins carrying `join_authorised_via_users_server`, in versions that support restricted joins,
    also that user's server;
  each checked at the event's origin_server_ts, with the strict key-validity rule from room version 5 on. -/
namespace Spec

/-- room versions are named by their key in the version table (a `String`) -/
def idNamesServer (ver : String) : Bool := ver == "1" || ver == "2"

def supportsRestrictedJoins (ver : String) : Bool :=
  ["8", "9", "10", "11", "12", "org.matrix.msc3787", "org.matrix.hydra.11", "org.matrix.msc4014"].contains ver

def strictFrom5 (ver : String) : Bool := !(["1", "2", "3", "4"].contains ver)

/-- server part of an identifier `<sigil>local:server` -/
def serverOf (sigil : UInt8) (id : Bytes) : Option Bytes :=
  match id with
  | c :: rest => if c == sigil then (cutAt 0x3A rest).map (·.2) else none
  | [] => none

/-- membership of a member event, when it can be read (`none`: not a readable member event) -/
def membershipOf (e : Event) : Option Bytes :=
  match e.content, e.stateKey with
  | some (.obj kvs), some _ =>
    match lookupField kvs b!"membership" with
    | some (.str m) => some m
    | none => some []
    | some .null => some []
    | _ => none
  | some .null, some _ => some []
  | _, _ => none

inductive Req where
  | unspecified            -- the property does not speak about this event (unreadable membership)
  | undeterminable         -- a required server cannot be determined: the event cannot verify
  | servers (l : List Bytes)
  deriving Repr, DecidableEq

def required (ver : String) (e : Event) (senderServer : Option Bytes) : Req :=
  match senderServer with
  | none => .undeterminable
  | some s =>
    let idS : Option (List Bytes) :=
      if idNamesServer ver then (serverOf 0x24 e.eventID).map (fun d => [d]) else some []
    match idS with
    | none => .undeterminable
    | some idl =>
      if e.type != b!"m.room.member" then .servers (s :: idl)
      else match membershipOf e with
        | none => .unspecified
        | some m =>
          if m == b!"invite" then
            match (e.stateKey.bind (serverOf 0x40)) with
            | some d => .servers (s :: idl ++ [d])
            | none => .undeterminable
          else if m == b!"join" && supportsRestrictedJoins ver then
            match e.content with
            | some (.obj kvs) =>
              match getFirst kvs b!"join_authorised_via_users_server" with
              | none => .servers (s :: idl)
              | some (.str u) =>
                match serverOf 0x40 u with
                | some d => if d.isEmpty then .undeterminable else .servers (s :: idl ++ [d])
                | none => .undeterminable
              | some _ => .undeterminable
            | _ => .servers (s :: idl)
          else .servers (s :: idl)

end Spec

end V.Signers
