/-
  VModel.Signers — executable model of VerifyEventSignatures (eventcrypto.go): which servers must have
  signed an event (`needed` map), and the verdict given a signature-verifier oracle.

  The JSON handed to the verifier is the event's redacted JSON (redaction is C05's model; the
  correspondence checks that the request message IS RedactEventJSON(event JSON)); each request is made at
  the event's origin_server_ts with the room version's validity rule.  The verifier (KeyRing in
  production, C12) is an oracle `valid : server → Bool`.

  Version-dependent behaviour comes from the regenerated table `VGen.roomVersions` (columns
  eventIDFormat, restrictedJoinServernameFunc, signatureValidityCheckFunc).  Core Lean only.
-/
import VModel.Event
import VModel.Auth
import VModel.Sign
namespace V.Signers
open V V.Json V.GoJson

/-- `SplitID(sigil, id)`: the domain is everything after the first `:`; an ID that does not start with
    the sigil or has no `:` is an error. -/
def splitIDDomain (sigil : UInt8) (id : Bytes) : Option Bytes :=
  match id with
  | [] => none
  | c :: _ => if c == sigil then (cutAt 0x3A id).map (·.2) else none

/-- first member with the exact key (gjson path lookup; what `extractAuthorisedViaServerName` used before the
    repair of K1 — kept for the kernel-checked comparison in VProps/C06.lean) -/
def getFirst : List (Bytes × JVal) → Bytes → Option JVal
  | [], _ => none
  | (k', v) :: rest, k => if k' == k then some v else getFirst rest k

def errRej (why : String) : Err := .other why

/-- decoding `{membership string}` from the content restricted to the member named EXACTLY `membership`
    (`exactFieldsOnly`, then Go struct decoding: the last such member, null tolerated) -/
def membershipField (c : JVal) : Option Bytes :=
  match c with
  | .null => some []
  | .obj kvs =>
    let d := decString (lookupExact kvs b!"membership")
    if d.err then none else some d.val
  | _ => none

/-- `membershipForSignatures(e)` (eventcrypto.go): decode the exact `membership` member of the content, then insist
    on a state key.  (Before the repair of K2 this was `e.Membership()`, which also matched case variants of the
    name — `{"membership":"invite","Membership":"leave"}` read as a leave.) -/
def membership (e : Event) : Except Err Bytes :=
  match e.content with
  | none => .error (errRej "membership")
  | some c =>
    match membershipField c with
    | none => .error (errRej "membership")
    | some m => if e.stateKey.isNone then .error (errRej "membership") else .ok m

/-- `extractAuthorisedViaServerName(content)`: the content decoded as `map[string]json.RawMessage` (an object or
    null), the member named exactly `join_authorised_via_users_server` (the last one) decoded as a Go string —
    the reading of `NewMemberContentFromEvent`, i.e. of the auth rules — which must split as a user ID with a
    non-empty server name.  `null` decodes to "" and does not split; any other non-string is a type error.
    `ok []` = nobody extra. -/
def extractAuthorisedVia (content : Option JVal) : Except Err Bytes :=
  match content with
  | some (.obj kvs) =>
    match lookupExact kvs b!"join_authorised_via_users_server" with
    | none => .ok []
    | some v =>
      let d := decString (some v)
      if d.err then .error (errRej "authorised-via") else
      match splitIDDomain 0x40 d.val with
      | some dom =>
        -- an empty server name ("@user:") would be taken for "nobody" by the caller: refused (commit d4c4559)
        if dom.isEmpty then .error (errRej "authorised-via") else .ok dom
      | none => .error (errRej "authorised-via")
  | some .null => .ok []
  | _ => .error (errRej "authorised-via")

/-- `verImpl.RestrictedJoinServername(content)` by the regenerated column. -/
def restrictedJoinServername (row : VGen.VersionRow) (content : Option JVal) : Except Err Bytes :=
  if row.restrictedJoinServernameFunc == "extractAuthorisedViaServerName" then extractAuthorisedVia content
  else if row.restrictedJoinServernameFunc == "emptyAuthorisedViaServerName" then .ok []
  else .error (.panic "eventversion.go:RestrictedJoinServername nil function")

/-- insertion into the `needed` set -/
def addNeeded (s : Bytes) (l : List Bytes) : List Bytes := if l.contains s then l else l ++ [s]

def pseudoIDVersion : Bytes := b!"org.matrix.msc4014"

/-- The `needed` map of VerifyEventSignatures for non-pseudo-ID room versions.
    `senderDomain` is the answer of `userIDForSender` (error / no user / user's domain). -/
def requiredSigners (row : VGen.VersionRow) (e : Event) (senderDomain : Except Err (Option Bytes)) :
    Except Err (List Bytes) :=
  -- the sender's server
  match senderDomain with
  | .error err => .error err
  | .ok sd =>
    let n0 : List Bytes := match sd with
      | some d => [d]
      | none => []
    -- room versions whose event IDs name a server
    let n1? : Option (List Bytes) :=
      if row.eventIDFormat == 1 then (splitIDDomain 0x24 e.eventID).map (fun d => addNeeded d n0)
      else some n0
    match n1? with
    | none => .error (errRej "event-id")
    | some n1 =>
      if e.type != b!"m.room.member" then .ok n1
      else
        match membership e with
        | .error err => .error err
        | .ok m =>
          -- invites: the invited user's server
          let n2? : Except Err (List Bytes) :=
            if m == b!"invite" then
              match e.stateKey with
              | none => .error (.panic "eventcrypto.go:VerifyEventSignatures *e.StateKey()")
              | some sk =>
                match splitIDDomain 0x40 sk with
                | some d => .ok (addNeeded d n1)
                | none => .error (errRej "state-key")
            else .ok n1
          match n2? with
          | .error err => .error err
          | .ok n2 =>
            -- joins: the server of the user who authorised a restricted join
            if m == b!"join" then
              match restrictedJoinServername row e.content with
              | .error err => .error err
              | .ok auth => if auth.isEmpty then .ok n2 else .ok (addNeeded auth n2)
            else .ok n2

/-- Does the version demand the strict key-validity rule (`valid_until_ts` honoured)? -/
def strictValidity (row : VGen.VersionRow) : Bool :=
  row.signatureValidityCheckFunc == "StrictValiditySignatureCheck"

/-- One VerifyJSONRequest: the redacted event (abstract), for `server`, at `ts`, with the validity rule. -/
structure Request where
  server : Bytes
  ts : Nat
  strict : Bool
  deriving Repr, DecidableEq

def requests (row : VGen.VersionRow) (e : Event) (senderDomain : Except Err (Option Bytes)) : Except Err (List Request) :=
  match requiredSigners row e senderDomain with
  | .error err => .error err
  | .ok l => .ok (l.map (fun s => ⟨s, e.originServerTS, strictValidity row⟩))

/-- Model of `VerifyEventSignatures`.  `valid r` = the verifier reports no error for request `r`;
    `verifierFails` = `VerifyJSONs` itself returned an error. -/
def verifyEventSignatures (row : VGen.VersionRow) (e : Event) (senderDomain : Except Err (Option Bytes))
    (valid : Request → Bool) (verifierFails : Bool) : Except Err Unit :=
  match requests row e senderDomain with
  | .error err => .error err
  | .ok rs =>
    if verifierFails then .error (errRej "verifier")
    else if rs.all valid then .ok () else .error (errRej "signature")

/-- Model of `VerifyAllEventSignatures` (the entry point of `CheckStateResponse`, `CheckSendJoinResponse` and
    `EventsLoader.LoadAndVerify`): one `VerifyEventSignatures` per event, the verdicts in the order of the events.
    `sd e` is what the sender lookup answers for `e`; the verifier is asked per event, so `valid` and
    `verifierFails` may depend on the event whose requests are being answered. -/
def verifyAllEventSignatures (row : VGen.VersionRow) (es : List Event) (sd : Event → Except Err (Option Bytes))
    (valid : Event → Request → Bool) (verifierFails : Event → Bool) : List (Except Err Unit) :=
  es.map (fun e => verifyEventSignatures row e (sd e) (valid e) (verifierFails e))

/-! ## The pseudo-ID room version (org.matrix.msc4014)

The sender ID (and an invite's state key) is itself an ed25519 public key: the event is verified against
those keys by `JSONVerifierSelf` (an oracle `selfValid name` here: the name decodes as base64 to a key under
which `VerifyJSON(name, "ed25519:1", key, redacted event)` succeeds — C02).  For joins the `mxid_mapping`
of the content is verified first, through the caller's verifier, for every server listed in
`mxid_mapping.signatures` — among which must be the server of `mxid_mapping.user_id` (/repo e791b10). -/

structure Mapping where
  servers : List Bytes      -- keys of mxid_mapping.signatures
  userID : Bytes
  userRoomKey : Bytes := []
  deriving Repr

/-- `*MXIDMapping` inside MemberContent: outer `none` = type error, `some none` = nil pointer -/
def decodeMapping (v : Option JVal) : Option (Option Mapping) :=
  match v with
  | none => some none
  | some .null => some none
  | some (.obj kvs) =>
    let k := decString (lookupField kvs b!"user_room_key")
    let u := decString (lookupField kvs b!"user_id")
    let sigs : Option (Option Sign.SigMap) := match lookupField kvs b!"signatures" with
      | none => some none
      | some sv => Sign.decodeOuterInto Sign.decodeSigVal none sv
    match sigs with
    | none => none
    | some sm => if k.err || u.err then none else some (some ⟨(sm.getD []).map (·.1), u.val, k.val⟩)
  | some _ => none

/-- `getMXIDMapping`: the full `MemberContent` decode of the content restricted to the members named exactly as
    MemberContent's fields (`exactFieldsOnly`) must succeed and carry a mapping.  (The members INSIDE
    `third_party_invite` / `mxid_mapping` are still matched by encoding/json's folded comparison.) -/
def getMXIDMapping (e : Event) : Except Err Mapping :=
  match e.content with
  | some (.obj kvs) =>
    let errs : Bool :=
      (decString (lookupExact kvs b!"membership")).err || (decString (lookupExact kvs b!"displayname")).err ||
      (decString (lookupExact kvs b!"avatar_url")).err || (decString (lookupExact kvs b!"reason")).err ||
      (decBool false (lookupExact kvs b!"is_direct")).err ||
      (Auth.decodeThirdParty (lookupExact kvs b!"third_party_invite")).err ||
      (decString (lookupExact kvs b!"join_authorised_via_users_server")).err
    match decodeMapping (lookupExact kvs b!"mxid_mapping") with
    | none => .error (errRej "member-content")
    | some none => if errs then .error (errRej "member-content") else .error (errRej "missing-mxid-mapping")
    | some (some mp) => if errs then .error (errRej "member-content") else .ok mp
  | some .null => .error (errRej "missing-mxid-mapping")
  | _ => .error (errRej "member-content")

structure PseudoResult where
  /-- servers the caller's verifier was asked about (`none`: it was never called) -/
  asked : Option (List Bytes)
  verdict : Except Err Unit

/-- Model of `VerifyEventSignatures` for the pseudo-ID version. -/
def verifyPseudo (row : VGen.VersionRow) (e : Event) (valid : Request → Bool) (verifierFails : Bool)
    (selfValid : Bytes → Bool) : PseudoResult :=
  let finish (asked : Option (List Bytes)) (needed : List Bytes) : PseudoResult :=
    ⟨asked, if needed.all selfValid then .ok () else .error (errRej "signature")⟩
  let n0 : List Bytes := [e.sender]
  if e.type != b!"m.room.member" then finish none n0
  else
    match membership e with
    | .error err => ⟨none, .error err⟩
    | .ok m =>
      -- joins: the mxid_mapping, through the caller's verifier
      let stage1 : Except PseudoResult (Option (List Bytes)) :=
        if m == b!"join" then
          match getMXIDMapping e with
          | .error err => .error ⟨none, .error err⟩
          | .ok mp =>
            -- the mapping must be the sender's own (K3): a mapping for another key says nothing about this sender
            if mp.userRoomKey != e.sender then .error ⟨none, .error (errRej "mxid-mapping-key")⟩ else
            -- the server of the user the mapping names must be among the signers (commit e791b10)
            match splitIDDomain 0x40 mp.userID with
            | none => .error ⟨none, .error (errRej "mxid-mapping-user")⟩
            | some userServer =>
            if !mp.servers.contains userServer then .error ⟨none, .error (errRej "mxid-mapping-unsigned")⟩
            else if verifierFails then .error ⟨some mp.servers, .error (errRej "verifier")⟩
            else if mp.servers.all (fun s => valid ⟨s, e.originServerTS, strictValidity row⟩) then .ok (some mp.servers)
            else .error ⟨some mp.servers, .error (errRej "mxid-mapping")⟩
        else .ok none
      match stage1 with
      | .error r => r
      | .ok asked =>
        let n1 : List Bytes :=
          if m == b!"invite" then
            match e.stateKey with
            | some sk => addNeeded sk n0
            | none => n0      -- unreachable: Membership() insists on a state key
          else n0
        if m == b!"join" then
          match restrictedJoinServername row e.content with
          | .error err => ⟨asked, .error err⟩
          | .ok auth => finish asked (if auth.isEmpty then n1 else addNeeded auth n1)
        else finish asked n1

/-! ## The reading of the auth rules: `NewMemberContentFromEvent`

`Allowed` (C07) decides membership transitions on `MemberContent` as `NewMemberContentFromEvent` decodes it; C06 is
only worth something if the user the auth rules take for the authoriser of a restricted join is the user whose server
must sign.  The model below mirrors the repaired function (/repo "member content was read under case variants of
its member names"): the content restricted to the members named EXACTLY as `MemberContent`'s fields, full decode
with fall-back to the partial `membershipContent` — an error iff one of the four members the auth rules read is
ill-typed.  `VModel/Auth.lean` (`decodeMemberContent`, C07's model) is the same function with the same exact lookups;
`VProps/C06.lean` relates the two without side condition (`memberContent_eq_auth`). -/

structure MemberReading where
  membership : Bytes
  authorisedVia : Bytes
  deriving Repr, DecidableEq

def memberContent (c : Option JVal) : Option MemberReading :=
  match c with
  | none => none
  | some .null => some ⟨[], []⟩
  | some (.obj kvs) =>
    let m := decString (lookupExact kvs b!"membership")
    let tp := Auth.decodeThirdParty (lookupExact kvs b!"third_party_invite")
    let av := decString (lookupExact kvs b!"join_authorised_via_users_server")
    match decodeMapping (lookupExact kvs b!"mxid_mapping") with
    | none => none
    | some _ => if m.err || tp.err || av.err then none else some ⟨m.val, av.val⟩
  | some _ => none

/-! ## Specification: the required servers, from the property text

  * the sender's server;
  * in room versions 1 and 2 also the server named in the event ID;
  * for invite memberships also the invited user's server;
  * for joins carrying `join_authorised_via_users_server`, in versions that support restricted joins,
    also that user's server;
  each checked at the event's origin_server_ts, with the strict key-validity rule from room version 5 on.

  "The membership" and "join_authorised_via_users_server" of an event are the members of its content with EXACTLY
  these names: that is what the redaction algorithm keeps (hence what the required servers signed), what other
  implementations read, and what a JSON object with these members means.  A member under another spelling
  (`Membership`, `JOIN_AUTHORISED_VIA_USERS_SERVER`, U+017F for `s`) is a different, unrelated member.  An object that
  has one of the two names twice is not a JSON object the property speaks about (`unspecified`). -/
namespace Spec

/-- room versions are named by their key in the version table (a `String`) -/
def idNamesServer (ver : String) : Bool := ver == "1" || ver == "2"

def supportsRestrictedJoins (ver : String) : Bool :=
  ["8", "9", "10", "11", "12", "org.matrix.msc3787", "org.matrix.hydra.11", "org.matrix.msc4014"].contains ver

def strictFrom5 (ver : String) : Bool := !(["1", "2", "3", "4"].contains ver)

/-- server part of an identifier `<sigil>local:server` -/
def serverOf (sigil : UInt8) (id : Bytes) : Option Bytes :=
  match id with
  | c :: rest => if c == sigil then (cutAt 0x3A rest).map (·.2) else none
  | [] => none

/-- the member of a JSON object with exactly this name -/
inductive Member where
  | absent
  | dup                 -- the name occurs more than once: not a JSON object in the property's sense
  | val (v : JVal)

def exactMember (kvs : List (Bytes × JVal)) (name : Bytes) : Member :=
  match kvs.filter (fun kv => kv.1 == name) with
  | [] => .absent
  | [kv] => .val kv.2
  | _ => .dup

/-- membership of a member event, when it can be read (`none`: not a readable member event) -/
def membershipOf (e : Event) : Option Bytes :=
  match e.content, e.stateKey with
  | some (.obj kvs), some _ =>
    match exactMember kvs b!"membership" with
    | .val (.str m) => some m
    | .absent => some []
    | .val .null => some []
    | _ => none
  | some .null, some _ => some []
  | _, _ => none

inductive Req where
  | unspecified            -- the property does not speak about this event (unreadable membership)
  | undeterminable         -- a required server cannot be determined: the event cannot verify
  | servers (l : List Bytes)
  deriving Repr, DecidableEq

def required (ver : String) (e : Event) (senderServer : Option Bytes) : Req :=
  match senderServer with
  | none => .undeterminable
  | some s =>
    let idS : Option (List Bytes) :=
      if idNamesServer ver then (serverOf 0x24 e.eventID).map (fun d => [d]) else some []
    match idS with
    | none => .undeterminable
    | some idl =>
      if e.type != b!"m.room.member" then .servers (s :: idl)
      else match membershipOf e with
        | none => .unspecified
        | some m =>
          if m == b!"invite" then
            match (e.stateKey.bind (serverOf 0x40)) with
            | some d => .servers (s :: idl ++ [d])
            | none => .undeterminable
          else if m == b!"join" && supportsRestrictedJoins ver then
            match e.content with
            | some (.obj kvs) =>
              match exactMember kvs b!"join_authorised_via_users_server" with
              | .absent => .servers (s :: idl)
              | .dup => .unspecified
              | .val (.str u) =>
                match serverOf 0x40 u with
                | some d => if d.isEmpty then .undeterminable else .servers (s :: idl ++ [d])
                | none => .undeterminable
              | .val _ => .undeterminable
            | _ => .servers (s :: idl)
          else .servers (s :: idl)

/-- What the content of a member event says under the exact names (`none`: a name occurs twice).  This is the reading
    the auth rules must use for the membership and the authoriser of a restricted join (the tie of C06 to C07):
    a non-string value names nothing. -/
def memberReading (c : Option JVal) : Option MemberReading :=
  match c with
  | some (.obj kvs) =>
    let str (name : Bytes) : Option Bytes := match exactMember kvs name with
      | .absent => some []
      | .dup => none
      | .val (.str x) => some x
      | .val _ => some []
    match str b!"membership", str b!"join_authorised_via_users_server" with
    | some m, some v => some ⟨m, v⟩
    | _, _ => none
  | _ => some ⟨[], []⟩

end Spec

end V.Signers
