/-
  VModel.ConcFetch — small-step interleaving model of DirectKeyFetcher.FetchKeys (keyring.go) and of
  destinationTripper.getTransport / reaper (fclient/client.go), and the (unsynchronised) lazy cache of
  eventV2.EventID (eventV2.go).  C19.  Core Lean only.

  FetchKeys:
    main     partitions the requests (local server names vs. byServer), writes the local entries into
             `results`, fills the closed channel `pending` with the byServer keys (Go map order = the
             parameter `order`), wait.Add(numWorkers), starts numWorkers = min(64, len(byServer)) workers,
             wait.Wait(), returns `results`.
    worker   loop { server, ok := <-pending (one atomic step); !ok → wait.Done(), exit
                    fetchKeysForServer (unlocked client call + CheckKeys)        error → fetchNotaryKeysForServer
                    fetchNotaryKeysForServer (unlocked client call + CheckKeys)  error → continue
                    resultsMutex.Lock(); for req, keys := range serverResults { results[req] = keys }; Unlock() }
  The key client is an oracle (a function of the server name).
-/
import VModel.ConcDns
import VGen.Conc
namespace V.Conc.Fetch

abbrev Server := String
abbrev KeyID := String

/-- PublicKeyLookupResult -/
structure Val where
  key : Nat
  expiredTS : Int
  validUntilTS : Int
  deriving DecidableEq, Repr

/-- what checkVerifyKeys finds for one entry of `verify_keys` -/
inductive KCheck where
  | notEd      -- algorithm is not ed25519: ignored by the checks
  | ok         -- ed25519, 32 bytes, self-signature on the response verifies
  | bad        -- ed25519 but wrong length or no valid self-signature
  deriving DecidableEq, Repr

/-- a ServerKeys response as CheckKeys / mapServerKeysToPublicKeyLookupResult see it -/
structure Resp where
  name : Server
  validUntil : Int
  verify : List (KeyID × Nat × KCheck)
  old : List (KeyID × Nat × Int)           -- key id, key, expired_ts
  deriving DecidableEq, Repr

abbrev Req := Server × KeyID
abbrev RMap := List (Req × Val)

def rget (k : Req) (m : RMap) : Option Val := (m.find? (fun p => p.1 == k)).map (·.2)
def rput (k : Req) (v : Val) (m : RMap) : RMap := m.filter (fun p => p.1 != k) ++ [(k, v)]

/-- `for req, keys := range serverResults { results[req] = keys }` -/
def mergeInto (results : RMap) (res : RMap) : RMap := res.foldl (fun acc p => rput p.1 p.2 acc) results

def publicKeyNotExpired : Int := 0
def publicKeyNotValid : Int := 0

/-- CheckKeys(serverName, time.Unix(0,0), keys).AllChecksOK -/
def checkKeys (q : Server) (r : Resp) : Bool :=
  (q == r.name) && decide (r.validUntil > 0) &&
  r.verify.any (fun k => k.2.2 != .notEd) && r.verify.all (fun k => k.2.2 != .bad)

/-- mapServerKeysToPublicKeyLookupResult: verify keys first, then old keys (which overwrite an equal key id) -/
def mapKeys (r : Resp) : RMap :=
  let m1 := r.verify.foldl (fun acc k => rput (r.name, k.1) ⟨k.2.1, publicKeyNotExpired, r.validUntil⟩ acc) []
  r.old.foldl (fun acc k => rput (r.name, k.1) ⟨k.2.1, k.2.2, publicKeyNotValid⟩ acc) m1

structure Cfg where
  requests : List Req                       -- keys of the `requests` map
  isLocal : Server → Bool
  localKey : Nat
  direct : Server → Option Resp             -- Client.GetServerKeys(server): none = error
  notary : Server → Option (List Resp)      -- Client.LookupServerKeys(server, {server,""}): none = error

/-- ValidUntilTS of the local key: spec.AsTimestamp(time.Unix(1<<37, 0)) in milliseconds -/
def localValidUntil : Int := 137438953472000

def localVal (c : Cfg) : Val := ⟨c.localKey, publicKeyNotExpired, localValidUntil⟩

/-- fetchKeysForServer -/
def fetchDirect (c : Cfg) (s : Server) : Option RMap :=
  match c.direct s with
  | none => none
  | some r => if checkKeys s r then some (mapKeys r) else none

/-- fetchNotaryKeysForServer: first response whose server_name matches, then CheckKeys -/
def fetchNotary (c : Cfg) (s : Server) : Option RMap :=
  match c.notary s with
  | none => none
  | some rs =>
    match rs.find? (fun r => r.name == s) with
    | none => none
    | some r => if checkKeys s r then some (mapKeys r) else none

/-- keys of byServer in request order (the canonical order; Go's is any permutation of it) -/
def byServerKeys (c : Cfg) : List Server :=
  (c.requests.filter (fun r => !c.isLocal r.1)).map (·.1) |>.eraseDups

def localRequests (c : Cfg) : List Req := c.requests.filter (fun r => c.isLocal r.1)

inductive WPc where
  | recv                                    -- at `for server := range ch`
  | fetch (s : Server)                      -- about to call GetServerKeys (no lock)
  | notary (s : Server)                     -- about to call LookupServerKeys (no lock)
  | merge (s : Server) (res : RMap)         -- about to Lock(); merge; Unlock()
  | exited
  deriving DecidableEq, Repr

structure State where
  results : RMap
  mutex : Option Nat                        -- owner of resultsMutex between steps
  queue : List Server                       -- content of the closed channel `pending`
  wait : Nat                                -- WaitGroup counter
  workers : List WPc
  mainDone : Bool                           -- FetchKeys has returned `results`
  negWait : Bool                            -- wait.Done() on a zero counter (Go panics)
  finished : List Server                    -- ghost: servers whose job is complete (merged or dropped)
  deriving DecidableEq, Repr

/-- `numWorkers := 64; if len(byServer) < numWorkers { numWorkers = len(byServer) }` — the literal is regenerated from the source -/
def numWorkers (n : Nat) : Nat := if n < VGen.fetchMaxWorkers then n else VGen.fetchMaxWorkers

def init (c : Cfg) (order : List Server) : State :=
  { results := (localRequests c).foldl (fun acc r => rput r (localVal c) acc) [],
    mutex := none, queue := order, wait := numWorkers order.length,
    workers := List.replicate (numWorkers order.length) .recv,
    mainDone := false, negWait := false, finished := [] }

inductive Move where
  | worker (i : Nat)
  | main
  deriving DecidableEq, Repr

def step (c : Cfg) (s : State) : Move → Option State
  | .main =>
    -- wait.Wait() returns once the counter is zero
    if s.mainDone || s.wait != 0 then none else some { s with mainDone := true }
  | .worker i =>
    match s.workers[i]? with
    | none => none
    | some pc =>
      match pc with
      | .recv =>
        match s.queue with
        | srv :: q => some { s with queue := q, workers := s.workers.set i (.fetch srv) }
        | [] => some { s with workers := s.workers.set i .exited, wait := s.wait - 1, negWait := s.negWait || s.wait == 0 }
      | .fetch srv =>
        match fetchDirect c srv with
        | some res => some { s with workers := s.workers.set i (.merge srv res) }
        | none => some { s with workers := s.workers.set i (.notary srv) }
      | .notary srv =>
        match fetchNotary c srv with
        | some res => some { s with workers := s.workers.set i (.merge srv res) }
        | none => some { s with workers := s.workers.set i .recv, finished := srv :: s.finished }
      | .merge srv res =>
        if s.mutex.isSome then none else
        some { s with results := mergeInto s.results res, workers := s.workers.set i .recv, finished := srv :: s.finished }
      | .exited => none

/-- accesses of a step to the shared `results` map with the lock set held (merge takes and releases the mutex inside the step) -/
def accesses (s : State) : Move → List Access
  | .main => []      -- reads `results` after wait.Wait(): ordered after every worker's Done (happens-before), no lock needed
  | .worker i =>
    match s.workers[i]? with
    | some (.merge _ _) =>
      if s.mutex.isSome then [] else
      let owner : Option Nat := some i
      [⟨i, .fetchResults, true, if owner = some i then [.resultsMutex] else []⟩]
    | _ => []

inductive Reachable (c : Cfg) (order : List Server) : State → Prop where
  | init : Reachable c order (init c order)
  | step {s s' : State} (m : Move) : Reachable c order s → step c s m = some s' → Reachable c order s'

/-! ### the specification: the sequential union -/

/-- the answer of one remote server: direct, else notary, else nothing -/
def answer (c : Cfg) (s : Server) : RMap :=
  match fetchDirect c s with
  | some r => r
  | none => (fetchNotary c s).getD []

/-- what FetchKeys must return, key by key: the local entries ∪ ⋃ { answer s | s ∈ byServer } -/
def specGet (c : Cfg) (k : Req) : Option Val :=
  if c.isLocal k.1 then (if c.requests.contains k then some (localVal c) else none)
  else if (byServerKeys c).contains k.1 then rget k (answer c k.1) else none

/-- the same as a map, computed sequentially (used by the driver's spec stream) -/
def specMap (c : Cfg) : RMap :=
  (byServerKeys c).foldl (fun acc s => mergeInto acc (answer c s))
    ((localRequests c).foldl (fun acc r => rput r (localVal c) acc) [])

/-! ### harness-granularity replay -/

def findWorker (s : State) (srv : Server) : Option Nat :=
  s.workers.findIdx? (fun pc => match pc with
    | .fetch x => x == srv
    | .notary x => x == srv
    | _ => false)

/-- run worker `i` until it blocks in a client call or exits (at most 3 steps: merge, recv) -/
def settle (c : Cfg) (i : Nat) : Nat → State → State
  | 0, s => s
  | fuel + 1, s =>
    match s.workers[i]? with
    | some (.merge _ _) | some .recv =>
      match step c s (.worker i) with
      | some s' => settle c i fuel s'
      | none => s
    | _ => s

/-- start: every worker receives its first job -/
def startAll (c : Cfg) (s : State) : State :=
  (List.range s.workers.length).foldl (fun acc i => settle c i 2 acc) s

/-- release the pending client call of server `srv`.  Returns the new state and `>` (went on to the notary), `.` (job done), `-` (no such call) -/
def release (c : Cfg) (s : State) (srv : Server) : State × String :=
  match findWorker s srv with
  | none => (s, "-")
  | some i =>
    match step c s (.worker i) with
    | none => (s, "X")
    | some s1 =>
      match s1.workers[i]? with
      | some (.notary _) => (s1, ">")
      | _ => (settle c i 3 s1, ".")

/-! ### two concurrent FetchKeys calls on ONE DirectKeyFetcher

`DirectKeyFetcher` has no mutable state of its own: `FetchKeys` builds its result map, queue, wait group and workers per
call, and the only thing two concurrent calls share is the key client (an oracle).  So the joint state of two calls is
the pair of their states and a step of the pair is a step of one component.  Each caller has its own context: when it
ends, that caller's client calls fail from then on — caller A's oracle is therefore a parameter of each of its steps
(`Move2.a ca`), caller B's context stays live (`cb` fixed). -/
namespace Two

structure Pair where
  a : State
  b : State

inductive Move2 where
  | a (ca : Cfg) (m : Move)      -- a step of caller A, its key client answering as `ca` does at that moment
  | b (m : Move)                 -- a step of caller B

def step2 (cb : Cfg) (p : Pair) : Move2 → Option Pair
  | .a ca m => (step ca p.a m).map (fun a' => { p with a := a' })
  | .b m => (step cb p.b m).map (fun b' => { p with b := b' })

inductive Reachable2 (ca0 cb : Cfg) (oa ob : List Server) : Pair → Prop where
  | init : Reachable2 ca0 cb oa ob ⟨init ca0 oa, init cb ob⟩
  | step {p p' : Pair} (m : Move2) : Reachable2 ca0 cb oa ob p → step2 cb p m = some p' → Reachable2 ca0 cb oa ob p'

/-- the key client as a caller whose context has ended sees it: every call fails -/
def failing (c : Cfg) : Cfg := { c with direct := fun _ => none, notary := fun _ => none }

end Two

/-! ## getTransport / reaper (fclient/client.go)

`transports` maps a TLS server name to a transport; every access happens between
`transportsMutex.Lock()` and `Unlock()`; a transport is identified here by a creation number. -/
namespace Transport

structure TState where
  transports : List (String × Nat)          -- name ↦ transport id
  nextId : Nat
  got : List (Nat × String × Nat)           -- (thread, name, transport returned), most recent first
  deriving DecidableEq, Repr

def tget (n : String) (m : List (String × Nat)) : Option Nat := (m.find? (fun p => p.1 == n)).map (·.2)

inductive TMove where
  | get (tid : Nat) (name : String)         -- getTransport(name): one locked region
  | reap (dead : String → Bool)             -- reaper(): one locked region deleting the entries unused for 5 minutes

def tstep (s : TState) : TMove → TState
  | .get tid n =>
    match tget n s.transports with
    | some id => { s with got := (tid, n, id) :: s.got }
    | none => { transports := s.transports ++ [(n, s.nextId)], nextId := s.nextId + 1, got := (tid, n, s.nextId) :: s.got }
  | .reap dead => { s with transports := s.transports.filter (fun p => !dead p.1) }

def taccesses : TMove → List Access
  | .get tid _ => [⟨tid, .transports, false, [.transportsMutex]⟩, ⟨tid, .transports, true, [.transportsMutex]⟩]
  | .reap _ => [⟨0, .transports, false, [.transportsMutex]⟩, ⟨0, .transports, true, [.transportsMutex]⟩]

def trun (s : TState) : List TMove → TState
  | [] => s
  | m :: ms => trun (tstep s m) ms

def tinit : TState := ⟨[], 0, []⟩

end Transport

/-! ## eventV2.EventID (eventV2.go)

`populateEventID` computes the ID while the event is constructed (one thread, before the event is shared):
`if e.EventIDRaw == "" { e.EventIDRaw = referenceOfEvent(...).EventID }`.
`EventID()` afterwards is `if e.EventIDRaw != "" { return e.EventIDRaw }; return referenceOfEvent(...).EventID`:
one read, no write (an event built by NewEventFromTrustedJSONWithEventID with an empty ID keeps `EventIDRaw` empty
and recomputes on every call — still without writing).
(Before commit 69aec98 `EventID()` wrote `EventIDRaw` on first use without a lock: the first concurrent calls raced;
op `conc.race_eventid` is the regression guard.) -/
namespace EventID

inductive EPc where
  | start | returned
  deriving DecidableEq, Repr

structure EState where
  raw : Option Nat                          -- EventIDRaw ("" = none)
  pcs : List EPc
  rets : List (Nat × Nat)                   -- (thread, ID returned)
  deriving DecidableEq, Repr

/-- construction: `preset` is the ID handed to NewEventFromTrustedJSONWithEventID (none for the other constructors, which
    call populateEventID); `idOf` is the reference hash of the event -/
def construct (idOf : Nat) (preset : Option (Option Nat)) (k : Nat) : EState :=
  { raw := match preset with
      | some given => given
      | none => some idOf,
    pcs := List.replicate k .start, rets := [] }

/-- one call of EventID() by thread `i` -/
def estep (idOf : Nat) (s : EState) (i : Nat) : Option EState :=
  match s.pcs[i]? with
  | some .start => some { s with pcs := s.pcs.set i .returned, rets := (i, s.raw.getD idOf) :: s.rets }
  | _ => none

/-- accesses with the (empty) lock set: the thread holds nothing, and only reads -/
def eaccesses (s : EState) (i : Nat) : List Access :=
  match s.pcs[i]? with
  | some .start => [⟨i, .eventIDRaw, false, []⟩]
  | _ => []

end EventID

end V.Conc.Fetch
