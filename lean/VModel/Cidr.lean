/-
  VModel.Cidr — executable model of the outbound network policy of fclient/client.go
  (allowDenyNetworksControl, isAllowed, inRange) together with the parts of Go's `net` package the
  policy is made of (net.ParseIP, net.ParseCIDR, net.IP.To4, net.IP.Mask, net.IPNet.Contains).
  Core Lean only.

  Layers
  * text  : `parseAddr` / `parseIP` / `parseCIDR` mirror netip.ParseAddr, net.ParseIP and
            net.ParseCIDR (go1.24) statement by statement; they are *modelled, not verified* (trusted
            base) and validated by correspondence (the harness sends Go's own parse results too);
  * number: addresses are numbers (`a16 < 2^128`, the 16-byte form net.ParseIP returns), a parsed
            CIDR is `(bitLen, addr16, ones)`; `ipNetOf`, `numberAndMask`, `contains` mirror
            ParseCIDR's IPNet construction and IPNet.Contains byte for byte (as arithmetic on the numbers);
  * policy: `inRange`, `isAllowed`, `control` mirror client.go.

  The specification (`Spec`) states the policy with prefixes: an address is an IPv4 address (also
  when written in IPv4-mapped IPv6 form) or a proper IPv6 address; a range is a set of addresses of
  one family sharing their first `n` bits.
-/
namespace V.Cidr

abbrev Str := List Char

/-! ## Text layer: netip.ParseAddr / net.ParseIP / net.ParseCIDR -/

def isDigit (c : Char) : Bool := 48 ≤ c.toNat && c.toNat ≤ 57

def hexVal? (c : Char) : Option Nat :=
  let n := c.toNat
  if 48 ≤ n && n ≤ 57 then some (n - 48)
  else if 97 ≤ n && n ≤ 102 then some (n - 97 + 10)
  else if 65 ≤ n && n ≤ 70 then some (n - 65 + 10)
  else none

/-- netip.parseIPv4Fields: the loop state is (val, pos, digLen); `atStart` is `i == 0`,
    `prevDot` is `s[i-1] == '.'`; `rest.isEmpty` is `i == len(s)-1`. -/
def v4Go : Str → (val pos digLen : Nat) → (atStart prevDot : Bool) → (fields : List Nat) → Option (List Nat)
  | [], val, pos, _, _, _, fields => if pos < 3 then none else some (fields ++ [val])
  | c :: rest, val, pos, digLen, atStart, prevDot, fields =>
    if isDigit c then
      if digLen == 1 && val == 0 then none
      else
        let val' := val * 10 + (c.toNat - 48)
        if val' > 255 then none else v4Go rest val' pos (digLen + 1) false false fields
    else if c == '.' then
      if atStart || rest.isEmpty || prevDot then none
      else if pos == 3 then none
      else v4Go rest 0 (pos + 1) 0 false true (fields ++ [val])
    else none

/-- the four octets of a dotted-quad text -/
def parseIPv4Fields (s : Str) : Option (List Nat) := v4Go s 0 0 0 true false []

/-- big-endian value of a byte list -/
def beValue (bs : List Nat) : Nat := bs.foldl (fun acc b => acc * 256 + b) 0

/-- One hex group of parseIPv6: returns (number of digits, value, remaining text); `none` = the
    "more than 4 digits" / ">= 2^16" errors. -/
def hexGroup : Str → (off acc : Nat) → Option (Nat × Nat × Str)
  | [], off, acc => some (off, acc, [])
  | c :: rest, off, acc =>
    match hexVal? c with
    | some v =>
      let acc' := acc * 16 + v
      if off > 3 then none
      else if acc' > 0xFFFF then none
      else hexGroup rest (off + 1) acc'
    | none => some (off, acc, c :: rest)

/-- the code after parseIPv6's loop: whole text used, ellipsis expansion -/
def v6Finish (s : Str) (i : Nat) (ell : Option Nat) (bytes : List Nat) : Option (List Nat) :=
  if !s.isEmpty then none
  else if i < 16 then
    match ell with
    | none => none
    | some e => some (bytes.take e ++ List.replicate (16 - i) 0 ++ bytes.drop e)
  else if ell.isSome then none
  else some bytes

/-- parseIPv6's main loop (`for i < 16`); `bytes` are ip[0:i]. At most 8 iterations. -/
def v6Loop : Nat → Str → (i : Nat) → (ell : Option Nat) → (bytes : List Nat) → Option (List Nat)
  | 0, _, _, _, _ => none
  | fuel + 1, s, i, ell, bytes =>
    if i ≥ 16 then v6Finish s i ell bytes
    else
      match hexGroup s 0 0 with
      | none => none
      | some (off, acc, rest) =>
        if off == 0 then none
        else
          match rest with
          | '.' :: _ =>
            if ell.isNone && i != 12 then none
            else if i + 4 > 16 then none
            else
              match parseIPv4Fields s with
              | none => none
              | some f4 => v6Finish [] (i + 4) ell (bytes ++ f4)
          | [] => v6Finish [] (i + 2) ell (bytes ++ [acc / 256, acc % 256])
          | c :: rest1 =>
            let bytes' := bytes ++ [acc / 256, acc % 256]
            let i' := i + 2
            if c != ':' then none
            else
              match rest1 with
              | [] => none                      -- "colon must be followed by more characters"
              | ':' :: rest2 =>
                if ell.isSome then none
                else if rest2.isEmpty then v6Finish [] i' (some i') bytes'
                else v6Loop fuel rest2 i' (some i') bytes'
              | _ => v6Loop fuel rest1 i' ell bytes'

/-- netip.parseIPv6 on a text without zone -/
def parseIPv6Bytes (s : Str) : Option (List Nat) :=
  match s with
  | ':' :: ':' :: rest =>
    if rest.isEmpty then some (List.replicate 16 0) else v6Loop 9 rest 0 (some 0) []
  | _ => v6Loop 9 s 0 none []

/-- Result of netip.ParseAddr, zone-free (net.ParseIP and net.ParseCIDR refuse zones). -/
inductive ParsedAddr where
  | v4 (a : Nat)      -- a < 2^32
  | v6 (a16 : Nat)    -- a16 < 2^128 (includes the IPv4-mapped form when written as IPv6 text)
  deriving Repr, DecidableEq

/-- netip.ParseAddr restricted to zone-free results: the first of '.', ':', '%' decides. -/
def parseAddrGo (whole : Str) : Str → Option ParsedAddr
  | [] => none
  | c :: rest =>
    if c == '.' then (parseIPv4Fields whole).map (fun f => .v4 (beValue f))
    else if c == ':' then
      if whole.contains '%' then none else (parseIPv6Bytes whole).map (fun b => .v6 (beValue b))
    else if c == '%' then none
    else parseAddrGo whole rest

def parseAddr (s : Str) : Option ParsedAddr := parseAddrGo s s

/-- IPv4-mapped prefix: the 16-byte form of an IPv4 address is `::ffff:a.b.c.d`. -/
def mapped (a : Nat) : Nat := 0xFFFF * 2 ^ 32 + a

/-- netip.Addr.As16: a 16-byte array (the `%` only states the fixed width of the Go types) -/
def ParsedAddr.as16 : ParsedAddr → Nat
  | .v4 a => mapped (a % 2 ^ 32)
  | .v6 a => a % 2 ^ 128

def ParsedAddr.bitLen : ParsedAddr → Nat
  | .v4 _ => 32
  | .v6 _ => 128

/-- net.ParseIP: the 16-byte form, as a number. -/
def parseIP (s : Str) : Option Nat := (parseAddr s).map ParsedAddr.as16

/-- net's dtoi on the mask part: digits only, whole string, value < 0xFFFFFF. -/
def dtoiGo : Str → Nat → Option Nat
  | [], n => some n
  | c :: rest, n =>
    if isDigit c then
      let n' := n * 10 + (c.toNat - 48)
      if n' ≥ 0xFFFFFF then none else dtoiGo rest n'
    else none

def dtoiAll (s : Str) : Option Nat := if s.isEmpty then none else dtoiGo s 0

/-- What net.ParseCIDR keeps of a CIDR text: the address family's bit length, the address in
    16-byte form and the prefix length. -/
structure CIDR where
  bitLen : Nat     -- 32 for IPv4 text, 128 for IPv6 text
  addr16 : Nat
  ones : Nat       -- ≤ bitLen
  deriving Repr, DecidableEq

def splitSlash : Str → Str → Option (Str × Str)
  | [], _ => none
  | c :: rest, acc => if c == '/' then some (acc.reverse, rest) else splitSlash rest (c :: acc)

/-- net.ParseCIDR (only the network part is used by inRange). -/
def parseCIDR (s : Str) : Option CIDR :=
  match splitSlash s [] with
  | none => none
  | some (addr, mask) =>
    match parseAddr addr with
    | none => none
    | some pa =>
      match dtoiAll mask with
      | none => none
      | some n => if n > pa.bitLen then none else some ⟨pa.bitLen, pa.as16, n⟩

/-! ## Number layer: net.IP.To4, CIDRMask, IP.Mask, IPNet.Contains -/

/-- `ip.To4() != nil` for a 16-byte address: bytes 0..9 zero, bytes 10, 11 = 0xff. -/
def isMapped (a16 : Nat) : Bool := a16 / 2 ^ 32 == 0xFFFF

/-- An address after `To4` normalisation (what IPNet.Contains compares). -/
inductive Addr where
  | v4 (a : Nat)
  | v6 (a : Nat)
  deriving Repr, DecidableEq

def normalise (a16 : Nat) : Addr := if isMapped a16 then .v4 (a16 % 2 ^ 32) else .v6 a16

/-- net.CIDRMask(ones, bits) as a number: `ones` leading one bits out of `bits`. -/
def cidrMask (ones bits : Nat) : Nat := (2 ^ ones - 1) <<< (bits - ones)

/-- net.IPNet as ParseCIDR builds it: `IP` has 4 or 16 bytes, `Mask` has bitLen/8 bytes. -/
structure IPNet where
  ip : Addr          -- .v4 = 4-byte IP, .v6 = 16-byte IP (no normalisation implied)
  maskBits : Nat     -- 32 or 128 : length of the mask
  mask : Nat
  deriving Repr, DecidableEq

/-- ParseCIDR: `m := CIDRMask(n, BitLen)`, `IP(addr16).Mask(m)`.  IP.Mask shortens a 16-byte IPv4-mapped
    address to 4 bytes when the mask has 4 bytes; then bytes are and-ed. -/
def ipNetOf (c : CIDR) : IPNet :=
  let m := cidrMask c.ones c.bitLen
  if c.bitLen == 32 then ⟨.v4 ((c.addr16 % 2 ^ 32) &&& m), 32, m⟩
  else ⟨.v6 (c.addr16 &&& m), 128, m⟩

/-- net.networkNumberAndMask: `none` models the `nil, nil` result. -/
def numberAndMask (n : IPNet) : Option (Addr × Nat) :=
  -- ip = n.IP.To4(); if nil then ip = n.IP (must have 16 bytes)
  let ip : Addr := match n.ip with
    | .v4 a => .v4 a
    | .v6 a => normalise a
  if n.maskBits == 32 then
    match ip with
    | .v4 a => some (.v4 a, n.mask)
    | .v6 _ => none                                  -- len(ip) != 4
  else if n.maskBits == 128 then
    match ip with
    | .v4 a => some (.v4 a, n.mask % 2 ^ 32)         -- m = m[12:]
    | .v6 a => some (.v6 a, n.mask)
  else none

/-- net.IPNet.Contains on a 16-byte candidate address. -/
def contains (n : IPNet) (ip16 : Nat) : Bool :=
  match numberAndMask n with
  | none => false
  | some (nn, m) =>
    match nn, normalise ip16 with
    | .v4 b, .v4 a => (b &&& m) == (a &&& m)
    | .v6 b, .v6 a => (b &&& m) == (a &&& m)
    | _, _ => false                                  -- l != len(nn)

/-! ## Policy layer: client.go -/

/-- inRange: entries that do not parse (`none`) are skipped (`continue`), the first containing range wins. -/
def inRange (ip16 : Nat) : List (Option CIDR) → Bool
  | [] => false
  | none :: rest => inRange ip16 rest
  | some c :: rest => if contains (ipNetOf c) ip16 then true else inRange ip16 rest

/-- isAllowed: deny list first, then allow list, else refused. -/
def isAllowed (ip16 : Nat) (allow deny : List (Option CIDR)) : Bool :=
  if inRange ip16 deny then false
  else if inRange ip16 allow then true
  else false

inductive Verdict where
  | ok
  | badNetwork     -- "<network> is not a safe network type"
  | badHostPort    -- net.SplitHostPort failed
  | badIP          -- net.ParseIP(host) == nil
  | denied
  deriving Repr, DecidableEq

/-- allowDenyNetworksControl's closure.  `split` is the result of net.SplitHostPort(address) (the host
    part, or `none` on error) — std-lib, supplied by the caller. -/
def control (allow deny : List (Option CIDR)) (network : Str) (split : Option Str) : Verdict :=
  if network != "tcp4".toList && network != "tcp6".toList then .badNetwork
  else
    match split with
    | none => .badHostPort
    | some host =>
      match parseIP host with
      | none => .badIP
      | some ip16 => if !isAllowed ip16 allow deny then .denied else .ok

/-! ## Specification -/
namespace Spec

/-- The range a configured entry denotes: IPv4 addresses or proper IPv6 addresses sharing the first
    `n` bits with `base`.  An entry written in IPv6 form whose prefix covers the whole IPv4-mapped
    prefix (n ≥ 96) denotes the IPv4 range `/n-96`. -/
inductive Range where
  | r4 (base n : Nat)
  | r6 (base n : Nat)
  deriving Repr, DecidableEq

def rangeOf (c : CIDR) : Range :=
  if c.bitLen == 32 then .r4 (c.addr16 % 2 ^ 32) c.ones
  else if c.ones ≥ 96 && isMapped c.addr16 then .r4 (c.addr16 % 2 ^ 32) (c.ones - 96)
  else .r6 c.addr16 c.ones

/-- membership = same family and same first `n` bits -/
def mem (ip : Addr) (r : Range) : Prop :=
  match r, ip with
  | .r4 base n, .v4 a => a / 2 ^ (32 - n) = base / 2 ^ (32 - n)
  | .r6 base n, .v6 a => a / 2 ^ (128 - n) = base / 2 ^ (128 - n)
  | _, _ => False

instance (ip : Addr) (r : Range) : Decidable (mem ip r) := by
  unfold mem; split <;> infer_instance

/-- the parsable entries of a configured list -/
def parsable (l : List (Option CIDR)) : List CIDR := l.filterMap id

/-- C16: a connection is permitted iff the address lies in no denied range and in at least one allowed range. -/
def permitted (ip : Addr) (allow deny : List (Option CIDR)) : Prop :=
  (∀ d ∈ parsable deny, ¬ mem ip (rangeOf d)) ∧ (∃ a ∈ parsable allow, mem ip (rangeOf a))

instance (ip : Addr) (allow deny : List (Option CIDR)) : Decidable (permitted ip allow deny) := by
  unfold permitted; infer_instance

end Spec

end V.Cidr
