/-
  VModel.Auth — executable model of eventauth.go + eventcontent.go: `Allowed`, the reusable
  `allowerContext` (update / allowed), content parsers, power-level checks.  Core Lean only.

  The model mirrors the Go code function by function (same order of checks, same defaults).
  `userIDForSender` is the standard resolver `spec.NewUserID(sender, true)`.
  Signature verification of third-party invites is an oracle bit supplied with the event.
-/
import VModel.Event
namespace V.Auth
open V Json GoJson

inductive Verdict where
  | ok
  | notAllowed      -- *NotAllowed
  | err             -- any other error value
  | panic (site : String)
  | unmodelled (why : String)
  deriving Repr, DecidableEq, Inhabited

abbrev R := Except Verdict   -- `.error v` = the function returned (or crashed) with verdict v

def notAllowed {α} : R α := .error .notAllowed
def failErr {α} : R α := .error .err

def creatorPowerLevel : Int := 9007199254740992        -- int64(math.Pow(2, 53))

/-! ## Content parsers -/

structure CreateContent where
  senderDomain : Bytes := []
  roomID : Bytes := []
  eventID : Bytes := []
  federate : Option Bool := none
  roomVersion : Option Bytes := none
  additionalCreators : List Bytes := []
  deriving Repr, Inhabited

/-- json.Unmarshal(content, &CreateContent{}) — `none` when it returns an error. -/
def decodeCreateContent (c : Option JVal) : Option CreateContent :=
  match c with
  | none => none
  | some .null => some {}
  | some (.obj kvs) =>
    let fed := decBoolPtr (lookupExact kvs b!"m.federate")
    let creator := decString (lookupExact kvs b!"creator")
    let rv := decStringPtr (lookupExact kvs b!"room_version")
    let ty := decString (lookupExact kvs b!"type")
    let ac := decStringSlice (lookupExact kvs b!"additional_creators")
    let predErr := match lookupExact kvs b!"predecessor" with
      | none => false
      | some .null => false
      | some (.obj p) => (decString (lookupField p b!"room_id")).err || (decString (lookupField p b!"event_id")).err
      | some _ => true
    if fed.err || creator.err || rv.err || ty.err || ac.err || predErr then none
    else some { federate := fed.val, roomVersion := rv.val, additionalCreators := ac.val.getD [] }
  | some _ => none

/-- `MemberContent` as the auth code uses it. -/
structure ThirdPartySigned where
  mxid : Bytes := []
  token : Bytes := []
  /-- (domain, key ID) pairs present under `signed.signatures` -/
  sigs : List (Bytes × Bytes) := []
  deriving Repr, Inhabited

structure MemberContent where
  membership : Bytes := []
  thirdPartyInvite : Option ThirdPartySigned := none
  authorisedVia : Bytes := []
  mxidMappingUserID : Option Bytes := none
  deriving Repr, Inhabited

/-- `map[string]map[string]string` -/
def decodeSigMap (v : Option JVal) : Dec (List (Bytes × Bytes)) :=
  match v with
  | none => ⟨[], false⟩
  | some .null => ⟨[], false⟩
  | some (.obj doms) =>
    let per := doms.map (fun (d : Bytes × JVal) => match d.2 with
      | .null => (([] : List (Bytes × Bytes)), false)
      | .obj ks => (ks.map (fun (k : Bytes × JVal) => (d.1, k.1)), ks.any (fun (k : Bytes × JVal) => (decString (some k.2)).err))
      | _ => ([], true))
    ⟨(per.map (·.1)).flatten, per.any (·.2)⟩
  | some _ => ⟨[], true⟩

def decodeThirdParty (v : Option JVal) : Dec (Option ThirdPartySigned) :=
  match v with
  | none => ⟨none, false⟩
  | some .null => ⟨none, false⟩
  | some (.obj kvs) =>
    let dn := decString (lookupField kvs b!"display_name")
    match lookupField kvs b!"signed" with
    | none => ⟨some {}, dn.err⟩
    | some .null => ⟨some {}, dn.err⟩
    | some (.obj s) =>
      let mxid := decString (lookupField s b!"mxid")
      let token := decString (lookupField s b!"token")
      let sigs := decodeSigMap (lookupField s b!"signatures")
      ⟨some { mxid := mxid.val, token := token.val, sigs := sigs.val }, dn.err || mxid.err || token.err || sigs.err⟩
    | some _ => ⟨some {}, true⟩
  | some _ => ⟨none, true⟩

/-- mxid_mapping: `*MXIDMapping`; the base64 signatures inside are not modelled (`unmodelled` when present and non-null). -/
def decodeMxidMapping (v : Option JVal) : Dec (Option Bytes) × Bool :=
  match v with
  | none => (⟨none, false⟩, false)
  | some .null => (⟨none, false⟩, false)
  | some (.obj kvs) =>
    let k := decString (lookupField kvs b!"user_room_key")
    let u := decString (lookupField kvs b!"user_id")
    let sigsUnmodelled := match lookupField kvs b!"signatures" with
      | none => false
      | some .null => false
      | _ => true
    (⟨some u.val, k.err || u.err⟩, sigsUnmodelled)
  | some _ => (⟨none, true⟩, false)

/-- `NewMemberContentFromEvent`: the content restricted to the members named EXACTLY as `MemberContent`'s fields
    (`exactFieldsOnly`: `lookupExact`, not encoding/json's folded matching — c080830), then the full decode, falling back
    to the partial `membershipContent`; an error only if the partial decode fails too.  Fields the auth code reads come
    from the same lookups.  (The members inside `third_party_invite` / `mxid_mapping` are still matched folded.) -/
def decodeMemberContent (c : Option JVal) : R MemberContent :=
  match c with
  | none => notAllowed
  | some .null => .ok {}
  | some (.obj kvs) =>
    let m := decString (lookupExact kvs b!"membership")
    let tp := decodeThirdParty (lookupExact kvs b!"third_party_invite")
    let av := decString (lookupExact kvs b!"join_authorised_via_users_server")
    let (mm, mmUnmodelled) := decodeMxidMapping (lookupExact kvs b!"mxid_mapping")
    if mmUnmodelled then .error (.unmodelled "mxid_mapping.signatures")
    else if m.err || tp.err || av.err || mm.err then notAllowed
    else .ok { membership := m.val, thirdPartyInvite := tp.val, authorisedVia := av.val, mxidMappingUserID := mm.val }
  | some _ => notAllowed

structure PowerLevels where
  ban : Int := 0
  invite : Int := 0
  kick : Int := 0
  redact : Int := 0
  usersDefault : Int := 0
  eventsDefault : Int := 0
  stateDefault : Int := 0
  users : List (Bytes × Int) := []
  events : List (Bytes × Int) := []
  notifications : List (Bytes × Int) := []
  deriving Repr, Inhabited

/-- `PowerLevelContent.Defaults()` -/
def PowerLevels.defaults : PowerLevels :=
  { invite := 0, ban := 50, kick := 50, redact := 50, usersDefault := 0, eventsDefault := 0, stateDefault := 50,
    notifications := [(b!"room", 50)] }

def PowerLevels.userLevel (p : PowerLevels) (u : Bytes) : Int := (mapGet p.users u).getD p.usersDefault

def PowerLevels.eventLevel (p : PowerLevels) (t : Bytes) (isState : Bool) : Int :=
  if t == b!"m.room.third_party_invite" then p.invite
  else match mapGet p.events t with
    | some l => l
    | none => if isState then p.stateDefault else p.eventsDefault

def PowerLevels.notificationLevel (p : PowerLevels) (n : Bytes) : Int := (mapGet p.notifications n).getD 50

/-- merge decoded entries into an existing Go map -/
def mapMerge (base : List (Bytes × Int)) (kvs : List (Bytes × Int)) : List (Bytes × Int) :=
  dedupLast (base ++ kvs)

/-- a level as `parseIntegerPowerLevels` reads it: json.Unmarshal into an `int64` field (only an integer literal in
    range is stored) behind the null check of 33ac4f7 (encoding/json would skip `null` silently) -/
def decIntLevel (d : Int) (v : Option JVal) : Dec Int :=
  match v with
  | some .null => ⟨d, true⟩
  | _ => decInt64 d v

/-- `parseIntegerPowerLevels`: plain json.Unmarshal into PowerLevelContent (ints must be integer literals); a `null` in
    place of a map of levels, or of one of its values, is refused first (33ac4f7). -/
def decodeIntMap (base : List (Bytes × Int)) (v : Option JVal) : Dec (List (Bytes × Int)) :=
  match v with
  | none => ⟨base, false⟩
  | some .null => ⟨base, true⟩
  | some (.obj kvs) =>
    let ds := kvs.map (fun kv => (kv.1, decIntLevel 0 (some kv.2)))
    ⟨mapMerge base (ds.map (fun d => (d.1, d.2.val))), ds.any (fun d => d.2.err)⟩
  | some _ => ⟨base, true⟩

def parseIntegerPowerLevels (c : Option JVal) (d : PowerLevels) : Option PowerLevels :=
  match c with
  | none => none
  | some .null => some d
  | some (.obj kvs) =>
    let f (name : Bytes) (dflt : Int) := decIntLevel dflt (lookupExact kvs name)
    let ban := f b!"ban" d.ban; let invite := f b!"invite" d.invite; let kick := f b!"kick" d.kick
    let redact := f b!"redact" d.redact; let ud := f b!"users_default" d.usersDefault
    let ed := f b!"events_default" d.eventsDefault; let sd := f b!"state_default" d.stateDefault
    let users := decodeIntMap d.users (lookupExact kvs b!"users")
    let events := decodeIntMap d.events (lookupExact kvs b!"events")
    let notif := decodeIntMap d.notifications (lookupExact kvs b!"notifications")
    if ban.err || invite.err || kick.err || redact.err || ud.err || ed.err || sd.err || users.err || events.err || notif.err
    then none
    else some { ban := ban.val, invite := invite.val, kick := kick.val, redact := redact.val, usersDefault := ud.val,
                eventsDefault := ed.val, stateDefault := sd.val, users := users.val, events := events.val,
                notifications := notif.val }
  | some _ => none

/-- Go `strings.TrimSpace` on ASCII / the white-space runes that can occur (other Unicode spaces: unmodelled by the generator). -/
def isGoSpace (c : UInt8) : Bool := c == 0x20 || c == 0x09 || c == 0x0A || c == 0x0B || c == 0x0C || c == 0x0D

def trimSpace (s : Bytes) : Bytes := ((s.dropWhile isGoSpace).reverse.dropWhile isGoSpace).reverse

/-- Value of a number literal with fraction / exponent truncated toward zero, as `int64(float64)`:
    exact for literals with few significant digits; `none` = not modelled (precision-sensitive). -/
def floatLitTrunc (lit : Bytes) : Option Int :=
  let (neg, s) : Bool × Bytes := match lit with
    | 0x2D :: r => (true, r)
    | r => (false, r)
  let (ip, s1) := takeDigits s
  let (fp, s2) : Bytes × Bytes := match s1 with
    | 0x2E :: r => takeDigits r
    | _ => ([], s1)
  let exp : Option Int := match s2 with
    | [] => some 0
    | e :: r =>
      if e == 0x65 || e == 0x45 then
        match r with
        | 0x2D :: ds => (natOfDigits? ds).map (fun n => -(n : Int))
        | 0x2B :: ds => (natOfDigits? ds).map (fun n => (n : Int))
        | ds => (natOfDigits? ds).map (fun n => (n : Int))
      else none
  match exp with
  | none => none
  | some ex =>
    let digits := ip ++ fp
    if digits.length > 15 || ex > 18 || ex < -40 then none else
    let mant : Nat := natOfDigits digits
    let scale : Int := ex - fp.length
    let mag : Nat := if scale ≥ 0 then mant * 10 ^ scale.toNat else mant / 10 ^ (-scale).toNat
    if mag ≥ 9007199254740992 then none else
    some (if neg then -(mag : Int) else (mag : Int))

/-- `levelJSONValue.UnmarshalJSON` on the raw value: `none` = error; inner `none` = not modelled. -/
def levelValue (v : JVal) : Option (Option Int) :=
  match v with
  | .num lit =>
    match parseInt64 lit with
    | some n => some (some n)
    | none =>
      match floatLitTrunc lit with
      | some n => some (some n)
      | none => some none
  | .str s =>
    match parseInt64 (trimSpace s) with
    | some n => some (some n)
    | none => none
  | _ => none

inductive LevelDec where
  | absent
  | val (n : Int)
  | bad
  | unmodelled

def decLevel (v : Option JVal) : LevelDec :=
  match v with
  | none => .absent
  | some x => match levelValue x with
    | none => .bad
    | some none => .unmodelled
    | some (some n) => .val n

def decLevelMap (v : Option JVal) : Option (List (Bytes × LevelDec)) :=
  match v with
  | none => some []
  | some .null => some []
  | some (.obj kvs) => some (kvs.map (fun kv => (kv.1, decLevel (some kv.2))))
  | some _ => none

/-- `parsePowerLevels` (room versions that coerce strings / floats). -/
def parsePowerLevels (c : Option JVal) (d : PowerLevels) : R PowerLevels :=
  match c with
  | none => notAllowed
  | some .null => .ok d
  | some (.obj kvs) =>
    let fields := [b!"invite", b!"ban", b!"kick", b!"redact", b!"users_default", b!"state_default", b!"events_default"]
    let decs := fields.map (fun n => decLevel (lookupExact kvs n))
    let maps := [decLevelMap (lookupExact kvs b!"users"), decLevelMap (lookupExact kvs b!"events"),
                 decLevelMap (lookupExact kvs b!"notifications")]
    let isBad (l : LevelDec) : Bool := match l with | .bad => true | _ => false
    let isUnm (l : LevelDec) : Bool := match l with | .unmodelled => true | _ => false
    let anyBad := decs.any isBad || maps.any (fun m => match m with | none => true | some es => es.any (fun e => isBad e.2))
    let anyUnm := decs.any isUnm || maps.any (fun m => match m with | none => false | some es => es.any (fun e => isUnm e.2))
    if anyBad then notAllowed
    else if anyUnm then .error (.unmodelled "float power level beyond exact range")
    else
      let get (i : Nat) (dflt : Int) : Int := match decs[i]? with | some (.val n) => n | _ => dflt
      let toMap (i : Nat) (base : List (Bytes × Int)) : List (Bytes × Int) :=
        match maps[i]? with
        | some (some es) => mapMerge base (es.filterMap (fun e => match e.2 with | .val n => some (e.1, n) | _ => none))
        | _ => base
      .ok { invite := get 0 d.invite, ban := get 1 d.ban, kick := get 2 d.kick, redact := get 3 d.redact,
            usersDefault := get 4 d.usersDefault, stateDefault := get 5 d.stateDefault, eventsDefault := get 6 d.eventsDefault,
            users := toMap 0 d.users, events := toMap 1 d.events, notifications := toMap 2 d.notifications }
  | some _ => notAllowed

/-- `NewPowerLevelContentFromEvent` -/
def powerLevelsFromEvent (e : Event) : R PowerLevels :=
  match e.row with
  | none => failErr
  | some row =>
    if row.parsePowerLevelsFunc == "parseIntegerPowerLevels" then
      match parseIntegerPowerLevels e.content PowerLevels.defaults with
      | some p => .ok p
      | none => notAllowed
    else if row.parsePowerLevelsFunc == "parsePowerLevels" then parsePowerLevels e.content PowerLevels.defaults
    else .error (.unmodelled "unknown parsePowerLevelsFunc")

/-- `JoinRuleContent` decode: the join rule (default invite), `none` on error -/
def decodeJoinRule (c : Option JVal) : Option Bytes :=
  match c with
  | none => none
  | some .null => some b!"invite"
  | some (.obj kvs) =>
    let jr := match lookupExact kvs b!"join_rule" with
      | none => (⟨b!"invite", false⟩ : Dec Bytes)
      | some .null => ⟨b!"invite", false⟩
      | some (.str s) => ⟨s, false⟩
      | some _ => ⟨b!"invite", true⟩
    let allowErr := match lookupExact kvs b!"allow" with
      | none => false
      | some .null => false
      | some (.arr xs) => xs.any (fun x => match x with
          | .null => false
          | .obj a => (decString (lookupField a b!"type")).err || (decString (lookupField a b!"room_id")).err
          | _ => true)
      | some _ => true
    if jr.err || allowErr then none else some jr.val
  | some _ => none

/-- `ThirdPartyInviteContent`: number of usable `public_keys` entries, `none` on decode error;
    the base64 payloads are abstracted (a bad base64 string makes the decode fail: the harness only
    sends well-formed ones and says so). -/
def decodeThirdPartyInviteKeys (c : Option JVal) : Option Nat :=
  match c with
  | none => none
  | some .null => some 0
  | some (.obj kvs) =>
    let e1 := (decString (lookupExact kvs b!"display_name")).err || (decString (lookupExact kvs b!"key_validity_url")).err
      || (decString (lookupExact kvs b!"public_key")).err
    match lookupExact kvs b!"public_keys" with
    | none => if e1 then none else some 0
    | some .null => if e1 then none else some 0
    | some (.arr xs) =>
      let bad := xs.any (fun x => match x with
        | .null => false
        | .obj p => (match lookupField p b!"public_key" with
            | none => false | some .null => false | some (.str _) => false | some _ => true)
            || (decString (lookupField p b!"key_validity_url")).err
        | _ => true)
      if e1 || bad then none else some xs.length
    | some _ => none
  | some _ => none

/-! ## The auth event provider -/

structure Provider where
  /-- one event per (type, state_key): what `AuthEvents.events` holds -/
  events : List Event
  /-- distinct room IDs of every event ever added -/
  roomIDs : List Bytes
  /-- identity of the provider object (for `update`'s `provider != a.provider`) -/
  ident : Nat := 0
  deriving Repr, Inhabited

def Provider.get (p : Provider) (t k : Bytes) : Option Event :=
  p.events.find? (fun e => e.type == t && e.stateKey == some k)

def Provider.create (p : Provider) := p.get b!"m.room.create" []
def Provider.joinRules (p : Provider) := p.get b!"m.room.join_rules" []
def Provider.powerLevels (p : Provider) := p.get b!"m.room.power_levels" []
def Provider.member (p : Provider) (u : Bytes) := p.get b!"m.room.member" u
def Provider.thirdPartyInvite (p : Provider) (tok : Bytes) := p.get b!"m.room.third_party_invite" tok
def Provider.valid (p : Provider) : Bool := p.roomIDs.length ≤ 1

/-- `NewAuthEvents(events)`: later events replace earlier ones with the same (type, state_key). -/
def Provider.ofEvents (evs : List Event) (ident : Nat := 0) : Provider :=
  { events := evs.foldl (fun acc e => acc.filter (fun x => !(x.type == e.type && x.stateKey == e.stateKey)) ++ [e]) [],
    roomIDs := evs.foldl (fun acc e => if acc.contains e.roomID then acc else acc ++ [e.roomID]) [],
    ident := ident }

/-! ## allowerContext -/

structure Ctx where
  provider : Provider := { events := [], roomIDs := [], ident := 0 }
  hasProvider : Bool := false
  createEvent : Option Event := none
  create : CreateContent := {}
  creators : List Bytes := []
  privilegedCreators : Bool := false
  plEvent : Option Event := none
  pl : PowerLevels := {}
  /-- `powerLevelsErr`: the error of loading a power-levels event the provider has (d1e42dd) -/
  plErr : Option Verdict := none
  jrEvent : Option Event := none
  joinRule : Bytes := []
  deriving Repr, Inhabited

/-- the standard `userIDForSender`: `spec.NewUserID(sender, true)` -/
def resolveUser (sender : Bytes) : R UserID :=
  match parseUserID? sender with
  | none => .error (.unmodelled "IPv6 literal in user ID domain")
  | some none => failErr
  | some (some u) => .ok u

/-- `NewCreateContentFromAuthEvents`, as a function of the provider's create event -/
def createContentOf (ce : Option Event) : R CreateContent :=
  match ce with
  | none => notAllowed
  | some ce =>
    match decodeCreateContent ce.content with
    | none => notAllowed
    | some c =>
      match resolveUser ce.sender with
      | .error (.unmodelled w) => .error (.unmodelled w)
      | .error _ => notAllowed
      | .ok u => .ok { c with roomID := ce.roomID, eventID := ce.eventID, senderDomain := u.domain }

/-! Go compares the cached event with the provider's by POINTER (`a.createEvent != e`).  The model compares the events
    structurally — ID, version and the whole JSON value.  That is observationally the same: two distinct objects with equal
    content are re-parsed by the code and kept by the model, and parsing is a function of the content.  (Comparing by event
    ID alone would NOT be the same: the trusted constructors take the ID as given, so two different events can carry one
    ID — seeded change C09-r4m1.) -/
mutual
def jvBeq : JVal → JVal → Bool
  | .null, .null => true
  | .bool a, .bool b => a == b
  | .num a, .num b => a == b
  | .str a, .str b => a == b
  | .arr a, .arr b => jvsBeq a b
  | .obj a, .obj b => jkvsBeq a b
  | _, _ => false
def jvsBeq : List JVal → List JVal → Bool
  | [], [] => true
  | x :: xs, y :: ys => jvBeq x y && jvsBeq xs ys
  | _, _ => false
def jkvsBeq : List (Bytes × JVal) → List (Bytes × JVal) → Bool
  | [], [] => true
  | (k, x) :: xs, (l, y) :: ys => k == l && jvBeq x y && jkvsBeq xs ys
  | _, _ => false
end

def sameEvent (a b : Option Event) : Bool :=
  match a, b with
  | none, none => true
  | some x, some y => x.eventID == y.eventID && x.ver == y.ver && jkvsBeq x.obj y.obj
  | _, _ => false

/-- What the create part of the cache holds after a refresh from create event `e` (a function of the event
    alone): `.error` only for unmodelled inputs. -/
def createInfo (e : Option Event) : R (Option Event × CreateContent × List Bytes × Bool) :=
  match createContentOf e with
  | .ok c =>
    match e with
    | some ce =>
      let extra := (decodeCreateContent ce.content).map (·.additionalCreators) |>.getD []
      let priv := (ce.row.map (·.privilegedCreators)).getD false
      .ok (some ce, c, ce.sender :: extra, priv)
    | none => .ok (none, {}, [], false)   -- unreachable: createContentOf fails without a create event
  | .error (.unmodelled w) => .error (.unmodelled w)
  | .error _ => .ok (none, {}, [], false)

/-- the power-levels part of the cache after a refresh, given the (already refreshed) creator -/
def plInfo (e : Option Event) (creator : Bytes) : R (Option Event × PowerLevels) :=
  match e with
  | none => .ok (none, { PowerLevels.defaults with users := [(creator, 9007199254740991)], stateDefault := 50 })
  | some ev =>
    match powerLevelsFromEvent ev with
    | .ok pl => .ok (some ev, pl)
    | .error (.unmodelled w) => .error (.unmodelled w)
    | .error _ => .ok (none, {})

/-- `powerLevelsErr` after a refresh: set when the provider HAS a power-levels event that cannot be loaded (an
    unmodelled one makes `update` itself answer `unmodelled`) -/
def plErrOf (e : Option Event) : Option Verdict :=
  match e with
  | none => none
  | some ev =>
    match powerLevelsFromEvent ev with
    | .ok _ => none
    | .error (.unmodelled _) => none
    | .error v => some v

/-- the join-rule part of the cache after a refresh -/
def jrInfo (e : Option Event) : Option Event × Bytes :=
  match e with
  | none => (none, b!"invite")
  | some ev =>
    match decodeJoinRule ev.content with
    | some jr => (some ev, jr)
    | none => (none, [])

def Ctx.switchProvider (a0 : Ctx) (p : Provider) : Ctx :=
  if !a0.hasProvider || p.ident != a0.provider.ident then
    { provider := p, hasProvider := true, createEvent := none, create := {}, creators := [], privilegedCreators := false,
      plEvent := none, pl := {}, plErr := none, jrEvent := none, joinRule := [] }
  else { a0 with provider := p }

def Ctx.refreshCreate (a : Ctx) (p : Provider) : R Ctx :=
  if a.createEvent.isNone || !sameEvent a.createEvent p.create then
    match createInfo p.create with
    | .ok (ce, c, cr, pr) => .ok { a with createEvent := ce, create := c, creators := cr, privilegedCreators := pr }
    | .error v => .error v
  else .ok a

/-- sender of the cached create event ("" when there is none) -/
def senderOfOpt (o : Option Event) : Bytes :=
  match o with
  | some ce => ce.sender
  | none => []

def Ctx.refreshPL (a : Ctx) (p : Provider) : R Ctx :=
  if a.plEvent.isNone || !sameEvent a.plEvent p.powerLevels then
    match plInfo p.powerLevels (senderOfOpt a.createEvent) with
    | .ok (pe, pl) => .ok { a with plEvent := pe, pl := pl, plErr := plErrOf p.powerLevels }
    | .error v => .error v
  else .ok a

def Ctx.refreshJR (a : Ctx) (p : Provider) : Ctx :=
  if a.jrEvent.isNone || !sameEvent a.jrEvent p.joinRules then
    let (je, jr) := jrInfo p.joinRules
    { a with jrEvent := je, joinRule := jr }
  else a

/-- `allowerContext.update`.  Returns `.error` only for unmodelled inputs. -/
def Ctx.update (a0 : Ctx) (p : Provider) : R Ctx := do
  let a1 := a0.switchProvider p
  let a2 ← a1.refreshCreate p
  let a3 ← a2.refreshPL p
  pure (a3.refreshJR p)

/-- `userPowerLevel` -/
def Ctx.userPowerLevel (a : Ctx) (user : Bytes) : R Int :=
  if a.privilegedCreators && a.creators.contains user then .ok creatorPowerLevel
  else match a.plEvent with
    | none =>
      match a.createEvent with
      | none => .error (.panic "eventauth.go:userPowerLevel a.createEvent.SenderID() on nil create event")
      | some ce => .ok (if user == ce.sender then creatorPowerLevel - 1 else 0)
    | some _ => .ok (a.pl.userLevel user)

def CreateContent.domainAllowed (c : CreateContent) (domain : Bytes) : R Unit :=
  if domain == c.senderDomain then .ok ()
  else match c.federate with
    | none => .ok ()
    | some true => .ok ()
    | some false => notAllowed

def knownRoomVersion (v : Bytes) : Bool := (versionRow? v).isSome

/-- `checkCreateEventV1 / V2 / V3` by the regenerated column -/
def checkCreateEvent (e : Event) (sender : UserID) : R Unit :=
  match e.row with
  | none => .ok ()      -- GetRoomVersion failed: createEventAllowed returns nil
  | some row =>
    let domainCheck : R Unit :=
      match domainFromID (e.roomID.drop 1) with
      | none => .error (.panic "spec/roomid.go:Domain() on domain-less room ID")
      | some d => if sender.domain != d then notAllowed else .ok ()
    if row.checkCreateEvent == "checkCreateEventV1" then do
      domainCheck
      match e.content with
      | none => notAllowed
      | some .null => notAllowed          -- creator == nil
      | some (.obj kvs) =>
        let creator := decStringPtr (lookupExact kvs b!"creator")
        let rv := decStringPtr (lookupExact kvs b!"room_version")
        if creator.err || rv.err then notAllowed
        else if creator.val.isNone then notAllowed
        else match rv.val with
          | some v => if knownRoomVersion v then .ok () else notAllowed
          | none => .ok ()
      | some _ => notAllowed
    else if row.checkCreateEvent == "checkCreateEventV2" then do
      domainCheck
      -- room version 11 dropped the creator field, not the room_version check
      match e.content with
      | none => notAllowed
      | some .null => .ok ()
      | some (.obj kvs) =>
        let rv := decStringPtr (lookupExact kvs b!"room_version")
        if rv.err then notAllowed
        else match rv.val with
          | some v => if knownRoomVersion v then .ok () else notAllowed
          | none => .ok ()
      | some _ => notAllowed
    else if row.checkCreateEvent == "checkCreateEventV3" then
      match e.content with
      | none => notAllowed
      | some c =>
        let kvs : Option (List (Bytes × JVal)) := match c with
          | .null => some []
          | .obj k => some k
          | _ => none
        match kvs with
        | none => notAllowed
        | some kvs =>
          let rv := decStringPtr (lookupExact kvs b!"room_version")
          let ac := decStringSlice (lookupExact kvs b!"additional_creators")
          if rv.err || ac.err then notAllowed
          else if (match rv.val with | some v => !knownRoomVersion v | none => false) then notAllowed
          else
            let creators := ac.val.getD []
            if creators.any (fun c => (parseUserID? c).isNone) then .error (.unmodelled "IPv6 literal in additional creator")
            else if creators.any (fun c => parseUserID? c == some none) then notAllowed
            else
              let rid := decString (lookupField e.obj b!"room_id")
              if rid.err then notAllowed
              else if rid.val != [] then notAllowed
              else .ok ()
    else .error (.unmodelled "unknown checkCreateEvent")

/-- `createEventAllowed` -/
def Ctx.createEventAllowed (_a : Ctx) (e : Event) : R Unit := do
  if !e.stateKeyEquals [] then notAllowed
  if e.prevEventIDs.length > 0 then notAllowed
  let sender ← resolveUser e.sender
  checkCreateEvent e sender

/-! ### The sender lookup with ANY `spec.UserIDForSender` (defect P2 of the second audit round)

A querier answers a user ID, an error, or `(nil, nil)` — "no such user, no error" (`.ok none`): what a pseudo-ID
homeserver's querier answers for a room key it does not know, and what the repository's own
`NilUserIDForBadSenderTest` answers.  Of the ten call sites eight test `sender == nil` before the pointer is used
(lean/VModel/PanicSites.md §7); `createEventAllowed` (`*sender`) and `aliasEventAllowed` (`sender.Domain()`) did not —
a nil dereference.  Both now carry the same `if sender == nil { return errorf(…) }` guard: the `none` branch below.
With the standard querier (`stdQuerier`) the two functions are `Ctx.createEventAllowed` / `Ctx.aliasEventAllowed`
(`V.AuthRules.createEventAllowedQ_std`, `aliasEventAllowedQ_std`). -/

abbrev Querier := Bytes → R (Option UserID)

/-- the standard querier `spec.NewUserID(sender, true)`: never `(nil, nil)` -/
def stdQuerier : Querier := fun s =>
  match resolveUser s with
  | .ok u => .ok (some u)
  | .error v => .error v

/-- the standard querier, except that a sender that is not a user ID gets `(nil, nil)` instead of an error -/
def nilQuerier : Querier := fun s =>
  match resolveUser s with
  | .ok u => .ok (some u)
  | .error .err => .ok none
  | .error v => .error v

/-- `createEventAllowed` with the context's querier `q` -/
def Ctx.createEventAllowedQ (q : Querier) (_a : Ctx) (e : Event) : R Unit := do
  if !e.stateKeyEquals [] then notAllowed
  if e.prevEventIDs.length > 0 then notAllowed
  match ← q e.sender with
  | none => notAllowed                   -- `if sender == nil { return errorf(…) }`  (before the fix: `*sender`, nil dereference)
  | some sender => checkCreateEvent e sender

/-- `aliasEventAllowed` -/
def Ctx.aliasEventAllowed (a : Ctx) (e : Event) : R Unit := do
  let sender ← resolveUser e.sender
  if e.roomID != a.create.roomID then notAllowed
  a.create.domainAllowed sender.domain
  if e.ver == b!"org.matrix.msc4014" then
    if !e.stateKeyEquals e.sender then notAllowed
  else
    if !e.stateKeyEquals sender.domain then notAllowed

/-- `aliasEventAllowed` with the context's querier `q` -/
def Ctx.aliasEventAllowedQ (q : Querier) (a : Ctx) (e : Event) : R Unit := do
  match ← q e.sender with
  | none => notAllowed                   -- `if sender == nil { return errorf(…) }`  (before the fix: `sender.Domain()` on nil)
  | some sender =>
    if e.roomID != a.create.roomID then notAllowed
    a.create.domainAllowed sender.domain
    if e.ver == b!"org.matrix.msc4014" then
      if !e.stateKeyEquals e.sender then notAllowed
    else
      if !e.stateKeyEquals sender.domain then notAllowed

/-- `NewMemberContentFromAuthEvents` -/
def memberFromProvider (p : Provider) (u : Bytes) : R MemberContent :=
  match p.member u with
  | none => .ok { membership := b!"leave" }
  | some ev => decodeMemberContent ev.content

/-- `eventAllower.commonChecks` -/
def Ctx.commonChecks (a : Ctx) (member : MemberContent) (e : Event) : R Unit := do
  if e.roomID != a.create.roomID then notAllowed
  let user ← resolveUser e.sender
  a.create.domainAllowed user.domain
  if member.membership != b!"join" then notAllowed
  let senderLevel ← a.userPowerLevel e.sender
  let eventLevel := a.pl.eventLevel e.type e.stateKey.isSome
  if senderLevel < eventLevel then notAllowed
  -- m.room.third_party_invite events are allowed if and only if the sender has the invite level (checked above)
  if e.type != b!"m.room.third_party_invite" then
    match e.stateKey with
    | some (0x40 :: rest) => if (0x40 :: rest) != e.sender then notAllowed
    | _ => pure ()

/-- the (old, new) pairs `checkEventLevels` compares -/
def eventLevelPairs (old new : PowerLevels) : List (Int × Int) :=
  [(old.ban, new.ban), (old.invite, new.invite), (old.kick, new.kick), (old.redact, new.redact),
   (old.stateDefault, new.stateDefault), (old.eventsDefault, new.eventsDefault), (old.usersDefault, new.usersDefault)]
  ++ (new.events.map (fun kv => (old.eventLevel kv.1 false, new.eventLevel kv.1 false)))
  ++ (old.events.map (fun kv => (old.eventLevel kv.1 false, new.eventLevel kv.1 false)))

/-- `checkEventLevels` -/
def checkEventLevels (senderLevel : Int) (old new : PowerLevels) : Bool :=
  (eventLevelPairs old new).all (fun p => p.1 == p.2 || (!(senderLevel < p.2) && !(senderLevel < p.1)))

/-- the users `checkUserLevels` examines -/
def userLevelKeys (old new : PowerLevels) : List Bytes := new.users.map (·.1) ++ old.users.map (·.1)

/-- `checkUserLevels` -/
def checkUserLevels (senderLevel : Int) (sender : Bytes) (old new : PowerLevels) : Bool :=
  (userLevelKeys old new).all (fun u =>
    let o := old.userLevel u
    let n := new.userLevel u
    o == n || (!(senderLevel < n) && (u == sender || !(senderLevel ≤ o))))

def notificationKeys (old new : PowerLevels) : List Bytes := new.notifications.map (·.1) ++ old.notifications.map (·.1)

/-- `checkNotificationLevels` (548eba1): the notification levels, for a sender of the given level -/
def checkNotificationLevels (senderLevel : Int) (old new : PowerLevels) : Bool :=
  (notificationKeys old new).all (fun k =>
    let o := old.notificationLevel k
    let n := new.notificationLevel k
    o == n || (!(senderLevel < n) && !(senderLevel ≤ o)))

/-- `verImpl.CheckPowerLevelEvent` by the regenerated column -/
def Ctx.checkPowerLevelEvent (a : Ctx) (e : Event) (old new : PowerLevels) : R Unit :=
  match e.row with
  | none => .ok ()
  | some row =>
    if row.checkPowerLevelEvent == "checkPowerLevelEventV1" then .ok ()
    else if row.checkPowerLevelEvent == "checkPowerLevelEventV2" then
      -- the sender's level is read from the old content (this version has no privileged creators)
      if checkNotificationLevels (old.userLevel e.sender) old new then .ok () else notAllowed
    else if row.checkPowerLevelEvent == "checkPowerLevelEventV3" then
      match a.createEvent with
      | none => .error (.panic "eventauth.go:checkPowerLevelEventV3 createEvent.Content() on nil create event")
      | some ce =>
        match decodeCreateContent ce.content with
        | none => notAllowed
        | some cc =>
          let creators := ce.sender :: cc.additionalCreators
          -- creators are not listed in the power levels: they outrank every level (548eba1)
          let senderLevel := if creators.contains e.sender then creatorPowerLevel else old.userLevel e.sender
          if !checkNotificationLevels senderLevel old new then notAllowed
          else if new.users.any (fun kv => creators.contains kv.1) then failErr else .ok ()
    else .error (.unmodelled "unknown checkPowerLevelEvent")

/-- `powerLevelsEventAllowed` -/
def Ctx.powerLevelsEventAllowed (a : Ctx) (e : Event) : R Unit := do
  let member ← memberFromProvider a.provider e.sender
  a.commonChecks member e
  let newPL ← powerLevelsFromEvent e
  -- every key of `users` must resolve to a user ID
  if newPL.users.any (fun kv => (parseUserID? kv.1).isNone) then .error (.unmodelled "IPv6 literal in users key")
  if newPL.users.any (fun kv => parseUserID? kv.1 == some none) then failErr
  let old := a.pl
  let senderLevel ← a.userPowerLevel e.sender
  if !checkEventLevels senderLevel old newPL then notAllowed
  a.checkPowerLevelEvent e old newPL
  if !checkUserLevels senderLevel e.sender old newPL then notAllowed

/-- `redactEventAllowed` -/
def Ctx.redactEventAllowed (a : Ctx) (e : Event) : R Unit := do
  let member ← memberFromProvider a.provider e.sender
  a.commonChecks member e
  match a.create.roomVersion with
  | some v => if v != b!"1" && v != b!"2" then return ()
  | none => pure ()
  match domainFromID e.redacts with
  | none => notAllowed
  | some redactDomain =>
    let sender ← resolveUser e.sender
    if sender.domain == redactDomain then return ()
    let senderLevel ← a.userPowerLevel e.sender
    if senderLevel ≥ a.pl.redact then return ()
    notAllowed

/-- `defaultEventAllowed` -/
def Ctx.defaultEventAllowed (a : Ctx) (e : Event) : R Unit := do
  let member ← memberFromProvider a.provider e.sender
  a.commonChecks member e

/-- `checkKnockingAllowedFunc` column -/
def checkKnockingAllowed (row : VGen.VersionRow) (joinRule prevMembership : Bytes) : R Unit :=
  if row.checkKnockingAllowedFunc == "disallowKnocking" then notAllowed
  else if row.checkKnockingAllowedFunc == "checkKnocking" then
    if !(joinRule == b!"knock" || joinRule == b!"knock_restricted") then notAllowed
    else if prevMembership == b!"join" || prevMembership == b!"invite" || prevMembership == b!"ban" then notAllowed
    else .ok ()
  else .error (.unmodelled "unknown checkKnockingAllowedFunc")

structure MembershipAllower where
  ctx : Ctx
  row : VGen.VersionRow
  ver : Bytes
  thirdPartyKeys : Nat := 0
  targetID : Bytes
  senderID : Bytes
  senderMember : MemberContent
  oldMember : MemberContent
  newMember : MemberContent
  joinRule : Bytes

/-- `membershipAllowedSelfForRestrictedJoin`: returns the join rule to continue with -/
def MembershipAllower.restrictedJoin (m : MembershipAllower) : R Bytes := do
  if m.row.checkRestrictedJoinAllowedFunc == "disallowRestrictedJoins" then notAllowed
  else if m.row.checkRestrictedJoinAllowedFunc == "" then .error (.panic "eventversion.go:CheckRestrictedJoinsAllowed nil func")
  else if m.row.checkRestrictedJoinAllowedFunc != "allowRestrictedJoins" then .error (.unmodelled "unknown checkRestrictedJoinAllowedFunc")
  if m.oldMember.membership == b!"join" || m.oldMember.membership == b!"invite" || m.newMember.authorisedVia == [] then
    return b!"invite"
  if m.ver != b!"org.matrix.msc4014" then
    if !splitIDOk 0x40 m.newMember.authorisedVia then notAllowed
  match m.ctx.provider.member m.newMember.authorisedVia with
  | none => notAllowed
  | some other =>
    -- otherMember.Membership(): decode {membership string} (exact member name); then the state key must be present
    let ms : Option Bytes := match other.content with
      | none => none
      | some .null => some []
      | some (.obj kvs) => let d := decString (lookupExact kvs b!"membership"); if d.err then none else some d.val
      | some _ => none
    match ms with
    | none => notAllowed
    | some mem =>
      if mem != b!"join" then notAllowed
      let pl ← m.ctx.userPowerLevel m.newMember.authorisedVia
      if pl < m.ctx.pl.invite then notAllowed
      return b!"public"

/-- `membershipAllowedSelf` -/
def MembershipAllower.allowedSelf (m : MembershipAllower) : R Unit := do
  let old := m.oldMember.membership
  let new := m.newMember.membership
  if old == b!"leave" && new == b!"leave" then return ()
  if old == b!"ban" then notAllowed
  if new == b!"knock" then
    checkKnockingAllowed m.row m.joinRule old
  else if new == b!"join" then
    let jr ← (if m.joinRule == b!"restricted" || m.joinRule == b!"knock_restricted" then m.restrictedJoin else pure m.joinRule)
    if (m.joinRule == b!"restricted" || m.joinRule == b!"knock_restricted") && jr == b!"public" then return ()
    if old == b!"invite" then return ()
    if old == b!"join" then return ()
    if jr == b!"public" then return ()
    notAllowed
  else if new == b!"leave" then
    if old == b!"join" || old == b!"invite" then return ()
    -- a knock can be cancelled in the versions that have knocking: the version's check for a user outside a `knock` room (dbee289)
    else if old == b!"knock" then checkKnockingAllowed m.row b!"knock" old
    else notAllowed
  else notAllowed

/-- `membershipAllowedOther` -/
def MembershipAllower.allowedOther (m : MembershipAllower) : R Unit := do
  let senderLevel ← m.ctx.userPowerLevel m.senderID
  let targetLevel ← m.ctx.userPowerLevel m.targetID
  if m.senderMember.membership != b!"join" then notAllowed
  let new := m.newMember.membership
  let old := m.oldMember.membership
  let pl := m.ctx.pl
  if new == b!"ban" then
    if senderLevel ≥ pl.ban && senderLevel > targetLevel then return () else notAllowed
  else if new == b!"leave" then
    if old == b!"ban" then
      if senderLevel ≥ pl.ban then return () else notAllowed
    if senderLevel ≥ pl.kick && senderLevel > targetLevel then return () else notAllowed
  else if new == b!"invite" then
    if senderLevel < pl.invite then notAllowed
    if old == b!"join" || old == b!"ban" then notAllowed
    return ()
  else notAllowed

/-- `memberEventAllowed`.  `sig3pid` = the oracle bit "some ed25519 signature in third_party_invite.signed
    verifies under some key listed by the m.room.third_party_invite event". -/
def Ctx.memberEventAllowed (a : Ctx) (e : Event) (sig3pid : Bool) : R Unit := do
  -- newMembershipAllower
  let row ← (match e.row with | some r => pure r | none => failErr)
  let target ← (match e.stateKey with | some k => pure k | none => notAllowed)
  let newMember ← decodeMemberContent e.content
  let oldMember ← memberFromProvider a.provider target
  let senderMember ← memberFromProvider a.provider e.sender
  let tpKeys ← (match newMember.thirdPartyInvite with
    | none => pure 0
    | some s =>
      if newMember.membership != b!"invite" then pure 0
      -- thirdPartyInviteToken: an empty token is refused before any lookup (e67b893)
      else if s.token.isEmpty then notAllowed
      else match a.provider.thirdPartyInvite s.token with
      | none => notAllowed
      | some tpe => match decodeThirdPartyInviteKeys tpe.content with
        | none => notAllowed
        | some n => pure n)
  let m : MembershipAllower :=
    { ctx := a, row := row, ver := e.ver, thirdPartyKeys := tpKeys, targetID := target, senderID := e.sender,
      senderMember := senderMember, oldMember := oldMember, newMember := newMember, joinRule := a.joinRule }
  -- membershipAllowed
  if a.create.roomID != e.roomID then notAllowed
  -- only pseudo-ID rooms map the sender through the event's mxid_mapping
  let sender ← (match newMember.mxidMappingUserID with
    | some uid =>
      if e.ver == b!"org.matrix.msc4014" then
        match parseUserID? uid with
        | none => .error (.unmodelled "IPv6 literal in mxid_mapping.user_id")
        | some none => failErr
        | some (some u) => pure u
      else resolveUser e.sender
    | none => resolveUser e.sender)
  a.create.domainAllowed sender.domain
  match a.createEvent with
  | none => .error (.panic "eventauth.go:membershipAllowed m.createEvent.SenderID() on nil create event")
  | some ce =>
    if target == ce.sender && newMember.membership == b!"join" && e.sender == target && e.prevEventIDs.length == 1
       && e.prevEventIDs.head? == some a.create.eventID then return ()
    if newMember.membership == b!"invite" && newMember.thirdPartyInvite.isSome then
      match newMember.thirdPartyInvite with
      | none => notAllowed
      | some s =>
        if target != s.mxid then notAllowed
        let hasEdSig := s.sigs.any (fun dk => (b!"ed25519").isPrefixOf dk.2)
        if tpKeys > 0 && hasEdSig && sig3pid then return () else notAllowed
    if target == e.sender then m.allowedSelf else m.allowedOther

/-- the second `switch` of `allowerContext.allowed`: the events that are checked against the power levels -/
def Ctx.dispatchPL (a : Ctx) (e : Event) (sig3pid : Bool := false) : R Unit :=
  if e.type == b!"m.room.member" then a.memberEventAllowed e sig3pid
  else if e.type == b!"m.room.power_levels" then a.powerLevelsEventAllowed e
  else if e.type == b!"m.room.redaction" then a.redactEventAllowed e
  else a.defaultEventAllowed e

/-- the dispatch by event type inside `allowerContext.allowed`: m.room.create and m.room.aliases first; for every other
    event a power-levels event that could not be loaded authorises nothing (`powerLevelsErr`, d1e42dd) -/
def Ctx.dispatch (a : Ctx) (e : Event) (sig3pid : Bool := false) : R Unit :=
  if e.type == b!"m.room.create" then a.createEventAllowed e
  else if e.type == b!"m.room.aliases" then a.aliasEventAllowed e
  else match a.plErr with
    | some v => .error v
    | none => a.dispatchPL e sig3pid

/-- `allowerContext.allowed`: the provider must be `Valid()` (all auth events from one room; 32272dd: the reused checker
    asks too), then the dispatch by type -/
def Ctx.allowed (a : Ctx) (e : Event) (sig3pid : Bool := false) : R Unit :=
  if !a.provider.valid then notAllowed else a.dispatch e sig3pid

/-- `Allowed(event, authEvents, standardQuerier)` -/
def allowedFresh (e : Event) (p : Provider) (sig3pid : Bool := false) : Verdict :=
  if !p.valid then .notAllowed
  else match (({} : Ctx).update p) with
    | .error v => v
    | .ok ctx => match ctx.allowed e sig3pid with
      | .ok () => .ok
      | .error v => v

/-- what a context freshly created for provider `p` answers: `newAllowerContext(p).allowed(e)` without the entry
    point's own `Valid()` test.  Since 32272dd the checker makes that test itself, so this is equal to `allowedFresh`
    (`V.C09.allowedFresh_eq_noValid`); the name is kept for the state-resolution model, which calls the checker this way. -/
def allowedFreshNoValid (e : Event) (p : Provider) (sig3pid : Bool := false) : Verdict :=
  match (({} : Ctx).update p) with
  | .error v => v
  | .ok ctx => match ctx.allowed e sig3pid with
    | .ok () => .ok
    | .error v => v

def Verdict.coarse : Verdict → String
  | .ok => "ok"
  | .notAllowed => "rej"
  | .err => "rej"
  | .panic s => "panic:" ++ s
  | .unmodelled w => "skip:" ++ w

end V.Auth
