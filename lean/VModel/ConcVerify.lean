/-
  VModel.ConcVerify — interleaving model of several concurrent `KeyRing.VerifyJSONs` calls on ONE key ring with one
  shared `KeyDatabase` (keyring.go).  C19 / C12.  Core Lean only.

  A call leaves the key ring in three places, and only the first and the last touch shared state:
    R   `k.KeyDatabase.FetchKeys(ctx, keyRequests)`      reads the database (one critical section of the database)
    F   `fetcher.FetchKeys(ctx, keyRequests)`            the remote side; no shared state
    S   `k.KeyDatabase.StoreKeys(ctx, …)`                writes the database (one critical section of the database)
  Everything between two of these is local to the call.  A step of the model is "caller g runs to its next barrier";
  the call behind the barrier is executed by that caller's next step.  What a call computes between its read and its
  return is the SEQUENTIAL model `KeyRing.verifyJSONs` applied to the database's answer (`localRun`): the interleaving
  model adds nothing but the order in which reads and stores of different callers hit the database.

  The database is the caller's (`KeyDatabase` is an interface): modelled as a map — `FetchKeys` answers with the entries
  of the requested keys, `StoreKeys` overwrites entry by entry — each of the two one atomic step.
-/
import VModel.KeyRing
namespace V.Conc.Verify
open V V.KeyRing

structure Caller where
  reqs : List Request
  /-- what the key ring's fetchers do for THIS call (`none` = the call fails) -/
  fetchers : List FetchScript

/-- `keyRequests` as handed to the database: `publicKeyRequests` right after the first loop -/
def asked (c : Caller) : ReqMap := publicKeyRequests c.reqs (c.reqs.map (fun _ => false)) []

/-- the shared database's `FetchKeys`: the entries of the requested keys -/
def dbAnswer (db : KeyMap) (asked : ReqMap) : KeyMap := db.filter (fun e => AList.contains e.1 asked)

/-- the shared database's `StoreKeys`: `for k, v := range m { db[k] = v }` -/
def dbStore (db : KeyMap) (m : KeyMap) : KeyMap := m.foldl (fun d e => AList.insert e.1 e.2 d) db

/-- one call from the database's answer to its return: results, and (in the trace) whether a fetcher is consulted
    and what `StoreKeys` is called with -/
def localRun (c : Caller) (now : Nat) (snap : KeyMap) : Except CallErr (List Bool) × Trace :=
  verifyJSONs c.reqs (some snap) true c.fetchers now

inductive PC where
  | idle                                                          -- VerifyJSONs not yet called
  | atRead                                                        -- waits before KeyDatabase.FetchKeys
  | atFetch (snap : KeyMap)                                       -- holds the database's answer; waits before the first fetcher call
  | atStore (res : Except CallErr (List Bool)) (toStore : KeyMap) -- waits before KeyDatabase.StoreKeys
  | done (res : Except CallErr (List Bool))                       -- VerifyJSONs returned
  deriving Inhabited

structure State where
  db : KeyMap
  pcs : List PC

inductive Obs where
  | R | F | S | D | nop
  deriving DecidableEq, Repr

def init (db : KeyMap) (k : Nat) : State := ⟨db, List.replicate k .idle⟩

/-- from the end of the fetcher loop on: `checkUsingKeys`, then the store barrier (if `StoreKeys` is called at all) -/
def toStoreBarrier (out : Except CallErr (List Bool)) (tr : Trace) : PC × Obs :=
  match tr.stored with
  | some m => (.atStore out m, .S)
  | none => (.done out, .D)

/-- from the database's answer to the next barrier -/
def afterRead (c : Caller) (now : Nat) (snap : KeyMap) : PC × Obs :=
  let (out, tr) := localRun c now snap
  if !tr.fetcherCalls.isEmpty then (.atFetch snap, .F) else toStoreBarrier out tr

def afterFetch (c : Caller) (now : Nat) (snap : KeyMap) : PC × Obs :=
  let (out, tr) := localRun c now snap
  toStoreBarrier out tr

/-- caller `g` runs to its next barrier -/
def poke (cs : List Caller) (now : Nat) (s : State) (g : Nat) : State × Obs :=
  match cs[g]?, s.pcs[g]? with
  | some c, some pc =>
    match pc with
    | .idle =>
      if (asked c).isEmpty then (⟨s.db, s.pcs.set g (.done (localRun c now []).1)⟩, .D)   -- "There aren't any keys to fetch"
      else (⟨s.db, s.pcs.set g .atRead⟩, .R)
    | .atRead =>
      let r := afterRead c now (dbAnswer s.db (asked c))
      (⟨s.db, s.pcs.set g r.1⟩, r.2)
    | .atFetch snap =>
      let r := afterFetch c now snap
      (⟨s.db, s.pcs.set g r.1⟩, r.2)
    | .atStore out m => (⟨dbStore s.db m, s.pcs.set g (.done out)⟩, .D)
    | .done _ => (s, .nop)
  | _, _ => (s, .nop)

def run (cs : List Caller) (now : Nat) : State → List Nat → State
  | s, [] => s
  | s, g :: rest => run cs now (poke cs now s g).1 rest

/-- every state some schedule leads to -/
inductive Reachable (cs : List Caller) (now : Nat) (db0 : KeyMap) : State → Prop where
  | init : Reachable cs now db0 (init db0 cs.length)
  | step {s : State} (g : Nat) : Reachable cs now db0 s → Reachable cs now db0 (poke cs now s g).1

/-! ## sequential executions -/

/-- one call alone on the database: its results and the database afterwards -/
def runAlone (c : Caller) (now : Nat) (db : KeyMap) : Except CallErr (List Bool) × KeyMap :=
  let (out, tr) := localRun c now (dbAnswer db (asked c))
  (out, match tr.stored with | some m => dbStore db m | none => db)

/-- the calls one after the other, in the given order: (caller, its results) in that order, and the final database -/
def serial (cs : List Caller) (now : Nat) : List Nat → KeyMap → List (Nat × Except CallErr (List Bool)) × KeyMap
  | [], db => ([], db)
  | g :: rest, db =>
    match cs[g]? with
    | some c =>
      let r := runAlone c now db
      let t := serial cs now rest r.2
      ((g, r.1) :: t.1, t.2)
    | none => serial cs now rest db

def isDone : PC → Bool
  | .done _ => true
  | _ => false

/-- the results the callers hold in a state (those that have returned) -/
def resultOf (s : State) (g : Nat) : Option (Except CallErr (List Bool)) :=
  match s.pcs[g]? with
  | some (.done r) => some r
  | _ => none

end V.Conc.Verify
