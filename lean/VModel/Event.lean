/-
  VModel.Event — events as the library's accessors see them (eventV1 / eventV2 / eventV3 field
  decoding), identifiers as the auth code splits them, and the regenerated per-version traits.
  Core Lean only.
-/
import VModel.GoJson
import VGen.Versions
namespace V
open Json GoJson

/-! ## Room version traits (from the regenerated table) -/

def versionRow? (ver : Bytes) : Option VGen.VersionRow :=
  VGen.roomVersions.find? (fun r => r.key.toUTF8.toList == ver)

/-! ## Identifiers -/

def isDNSNameChar (c : UInt8) : Bool :=
  (0x41 ≤ c && c ≤ 0x5A) || (0x61 ≤ c && c ≤ 0x7A) || (0x30 ≤ c && c ≤ 0x39) || c == 0x2D || c == 0x2E

def lastIndexOf (c : UInt8) (s : Bytes) : Option Nat :=
  (s.zipIdx.foldl (fun acc (x : UInt8 × Nat) => if x.1 == c then some x.2 else acc) none)

/-- `strconv.ParseUint(s, 10, 16)` succeeds. -/
def isPort (s : Bytes) : Bool :=
  match natOfDigits? s with
  | some n => n ≤ 65535
  | none => false

/-- `splitServerName`: host part (the whole name when there is no valid port). -/
def serverHost (name : Bytes) : Bytes :=
  match lastIndexOf 0x3A name with
  | none => name
  | some i => if isPort (name.drop (i + 1)) then name.take i else name

/-- `ParseAndValidateServerName(...).valid`, for names without IPv6 literals.
    `none` = not modelled here (bracketed IPv6 literal: see VModel.Ident / C17). -/
def serverNameValid? (name : Bytes) : Option Bool :=
  if name.isEmpty then some false else
  let host := serverHost name
  match host with
  | [] => some false
  | 0x5B :: _ => none
  | _ => some (host.all isDNSNameChar)

/-- split at the first `sep` (Go `strings.Cut`) -/
def cutAt (sep : UInt8) : Bytes → Option (Bytes × Bytes)
  | [] => none
  | c :: rest => if c == sep then some ([], rest) else
    match cutAt sep rest with
    | some (a, b) => some (c :: a, b)
    | none => none

structure UserID where
  raw : Bytes
  localpart : Bytes
  domain : Bytes
  deriving Repr, DecidableEq

/-- `spec.NewUserID(id, true)` (historical IDs allowed).  Outer `none` = not modelled. -/
def parseUserID? (id : Bytes) : Option (Option UserID) :=
  if id.length < 4 || id.length > 255 then some none else
  match id with
  | 0x40 :: rest =>
    match cutAt 0x3A rest with
    | none => some none
    | some (l, d) =>
      match serverNameValid? d with
      | none => none
      | some false => some none
      | some true => if l.isEmpty then some none else some (some ⟨id, l, d⟩)
  | _ => some none

/-- `domainFromID`: text after the first `:` (error when there is none) -/
def domainFromID (id : Bytes) : Option Bytes := (cutAt 0x3A id).map (·.2)

/-- `SplitID('@', id)` succeeds -/
def splitIDOk (sigil : UInt8) (id : Bytes) : Bool :=
  match id with
  | c :: _ => c == sigil && (cutAt 0x3A id).isSome
  | [] => false

/-! ## Events -/

/-- An event the library has constructed: room version, event ID (as `EventID()` reports it) and the
    top-level members of its JSON. -/
structure Event where
  ver : Bytes
  eventID : Bytes
  obj : List (Bytes × JVal)
  deriving Repr, Inhabited

namespace Event

def fieldStr (e : Event) (name : Bytes) : Bytes := (decString (lookupField e.obj name)).val

def type (e : Event) : Bytes := e.fieldStr b!"type"
def sender (e : Event) : Bytes := e.fieldStr b!"sender"
def roomIDField (e : Event) : Bytes := e.fieldStr b!"room_id"
def redacts (e : Event) : Bytes := e.fieldStr b!"redacts"
def stateKey (e : Event) : Option Bytes := (decStringPtr (lookupField e.obj b!"state_key")).val
def stateKeyEquals (e : Event) (s : Bytes) : Bool := e.stateKey == some s

/-- `Content()`: the raw content value; `none` when the key is absent (then every content parser
    fails with "unexpected end of JSON input"). -/
def content (e : Event) : Option JVal := lookupField e.obj b!"content"

def originServerTS (e : Event) : Nat :=
  match lookupField e.obj b!"origin_server_ts" with
  | some (.num lit) => (parseUint64 lit).getD 0
  | _ => 0

def depth (e : Event) : Int := (decInt64 0 (lookupField e.obj b!"depth")).val

def row (e : Event) : Option VGen.VersionRow := versionRow? e.ver

/-- event format 1 = references `[id, {hashes}]`, 2 = plain IDs -/
def eventFormat (e : Event) : Nat := (e.row.map (·.eventFormat)).getD 0

def isV3Format (e : Event) : Bool :=
  (e.row.map (fun r => r.newEventFromTrustedJSONFunc == "newEventFromTrustedJSONV3")).getD false

def isCreate (e : Event) : Bool := e.type == b!"m.room.create" && e.stateKeyEquals []

/-- IDs listed under `key` (`prev_events` / `auth_events`) in the version's reference format. -/
def refIDs (e : Event) (key : Bytes) : List Bytes :=
  match lookupField e.obj key with
  | some (.arr xs) =>
    if e.eventFormat == 1 then
      xs.map (fun x => match x with
        | .arr (y :: _) => (decString (some y)).val
        | _ => [])
    else xs.map (fun x => (decString (some x)).val)
  | _ => []

def prevEventIDs (e : Event) : List Bytes := e.refIDs b!"prev_events"

/-- `AuthEventIDs()`; eventV3 prepends the create event derived from the room ID. -/
def authEventIDs (e : Event) : List Bytes :=
  if e.isV3Format then
    if e.isCreate then [] else (0x24 :: e.roomIDField.drop 1) :: e.refIDs b!"auth_events"
  else e.refIDs b!"auth_events"

/-- `RoomID().String()`; for a create event of the domainless format it is derived from the event ID. -/
def roomID (e : Event) : Bytes :=
  if e.isV3Format && e.isCreate then 0x21 :: e.eventID.drop 1 else e.roomIDField

end Event

end V
