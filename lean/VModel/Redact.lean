/-
  VModel.Redact — executable model of redactevent.go (`redactEventJSON` and the five
  `redactEventJSONVn` wrappers), driven entirely by the tables regenerated from the source
  (`VGen.unredactableEventFieldsV1/V2`, `VGen.unredactableContentFieldsV1..V5`,
  `VGen.redactionAlgorithms`, and the `redactionAlgorithm` column of `VGen.roomVersions`).
  Core Lean only.

  The Go function is   exactFieldsOnly(text, keepStruct) ; json.Unmarshal(·, keepStruct) ;
  filter Content by type ; json.Marshal.
  Modelled at the level of JSON *values* (`JVal`): the harness compares CanonicalJSON of the
  output, so member order, whitespace and escape spelling of `json.Marshal` do not matter.
  What encoding/json does to the value is modelled (trusted base, validated by correspondence):

  * `exactFieldsOnly` (`exactFields` below) reads the text into a `map[string]json.RawMessage` — a
    non-object other than `null` is an error, of several members with the same key the LAST one
    stays, values are kept raw (`null` included, nothing is decoded, so an ill-typed earlier
    duplicate or a number that overflows float64 under an unlisted key is not an error) — and keeps the
    members whose key is EXACTLY the JSON name of a field of the keep struct: a case variant of a
    name (`Event_id`, `Sender`, `ſender`) is dropped like any other unlisted key.  The text `null`
    gives the empty object;
  * the struct decoding that follows still matches keys to struct fields after case folding (it
    is encoding/json's), but it only ever sees exact names, each at most once; every matching
    member is decoded in document order into the same field:
      - `string` field (`type`): a JSON string is stored, `null` leaves the field as it is, any
        other value is an UnmarshalTypeError (decoding goes on, the call returns the error);
      - `map[string]interface{}` field (`content`): an object is merged into the map the field
        already holds, `null` resets the field to a nil map, anything else is a type error;
        a number literal that overflows float64 anywhere inside is a type error too;
      - `spec.RawJSON` field: `UnmarshalJSON` stores the raw text of the member, `null` included,
        so the last matching member wins and the field is then non-empty (never omitted);
  * the text `null` for the whole event gives the empty object, hence the zero struct (no error);
  * values kept inside `content` travel through `interface{}`: numbers become float64 and are
    re-rendered, strings are sanitised to valid UTF-8, duplicate keys collapse.  The model covers
    exactly the values on which that round trip is the identity (`ifaceOk`: integer literals within
    ±(2^53-1), valid UTF-8, no duplicate keys) and answers `unmodelled` otherwise.
-/
import VModel.GoJson
import VGen.Versions
import VGen.Redact
namespace V
namespace Redact
open Json GoJson

/-- UTF-8 bytes of a `String`, written so that the kernel can evaluate it on literals
    (`String.toUTF8` does not reduce). -/
def sb (s : String) : Bytes := s.toList.flatMap (fun c => utf8Encode c.toNat)

def unmodelled (why : String) : Err := .other ("unmodelled:" ++ why)

/-! ## The regenerated tables in the form the model uses -/

inductive Kind where
  | raw | str | map | unknown
  deriving DecidableEq, Repr

structure Field where
  name : Bytes
  omitempty : Bool
  kind : Kind
  deriving DecidableEq, Repr

def kindOf (s : String) : Kind :=
  if s == "spec.RawJSON" then .raw else if s == "string" then .str else if s == "map" then .map else .unknown

def fieldsOf (t : List (String × Bool × String)) : List Field :=
  t.map (fun x => ⟨sb x.1, x.2.1, kindOf x.2.2⟩)

/-- content keep table: event type ↦ kept keys (empty list = keep everything) -/
abbrev CTable := List (Bytes × List Bytes)

def ctableOf (t : List (String × List String)) : CTable := t.map (fun x => (sb x.1, x.2.map sb))

structure Algo where
  fields : List Field
  ctable : CTable
  deriving Repr

def fieldTables : List (String × List (String × Bool × String)) := [
  ("unredactableEventFieldsV1", VGen.unredactableEventFieldsV1),
  ("unredactableEventFieldsV2", VGen.unredactableEventFieldsV2)]

def contentTables : List (String × List (String × List String)) := [
  ("unredactableContentFieldsV1", VGen.unredactableContentFieldsV1),
  ("unredactableContentFieldsV2", VGen.unredactableContentFieldsV2),
  ("unredactableContentFieldsV3", VGen.unredactableContentFieldsV3),
  ("unredactableContentFieldsV4", VGen.unredactableContentFieldsV4),
  ("unredactableContentFieldsV5", VGen.unredactableContentFieldsV5)]

/-- the (keep struct, content table) pair a `redactEventJSONVn` function passes on -/
def algoByName (fn : String) : Option Algo :=
  match VGen.redactionAlgorithms.find? (fun x => x.1 == fn) with
  | none => none
  | some (_, fs, ct) =>
    match fieldTables.find? (fun x => x.1 == fs), contentTables.find? (fun x => x.1 == ct) with
    | some f, some c => some ⟨fieldsOf f.2, ctableOf c.2⟩
    | _, _ => none

def rowOf (ver : Bytes) : Option VGen.VersionRow := VGen.roomVersions.find? (fun r => sb r.key == ver)

/-- the redaction algorithm of a registered room version -/
def algoOf (ver : Bytes) : Option Algo := (rowOf ver).bind (fun r => algoByName r.redactionAlgorithm)

/-! ## float64 range of number literals (`strconv.ParseFloat` fails only on overflow) -/

inductive NumClass where
  | ok | overflow | unsure
  deriving DecidableEq, Repr

def NumClass.worst : NumClass → NumClass → NumClass
  | .overflow, _ => .overflow
  | _, .overflow => .overflow
  | .unsure, _ => .unsure
  | _, .unsure => .unsure
  | .ok, .ok => .ok

def leadingZeros : Bytes → Nat
  | 0x30 :: r => leadingZeros r + 1
  | _ => 0

/-- value of an exponent part `e[+-]ddd` (0 when there is none) -/
def expValue (e : Bytes) : Int :=
  match e with
  | _ :: 0x2D :: ds => -(natOfDigits ds : Int)
  | _ :: 0x2B :: ds => (natOfDigits ds : Int)
  | _ :: ds => (natOfDigits ds : Int)
  | [] => 0

/-- Does the literal fit a float64?  With `d` the first non-zero digit, the value lies in
    `[10^E, 10^(E+1))`; the largest float64 is 1.797…e308, so E ≤ 307 fits, E ≥ 309 overflows and
    E = 308 is left undecided (`unsure`: the model does not answer). -/
def floatClass (lit : Bytes) : NumClass :=
  let s := stripSign lit
  let (ip, r1) := takeDigits s
  let (fp, r2) : Bytes × Bytes := match r1 with
    | 0x2E :: r => takeDigits r
    | _ => ([], r1)
  let digits := ip ++ fp
  if digits.all (· == 0x30) then .ok
  else
    let e : Int := (ip.length : Int) - 1 - (leadingZeros digits : Int) + expValue r2
    if e ≤ 307 then .ok else if e ≥ 309 then .overflow else .unsure

mutual
def floatScan : JVal → NumClass
  | .num lit => floatClass lit
  | .arr xs => floatScanList xs
  | .obj kvs => floatScanMembers kvs
  | _ => .ok
def floatScanList : List JVal → NumClass
  | [] => .ok
  | x :: xs => (floatScan x).worst (floatScanList xs)
def floatScanMembers : List (Bytes × JVal) → NumClass
  | [] => .ok
  | (_, v) :: kvs => (floatScan v).worst (floatScanMembers kvs)
end

/-- optional `-` followed by 1 to 16 digits and nothing else (an integer literal of the JSON grammar
    within ±(2^53-1) has no leading zero, hence at most 16 digits) -/
def isIntLit (lit : Bytes) : Bool :=
  !(stripSign lit).isEmpty && (stripSign lit).all isDigit && decide ((stripSign lit).length ≤ 16)

/-- integer literal within ±(2^53-1) (the literal `-0` included: Go renders the float64 -0 as `-0`) -/
def intSafe (lit : Bytes) : Bool := isIntLit lit && (numOk lit || lit == [0x2D, 0x30])

mutual
/-- The values on which decoding into `interface{}` and re-marshalling is the identity. -/
def ifaceOk : JVal → Bool
  | .num lit => intSafe lit
  | .str s => utf8Valid s
  | .arr xs => ifaceOkList xs
  | .obj kvs => noDupIn (kvs.map (·.1)) && ifaceOkMembers kvs
  | _ => true
def ifaceOkList : List JVal → Bool
  | [] => true
  | x :: xs => ifaceOk x && ifaceOkList xs
def ifaceOkMembers : List (Bytes × JVal) → Bool
  | [] => true
  | (k, v) :: kvs => utf8Valid k && ifaceOk v && ifaceOkMembers kvs
end

/-! ## json.Unmarshal into the keep struct -/

def matchesField (k name : Bytes) : Bool := k == name || foldBytes k == foldBytes name

/-- the `string` field: members in document order -/
def decType (name : Bytes) (kvs : List (Bytes × JVal)) : Dec Bytes :=
  kvs.foldl (fun acc kv =>
    if matchesField kv.1 name then
      match kv.2 with
      | .str s => ⟨s, acc.err⟩
      | .null => acc
      | _ => ⟨acc.val, true⟩
    else acc) ⟨[], false⟩

/-- Go map assignment `m[k] = v` on an association list with distinct keys -/
def setKey (m : List (Bytes × JVal)) (k : Bytes) (v : JVal) : List (Bytes × JVal) :=
  if m.any (fun kv => kv.1 == k) then m.map (fun kv => if kv.1 == k then (k, v) else kv) else m ++ [(k, v)]

def mergeInto (m : List (Bytes × JVal)) (kvs : List (Bytes × JVal)) : List (Bytes × JVal) :=
  kvs.foldl (fun acc kv => setKey acc kv.1 kv.2) m

structure ContentDec where
  val : Option (List (Bytes × JVal)) := none   -- none = nil map
  err : Bool := false
  cls : NumClass := .ok
  deriving Repr

/-- the `map[string]interface{}` field: members in document order -/
def decContent (name : Bytes) (kvs : List (Bytes × JVal)) : ContentDec :=
  kvs.foldl (fun acc kv =>
    if matchesField kv.1 name then
      match kv.2 with
      | .obj m => { val := some (mergeInto (acc.val.getD []) m), err := acc.err, cls := acc.cls.worst (floatScanMembers m) }
      | .null => { acc with val := none }
      | _ => { acc with err := true }
    else acc) {}

def typeField (fs : List Field) : Option Field := fs.find? (fun f => f.kind == .str)
def contentField (fs : List Field) : Option Field := fs.find? (fun f => f.kind == .map)

/-- the filtered content (`none` = nil map, marshalled as `null`) -/
def newContent (ct : CTable) (ty : Bytes) (content : Option (List (Bytes × JVal))) : Option (List (Bytes × JVal)) :=
  match mapGet ct ty with
  | some [] => content
  | some keys => some (keys.filterMap (fun k => (mapGet (content.getD []) k).map (fun v => (k, v))))
  | none => some []

/-- json.Marshal of one struct field -/
def emitField (kvs : List (Bytes × JVal)) (ty : Bytes) (nc : Option (List (Bytes × JVal))) (f : Field) : List (Bytes × JVal) :=
  match f.kind with
  | .str => if f.omitempty && ty.isEmpty then [] else [(f.name, .str ty)]
  | .map =>
    match nc with
    | none => if f.omitempty then [] else [(f.name, .null)]
    | some m => if f.omitempty && m.isEmpty then [] else [(f.name, .obj m)]
  | .raw =>
    match lookupField kvs f.name with
    | some v => [(f.name, v)]
    | none => []
  | .unknown => []

/-- json.Marshal fails on an empty RawJSON that is not omitted -/
def marshalOk (fs : List Field) (kvs : List (Bytes × JVal)) : Bool :=
  fs.all (fun f => !(f.kind == .raw) || f.omitempty || (lookupField kvs f.name).isSome)

def contentModelled (nc : Option (List (Bytes × JVal))) : Bool :=
  (nc.getD []).all (fun kv => utf8Valid kv.1 && ifaceOk kv.2)

def redactObj (a : Algo) (kvs : List (Bytes × JVal)) : Except Err JVal :=
  if a.fields.any (fun f => f.kind == .unknown) then .error (unmodelled "keep-struct field type") else
  match typeField a.fields, contentField a.fields with
  | some tf, some cf =>
    let t := decType tf.name kvs
    let c := decContent cf.name kvs
    if t.err || c.err || c.cls == .overflow then .error (.other "unmarshal")
    else if c.cls == .unsure then .error (unmodelled "number literal near the float64 limit")
    else if !utf8Valid t.val then .error (unmodelled "type is not valid UTF-8")
    else
      let nc := newContent a.ctable t.val c.val
      if !contentModelled nc then .error (unmodelled "kept content outside the IntSafe / UTF-8 / no-duplicate domain")
      else if !marshalOk a.fields kvs then .error (.other "marshal")
      else .ok (.obj (a.fields.flatMap (emitField kvs t.val nc)))
  | _, _ => .error (unmodelled "keep struct without type/content field")

/-- `exactFieldsOnly`: the event restricted to the members whose key is exactly the JSON name of a
    field of the keep struct; of several members with the same key the last one stays (Go map
    assignment).  (`json.Marshal` of the Go map sorts the keys; the struct decoding that follows sees
    every name at most once, so the order is immaterial: the model lists them in field order.) -/
def exactFields (fs : List Field) (kvs : List (Bytes × JVal)) : List (Bytes × JVal) :=
  fs.filterMap (fun f => (lookupExact kvs f.name).map (fun v => (f.name, v)))

/-- `redactEventJSON` with a given keep struct and content table, on the value the text denotes:
    `exactFieldsOnly`, then the struct decoding / content filter / marshalling of `redactObj`. -/
def redactWith (a : Algo) (j : JVal) : Except Err JVal :=
  match j with
  | .null => redactObj a (exactFields a.fields [])
  | .obj kvs => redactObj a (exactFields a.fields kvs)
  | _ => .error (.other "unmarshal")

/-- `IRoomVersion.RedactEventJSON` -/
def redactJSON (ver : Bytes) (j : JVal) : Except Err JVal :=
  match algoOf ver with
  | some a => redactWith a j
  | none => .error (unmodelled "unknown room version or redaction algorithm")

end Redact
end V
