/-
  VModel.Hash — SHA-256 (FIPS 180-4) as an executable function, so that the driver can evaluate the event models with the
  hash the library uses.  Core Lean only.

  The theorems about events never unfold `sha256`: every model function takes the hash as a
  parameter `H : Bytes → Bytes` and theorems assume at most `Function.Injective H` (collision
  freeness, an idealisation).  This implementation is what the driver plugs in; it is validated by
  the correspondence check (every event ID and content hash the library computes must agree).
-/
import VModel.Json
namespace V
namespace Hash

def K : Array UInt32 := #[
  0x428a2f98, 0x71374491, 0xb5c0fbcf, 0xe9b5dba5, 0x3956c25b, 0x59f111f1, 0x923f82a4, 0xab1c5ed5,
  0xd807aa98, 0x12835b01, 0x243185be, 0x550c7dc3, 0x72be5d74, 0x80deb1fe, 0x9bdc06a7, 0xc19bf174,
  0xe49b69c1, 0xefbe4786, 0x0fc19dc6, 0x240ca1cc, 0x2de92c6f, 0x4a7484aa, 0x5cb0a9dc, 0x76f988da,
  0x983e5152, 0xa831c66d, 0xb00327c8, 0xbf597fc7, 0xc6e00bf3, 0xd5a79147, 0x06ca6351, 0x14292967,
  0x27b70a85, 0x2e1b2138, 0x4d2c6dfc, 0x53380d13, 0x650a7354, 0x766a0abb, 0x81c2c92e, 0x92722c85,
  0xa2bfe8a1, 0xa81a664b, 0xc24b8b70, 0xc76c51a3, 0xd192e819, 0xd6990624, 0xf40e3585, 0x106aa070,
  0x19a4c116, 0x1e376c08, 0x2748774c, 0x34b0bcb5, 0x391c0cb3, 0x4ed8aa4a, 0x5b9cca4f, 0x682e6ff3,
  0x748f82ee, 0x78a5636f, 0x84c87814, 0x8cc70208, 0x90befffa, 0xa4506ceb, 0xbef9a3f7, 0xc67178f2]

def H0 : Array UInt32 := #[0x6a09e667, 0xbb67ae85, 0x3c6ef372, 0xa54ff53a, 0x510e527f, 0x9b05688c, 0x1f83d9ab, 0x5be0cd19]

def rotr (x : UInt32) (n : UInt32) : UInt32 := (x >>> n) ||| (x <<< (32 - n))

/-- message padding: 0x80, zeros up to 56 mod 64, 64-bit big-endian bit length -/
def pad (msg : Bytes) : Array UInt8 :=
  let len := msg.length
  let zeros := (55 + 64 - len % 64) % 64
  let bits := len * 8
  let lenBytes := (List.range 8).map (fun i => UInt8.ofNat (bits >>> (8 * (7 - i)) % 256))
  (msg ++ [0x80] ++ List.replicate zeros 0 ++ lenBytes).toArray

def word (b : Array UInt8) (i : Nat) : UInt32 :=
  (b[i]!.toUInt32 <<< 24) ||| (b[i+1]!.toUInt32 <<< 16) ||| (b[i+2]!.toUInt32 <<< 8) ||| b[i+3]!.toUInt32

def schedule (b : Array UInt8) (off : Nat) : Array UInt32 := Id.run do
  let mut w : Array UInt32 := Array.replicate 64 0
  for t in [0:16] do
    w := w.set! t (word b (off + 4 * t))
  for t in [16:64] do
    let x := w[t-15]!
    let y := w[t-2]!
    let s0 := rotr x 7 ^^^ rotr x 18 ^^^ (x >>> 3)
    let s1 := rotr y 17 ^^^ rotr y 19 ^^^ (y >>> 10)
    w := w.set! t (w[t-16]! + s0 + w[t-7]! + s1)
  return w

def compress (h : Array UInt32) (w : Array UInt32) : Array UInt32 := Id.run do
  let mut a := h[0]!
  let mut b := h[1]!
  let mut c := h[2]!
  let mut d := h[3]!
  let mut e := h[4]!
  let mut f := h[5]!
  let mut g := h[6]!
  let mut hh := h[7]!
  for t in [0:64] do
    let s1 := rotr e 6 ^^^ rotr e 11 ^^^ rotr e 25
    let ch := (e &&& f) ^^^ ((~~~ e) &&& g)
    let t1 := hh + s1 + ch + K[t]! + w[t]!
    let s0 := rotr a 2 ^^^ rotr a 13 ^^^ rotr a 22
    let maj := (a &&& b) ^^^ (a &&& c) ^^^ (b &&& c)
    let t2 := s0 + maj
    hh := g
    g := f
    f := e
    e := d + t1
    d := c
    c := b
    b := a
    a := t1 + t2
  return #[h[0]! + a, h[1]! + b, h[2]! + c, h[3]! + d, h[4]! + e, h[5]! + f, h[6]! + g, h[7]! + hh]

def sha256 (msg : Bytes) : Bytes := Id.run do
  let b := pad msg
  let mut h := H0
  for i in [0:b.size / 64] do
    h := compress h (schedule b (64 * i))
  return h.toList.flatMap (fun (x : UInt32) => [(x >>> 24).toUInt8, (x >>> 16).toUInt8, (x >>> 8).toUInt8, x.toUInt8])

end Hash
end V
