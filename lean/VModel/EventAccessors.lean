/-
  VModel.EventAccessors — every method of the `PDU` interface (pdu.go) on the three event structs
  (eventV1.go / eventV2.go / eventV3.go), with the Go panic sites as explicit `.panic site` outcomes.
  Core Lean only.  The site inventory is `VModel/PanicSites.md`.

  The accessors that carry a site of their own are defined in `VModel.EventParse` (read-only here):
    `eventID`       eventV2.go:74   EventID() with an empty stored ID whose reference cannot be computed
    `roomID`        eventV1.go:118 / eventV3.go:26  spec.NewRoomID fails;  eventV3.go:22  EventID()[1:]
    `authEventIDs`  eventV3.go:36   RoomID[1:] on an empty room ID
    `redact`        eventV1.go:157,162,166,171 / eventV2.go:98,103,107,112
    `signWith`      eventV1.go:237,241 / eventV2.go:128,132
  This file adds the remaining methods (those without a site are total functions, listed so that the
  no-panic theorem really ranges over the whole interface), `signableEventJSON` and the one site `signWith`
  maps to `unmodelled` although the Go code panics there (`sign`: SignJSON cannot decode the `signatures`
  member of the redacted event), the nil-function site of `PowerLevels()`, and the enumeration `Acc` of
  all calls with `run`.

  What encoding/json does is modelled as in VModel.EventParse (`members` / `seqString`: every member
  whose key matches the field after case folding is decoded in document order into the same field).
-/
import VModel.EventParse
import VModel.Auth
import VModel.Sign
namespace V
namespace EventAccessors
open Json GoJson Redact EventParse

/-! ## Methods without a panic site -/

/-- `StateKey()` (`none` = nil) -/
def stateKey (e : PDU) : Option Bytes := e.f.stateKey

/-- `StateKeyEquals(s)`: the nil check precedes the dereference -/
def stateKeyEquals (e : PDU) (s : Bytes) : Bool :=
  match e.f.stateKey with
  | none => false
  | some k => k == s

def type (e : PDU) : Bytes := e.f.type
def content (e : PDU) : Option JVal := e.f.content
def version (e : PDU) : Bytes := e.ver
def redacts (e : PDU) : Bytes := e.f.redacts
def redacted (e : PDU) : Bool := e.redacted
def originServerTS (e : PDU) : Nat := e.f.originServerTS
def senderID (e : PDU) : Bytes := e.f.sender
def unsigned (e : PDU) : Option JVal := e.f.unsigned
def depth (e : PDU) : Int := e.f.depth
def json (e : PDU) : Bytes := e.json

/-- `SenderID.IsUserID()`: `len(s) > 0 && s[0] == '@'` (the length test dominates the index) -/
def senderIsUserID (e : PDU) : Bool :=
  match e.f.sender with
  | [] => false
  | c :: _ => c == 0x40

/-- `json.Unmarshal(content, &struct{ <name> string })`: the string, or `none` when it returns an
    error (absent content = "unexpected end of JSON input") -/
def contentString (e : PDU) (name : Bytes) : Option Bytes :=
  match e.f.content with
  | none => none
  | some .null => some []
  | some (.obj kvs) =>
    let d := seqString (members kvs name)
    if d.err then none else some d.val
  | some _ => none

/-- `json.Unmarshal(exactMembersOnly(content, &s), &s)` for `s : struct{ <name> string }`: a content that is an
    object is first restricted to the member named exactly `name` (the last one of that name, `exactFieldsOnly`
    goes through a Go map); `null`, non-objects and an absent content reach `json.Unmarshal` unchanged -/
def contentStringExact (e : PDU) (name : Bytes) : Option Bytes :=
  match e.f.content with
  | none => none
  | some .null => some []
  | some (.obj kvs) =>
    let d := decString (lookupExact kvs name)
    if d.err then none else some d.val
  | some _ => none

/-- `Membership()`: the content is decoded first (member name `membership` exactly), then the state key must be
    present -/
def membership (e : PDU) : Except Err Bytes :=
  match contentStringExact e b!"membership" with
  | none => .error errOther
  | some m => if e.f.stateKey.isNone then .error errOther else .ok m

/-- one element of `[]JoinRuleContentAllowRule` decodes without a type error -/
def allowRuleOk : JVal → Bool
  | .null => true
  | .obj a => !(seqString (members a b!"type")).err && !(seqString (members a b!"room_id")).err
  | _ => false

/-- the `allow` member (`[]JoinRuleContentAllowRule`) fails to decode -/
def allowMemberErr : Option JVal → Bool
  | none => false
  | some .null => false
  | some (.arr xs) => !xs.all allowRuleOk
  | some _ => true

/-- `JoinRule()`: the content restricted to the members named exactly `join_rule` / `allow` (`exactMembersOnly`, as the
    auth rules read a join-rules event: `NewJoinRuleContentFromAuthEvents`), then json.Unmarshal.  (The members of an
    `allow` entry are still matched the encoding/json way.) -/
def joinRule (e : PDU) : Except Err Bytes :=
  if !stateKeyEquals e [] then .error errOther else
  match e.f.content with
  | none => .error errOther
  | some .null => .ok []
  | some (.obj kvs) =>
    let d := decString (lookupExact kvs b!"join_rule")
    if d.err || allowMemberErr (lookupExact kvs b!"allow") then .error errOther else .ok d.val
  | some _ => .error errOther

/-- `HistoryVisibility()`: the member named exactly `history_visibility` -/
def historyVisibility (e : PDU) : Except Err Bytes :=
  if !stateKeyEquals e [] then .error errOther else
  match contentStringExact e b!"history_visibility" with
  | none => .error errOther
  | some v => .ok v

/-! ## `PowerLevels()`: a function-table entry -/

/-- `PowerLevels()` → `NewPowerLevelContentFromEvent` → `verImpl.ParsePowerLevels` (a function-valued
    entry of the room-version table: a nil entry is a nil-function call). -/
def powerLevels (e : PDU) : Except Err Auth.PowerLevels :=
  if !stateKeyEquals e [] then .error errOther else
  match rowOf e.ver with
  | none => .error errOther            -- GetRoomVersion fails: returned as an error
  | some row =>
    if row.parsePowerLevelsFunc == "" then .error (.panic "eventversion.go:ParsePowerLevels nil parsePowerLevelsFunc")
    else if row.parsePowerLevelsFunc == "parseIntegerPowerLevels" then
      match Auth.parseIntegerPowerLevels e.f.content Auth.PowerLevels.defaults with
      | some p => .ok p
      | none => .error errOther
    else if row.parsePowerLevelsFunc == "parsePowerLevels" then
      match Auth.parsePowerLevels e.f.content Auth.PowerLevels.defaults with
      | .ok p => .ok p
      | .error (.panic s) => .error (.panic s)
      | .error (.unmodelled w) => .error (unmodelled w)
      | .error _ => .error errOther
    else .error (unmodelled "unknown parsePowerLevelsFunc")

/-! ## `Sign()` -/

/-- `SignJSON(redactedJSON)` can decode the `signatures` member it is about to extend
    (`map[string]map[KeyID]spec.Base64Bytes`): absent / null / an object of (null | objects of
    (null | base64 strings)). -/
def sigsDecodable (e : PDU) : Bool :=
  match redactJSON e.ver (.obj e.obj) with
  | .ok (.obj r) => (Sign.readPreserve r).isSome
  | _ => true

/-- `json.Unmarshal(raw, &map[string]map[KeyID]spec.Base64Bytes{})` succeeds on this value -/
def sigValDecodable (v : JVal) : Bool := (Sign.decodeOuterInto Sign.decodeSigVal (some []) v).isSome

/-- `signableEventJSON` (eventV1.go): what `Sign()` hands to `signEvent` — the event without its (first)
    `signatures` member when that member does not decode (no signature check can read it either). -/
def signable (e : PDU) : PDU :=
  match getFirst e.obj b!"signatures" with
  | none => e
  | some v => if sigValDecodable v then e else { e with obj := deleteFirst b!"signatures" e.obj }

/-- `PDU.Sign(name, kid, sk)`, given the signature ed25519 produces; the result is a copy (an event of the same
    struct: eventV3 overrides the method).  The Go method panics whenever `signEvent` returns an error: the redaction
    failing (`signWith`), or `SignJSON` failing on a `signatures` member that does not decode — which after
    `signableEventJSON` needs an event whose text repeats the member (first occurrence decodable, last not). -/
def sign (e : PDU) (name kid sig : Bytes) : Except Err PDU :=
  if !sigsDecodable (signable e) then .error (.panic "eventV1.go/eventV2.go Sign: signEvent: SignJSON cannot decode the signatures member")
  else signWith (signable e) name kid sig

/-! ## The whole interface -/

/-- every call of the `PDU` interface (plus `CheckFields` and `SenderID().IsUserID()`) -/
inductive Acc where
  | eventID | stateKey | stateKeyEquals (s : Bytes) | type | content | joinRule | historyVisibility | membership
  | powerLevels | version | roomID | redacts | redacted | prevEventIDs | originServerTS | senderID | senderIsUserID
  | unsigned | depth | json | authEventIDs | toHeaderedJSON | checkFields
  | setUnsigned (u : JVal) | redact | sign (name kid sig : Bytes)
  deriving Repr

/-- outcome class of a call: the value is dropped, the panic site kept -/
def cls {α : Type} : Except Err α → Except Err Unit
  | .ok _ => .ok ()
  | .error x => .error x

def run (H : Bytes → Bytes) (a : Acc) (e : PDU) : Except Err Unit :=
  match a with
  | .eventID => cls (eventID H e)
  | .stateKey => cls (.ok (stateKey e) : Except Err _)
  | .stateKeyEquals s => cls (.ok (stateKeyEquals e s) : Except Err _)
  | .type => cls (.ok (type e) : Except Err _)
  | .content => cls (.ok (content e) : Except Err _)
  | .joinRule => cls (joinRule e)
  | .historyVisibility => cls (historyVisibility e)
  | .membership => cls (membership e)
  | .powerLevels => cls (powerLevels e)
  | .version => cls (.ok (version e) : Except Err _)
  | .roomID => cls (roomID H e)
  | .redacts => cls (.ok (redacts e) : Except Err _)
  | .redacted => cls (.ok (redacted e) : Except Err _)
  | .prevEventIDs => cls (.ok (prevEventIDs e) : Except Err _)
  | .originServerTS => cls (.ok (originServerTS e) : Except Err _)
  | .senderID => cls (.ok (senderID e) : Except Err _)
  | .senderIsUserID => cls (.ok (senderIsUserID e) : Except Err _)
  | .unsigned => cls (.ok (unsigned e) : Except Err _)
  | .depth => cls (.ok (depth e) : Except Err _)
  | .json => cls (.ok (json e) : Except Err _)
  | .authEventIDs => cls (authEventIDs e)
  | .toHeaderedJSON => cls (toHeadered H e)
  | .checkFields => checkFields e
  | .setUnsigned u => cls (setUnsigned e u)
  | .redact => cls (redact e)
  | .sign n k s => cls (sign e n k s)

/-- the calls other than `Sign` -/
def Acc.isSign : Acc → Bool
  | .sign _ _ _ => true
  | _ => false

/-- the calls that are safe on whatever `NewEventFromTrustedJSON` returned: all but `Redact()` and `Sign()` (dominated
    only by what the untrusted constructors check) -/
def Acc.trustedSafe : Acc → Bool
  | .redact => false
  | .sign _ _ _ => false
  | _ => true

/-- the site a call reaches, if any (driver / examples) -/
def panicSite (H : Bytes → Bytes) (a : Acc) (e : PDU) : Option String :=
  match run H a e with
  | .error (.panic s) => some s
  | _ => none

/-- what `touchAccessors` of the harness calls -/
def touched : List Acc :=
  [.eventID, .stateKey, .stateKeyEquals [], .type, .content, .joinRule, .historyVisibility, .membership, .powerLevels,
   .version, .roomID, .redacts, .redacted, .prevEventIDs, .originServerTS, .senderID, .senderIsUserID, .unsigned, .depth,
   .json, .authEventIDs, .toHeaderedJSON, .checkFields, .setUnsigned (.obj [(b!"a", .num b!"1")])]

/-- first site reached by the accessor sweep, then `Redact()`, then the sweep on the redacted event
    (the `event` op of the harness area `fuzz`, accessor part) -/
def sweep (H : Bytes → Bytes) (e : PDU) : Option String :=
  match touched.findSome? (fun a => panicSite H a e) with
  | some s => some s
  | none =>
    match redact e with
    | .error (.panic s) => some s
    | .error _ => none
    | .ok e' => touched.findSome? (fun a => panicSite H a e')

end EventAccessors
end V
