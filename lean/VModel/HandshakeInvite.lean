/-
  VModel.HandshakeInvite — executable model of the REQUESTING side of the invite handshake and of the
  pseudo-ID path of HandleSendJoin:
    performinvite.go  PerformInvite (user-ID room versions and org.matrix.msc4014, local and remote
                      invitee), truncateAuthAndPrevEvents
    eventauth.go      StateNeededForProtoEvent (as far as PerformInvite uses it), AuthEvents.AddEvent,
                      StateNeeded.AuthEventReferences over an *AuthEvents
    handlejoin.go     HandleSendJoin for org.matrix.msc4014 (getMXIDMapping, validateMXIDMappingSignatures,
                      StoreSenderIDFromPublicID, JSONVerifierSelf in place of the caller's verifier)
  Core Lean only.

  As in VModel.Handshake the inputs are request parameters, event-shape facts as the PDU accessors report
  them, and the answers of the caller-supplied oracles (queriers, sender-ID creator, federation client,
  store callback); `Allowed`, `EventBuilder.Build` and `VerifyEventSignatures` under `JSONVerifierSelf`
  are oracle bits (C07 / C03 / C06 — the driver instantiates the last with VModel.Signers.verifyPseudo).
  Every Go panic site reachable from PerformInvite is an explicit `PErr.panic`:
    * the two explicit `panic("Missing valid …")` checks;
    * `input.StoreSenderIDFromPublicID` is NOT covered by them: a nil callback is called in the pseudo-ID
      remote branch;
    * `fedClient` is not checked either: a nil client is called when the invitee is remote;
    * a nil PDU among `LatestEvents.StateEvents` is dereferenced by `AuthEvents.AddEvent`;
    * a signing key that is not 64 bytes long panics in `ed25519` (`PrivateKey.Public`, `Sign`); the key the
      SenderIDCreator returns is assumed well-formed (creator's contract, not modelled).
  Before /repo f453bb3 the pseudo-ID remote branch signed whatever SendInviteV3 returned and then
  dereferenced its state key; the checks that commit added are the guards `v3Checks` below.
-/
import VModel.Handshake
import VModel.AuthNeeded
namespace V.Handshake
open V V.Json V.GoJson

/-- error of the requesting side: an error value (class as in `HErr`) or a Go panic -/
inductive PErr where
  | err (e : HErr)
  | panic (site : String)
  deriving DecidableEq, Repr, Inhabited

abbrev PR := Except PErr

/-- the panic sites of PerformInvite -/
def siteQuerier : String := "performinvite.go:panic(Missing valid Querier)"
def siteContext : String := "performinvite.go:panic(Missing valid Context)"
def siteNilState : String := "eventauth.go:AddEvent event.StateKey() on a nil PDU"
def siteKey : String := "ed25519: bad private key length (SigningKey)"
def siteFedV3 : String := "performinvite.go:fedClient.SendInviteV3 on a nil client"
def siteFedV2 : String := "performinvite.go:fedClient.SendInvite on a nil client"
def siteStore : String := "performinvite.go:input.StoreSenderIDFromPublicID is nil"

def pForbidden : PErr := .err eForbidden
def pInternal : PErr := .err .internal
def pOther : PErr := .err .other
def pUnsupported : PErr := .err eUnsupported

/-! ## StateNeededForProtoEvent (eventauth.go) -/

/-- byte-wise lexicographic order (Go's `sort.Strings`) -/
def piBytesLe : Bytes → Bytes → Bool
  | [], _ => true
  | _ :: _, [] => false
  | a :: as, b :: bs => if a < b then true else if b < a then false else piBytesLe as bs

/-- `util.UniqueStrings`: sorted, duplicates removed -/
def uniqueStrings (l : List Bytes) : List Bytes := (l.mergeSort piBytesLe).eraseDups

/-- `StateNeededForProtoEvent(&proto)`: `none` = error.  `content` is the parsed `proto.Content`
    (`none` = empty or not JSON).  The members of an object are matched by their exact names (`exactMembersOnly`). -/
def protoNeeded (type sender : Bytes) (stateKey : Option Bytes) (content : Option JVal) : Option StateRes.Needed :=
  if type == b!"m.room.create" then some {}
  else if type == b!"m.room.aliases" then some { create := true }
  else if type == b!"m.room.member" then
    match content with
    | none => none                 -- json.Unmarshal fails
    | some .null => none           -- the content pointer stays nil: "missing memberContent"
    | some (.obj kvs) =>
      let m := decString (lookupExact kvs b!"membership")
      let tp := Auth.decodeThirdParty (lookupExact kvs b!"third_party_invite")
      let av := decString (lookupExact kvs b!"join_authorised_via_users_server")
      let mm := (Auth.decodeMxidMapping (lookupExact kvs b!"mxid_mapping")).1
      if m.err || tp.err || av.err || mm.err then none
      else
        let base : List Bytes := [sender] ++ (match stateKey with | some k => [k] | none => [])
        let members := base ++ (if av.val.isEmpty then [] else [av.val])
        let jr := m.val == b!"join" || m.val == b!"knock" || m.val == b!"invite"
        match tp.val with
        | some s =>
          if s.token.isEmpty then none
          else some { create := true, powerLevels := true, member := uniqueStrings members, joinRules := jr, thirdPartyInvite := [s.token] }
        | none => some { create := true, powerLevels := true, member := uniqueStrings members, joinRules := jr }
    | some _ => none               -- not an object: type error
  else some { create := true, powerLevels := true, member := [sender] }

/-! ## PerformInvite -/

/-- what PerformInvite reads of a PDU (the one it built or the one the remote returned) -/
structure EvFacts where
  type : Bytes
  stateKey : Option Bytes
  /-- `Membership()`: `none` = error -/
  membership : Option Bytes
  roomID : Bytes
  senderID : Bytes
  deriving Repr, DecidableEq, Inhabited

/-- an entry of `LatestEvents.StateEvents` as `AddEvent` / `AuthEventReferences` see it -/
structure StateEv where
  type : Bytes
  stateKey : Option Bytes
  eventID : Bytes
  deriving Repr, DecidableEq, Inhabited

/-- `LatestEvents` -/
structure Latest where
  roomExists : Bool
  depth : Int
  /-- `none` = a nil PDU -/
  stateEvents : List (Option StateEv)
  prevEventIDs : List Bytes
  deriving Repr, Inhabited

/-- the `*AuthEvents` map built by the `AddEvent` loop: later entries replace earlier ones -/
abbrev AuthMap := List ((Bytes × Bytes) × Bytes)

def AuthMap.get (m : AuthMap) (k : Bytes × Bytes) : Option Bytes :=
  m.foldl (fun acc kv => if kv.1 == k then some kv.2 else acc) none

/-- `for _, event := range latestEvents.StateEvents { authEvents.AddEvent(event) }` -/
def addEvents : List (Option StateEv) → AuthMap → PR AuthMap
  | [], m => .ok m
  | none :: _, _ => .error (.panic siteNilState)
  | some e :: rest, m =>
    match e.stateKey with
    | none => .error pOther          -- fmt.Errorf("authEvents.AddEvent: %w", err)
    | some sk => addEvents rest (m ++ [((e.type, sk), e.eventID)])

/-- `stateNeeded.AuthEventReferences(authEvents)`: over an `*AuthEvents` no lookup fails -/
def authRefs (m : AuthMap) (asked : List (Bytes × Bytes)) : List Bytes :=
  asked.filterMap m.get

/-- `truncateAuthAndPrevEvents` -/
def truncateAuthAndPrev (auth prev : List Bytes) : List Bytes × List Bytes :=
  (if auth.length > 10 then auth.take 10 else auth, if prev.length > 20 then prev.take 20 else prev)

structure PerformInviteIn where
  -- nil-ness of the arguments
  membershipQuerierNil : Bool
  stateQuerierNil : Bool
  userIDQuerierNil : Bool
  senderIDQuerierNil : Bool
  senderIDCreatorNil : Bool
  eventQuerierNil : Bool
  ctxNil : Bool
  storeSenderIDNil : Bool
  fedClientNil : Bool
  /-- len(SigningKey) == ed25519.PrivateKeySize -/
  signingKeyOK : Bool
  -- the request
  /-- GetRoomVersion(input.RoomVersion) succeeds -/
  versionKnown : Bool
  /-- input.RoomVersion == RoomVersionPseudoIDs -/
  pseudoIDs : Bool
  /-- verImpl.DomainlessRoomIDs() -/
  domainless : Bool
  targetLocal : Bool
  inviterDomain : Bytes
  inviteeUserID : Bytes
  inviteeDomain : Bytes
  keyID : Bytes
  /-- spec.SenderIDFromPseudoIDKey(input.SigningKey) -/
  origin : Bytes
  -- the template
  tType : Bytes
  tRoomID : Bytes
  tSenderID : Bytes
  /-- what `Membership()` reports of an event built from the template's content: `none` = error -/
  tMembership : Option Bytes
  /-- StateNeededForProtoEvent(&input.EventTemplate): `none` = error -/
  needed : Option StateRes.Needed
  -- stripped state
  strippedGiven : Nat
  /-- StateQuerier.GetState (asked when no stripped state was given): error | number of events -/
  stateQuery : QAns Nat
  /-- setUnsignedFieldForProtoInvite succeeded (the stripped state marshals) -/
  unsignedOK : Bool
  -- queriers
  /-- SenderIDQuerier(roomID, invitee): error | nil | sender ID -/
  invitedSenderID : QAns (Option Bytes)
  /-- MembershipQuerier.CurrentMembership(invited sender ID): `none` = error -/
  curMembership : Option Bytes
  /-- EventQuerier(roomID, tuples) -/
  latest : QAns Latest
  /-- StateQuerier.GetAuthEvents(inviteEvent) succeeded -/
  authProviderOK : Bool
  /-- Allowed(inviteEvent, provider, UserIDQuerier) == nil, as a function of the event checked (C07) -/
  allowed : EvFacts → Bool
  /-- EventBuilder.Build gets as far as signing (the completed template marshals) -/
  buildReachesSign : Bool
  /-- EventBuilder.Build succeeds on the completed template (C03 / C17) -/
  buildOK : Bool
  -- pseudo-ID branch
  /-- SenderIDCreator(invitee, room, version): `none` = error, else the invitee's sender ID -/
  createdSenderID : Option Bytes
  /-- VerifyEventSignatures(event + inviter's signature, JSONVerifierSelf) == nil, as a function of the
      event that was signed (C06) -/
  verifyOK : EvFacts → Bool
  /-- fedClient.SendInviteV3: error | nil PDU | event -/
  sendV3 : QAns (Option EvFacts)
  /-- StoreSenderIDFromPublicID succeeded -/
  storeOK : Bool
  -- user-ID branch
  /-- fedClient.SendInvite: error | nil PDU | event -/
  sendV2 : QAns (Option EvFacts)

/-- which way the returned PDU came about -/
inductive PISource where
  | builtLocal        -- built and signed here (local invitee)
  | remoteV2          -- SendInvite's answer, passed on as it is
  | remoteV3          -- SendInviteV3's answer plus the inviter's signature
  deriving DecidableEq, Repr, Inhabited

structure PIOut where
  source : PISource
  /-- the PDU returned (`none` = the nil PDU SendInvite may answer with) -/
  event : Option EvFacts
  /-- the event PerformInvite signed: the one it built, or (remoteV3) the one the remote returned -/
  signedEvent : EvFacts
  /-- signature slots put on `signedEvent` here, in order -/
  sigs : List Signed
  -- what PerformInvite filled into the template
  authEvents : List Bytes
  prevEvents : List Bytes
  depth : Int
  /-- entries of unsigned.invite_room_state (0 = the empty object) -/
  strippedLen : Nat
  deriving Repr, DecidableEq

/-- the stripped state used: the one given, else `GenerateStrippedState` -/
def piStateLen (i : PerformInviteIn) : PR Nat :=
  if i.strippedGiven == 0 then
    match i.stateQuery with
    | .err => .error pInternal
    | .ans n => .ok n
  else .ok i.strippedGiven

/-- `SenderIDQuerier` + `abortIfAlreadyJoined` -/
def piNotJoined (i : PerformInviteIn) : PR Unit :=
  match i.invitedSenderID with
  | .err => .error pOther
  | .ans none => .ok ()
  | .ans (some _) =>
    match i.curMembership with
    | none => .error pInternal
    | some cur => if cur == b!"join" then .error pForbidden else .ok ()

/-- the tuples handed to the EventQuerier: `Tuples()` after the create event was dropped for
    domainless room IDs -/
def piAsked (domainless : Bool) (n : StateRes.Needed) : List (Bytes × Bytes) :=
  if n.create && domainless then AuthNeeded.neededPairs { n with create := false } else AuthNeeded.neededPairs n

/-- what the template is completed with -/
structure Prepared where
  authEvents : List Bytes
  prevEvents : List Bytes
  depth : Int
  strippedLen : Nat
  deriving Repr, DecidableEq

/-- PerformInvite up to (and including) `truncateAuthAndPrevEvents` -/
def piPrepare (i : PerformInviteIn) : PR Prepared :=
  if i.membershipQuerierNil || i.stateQuerierNil || i.userIDQuerierNil || i.senderIDQuerierNil
      || i.senderIDCreatorNil || i.eventQuerierNil then .error (.panic siteQuerier)
  else if i.ctxNil then .error (.panic siteContext)
  else match piStateLen i with
  | .error e => .error e
  | .ok n =>
    if !i.unsignedOK then .error pOther
    else if !i.versionKnown then .error pUnsupported
    else match piNotJoined i with
    | .error e => .error e
    | .ok () =>
      match i.needed with
      | none => .error pOther
      | some nd =>
        if (AuthNeeded.neededPairs nd).isEmpty then .error pInternal
        else match i.latest with
        | .err => .error pOther
        | .ans l =>
          if !l.roomExists then .error pInternal
          else match addEvents l.stateEvents [] with
          | .error e => .error e
          | .ok m =>
            let tp := truncateAuthAndPrev (authRefs m (piAsked i.domainless nd)) l.prevEventIDs
            .ok { authEvents := tp.1, prevEvents := tp.2, depth := l.depth, strippedLen := n }

/-- `checkEventAllowed` -/
def piCheckAllowed (i : PerformInviteIn) (e : EvFacts) : PR Unit :=
  if !i.authProviderOK then .error pForbidden
  else if !i.allowed e then .error pForbidden
  else .ok ()

/-- the event `Build` makes of the completed template with the given state key -/
def builtEvent (i : PerformInviteIn) (sk : Bytes) : EvFacts :=
  { type := i.tType, stateKey := some sk, membership := i.tMembership, roomID := i.tRoomID, senderID := i.tSenderID }

def mkOut (p : Prepared) (src : PISource) (ret : Option EvFacts) (signed : EvFacts) (sigs : List Signed) : PIOut :=
  { source := src, event := ret, signedEvent := signed, sigs := sigs,
    authEvents := p.authEvents, prevEvents := p.prevEvents, depth := p.depth, strippedLen := p.strippedLen }

def pseudoKeyID : Bytes := b!"ed25519:1"

/-- the checks of /repo f453bb3 on the event SendInviteV3 returned, before the inviter's key signs it -/
def v3Checks (i : PerformInviteIn) (r : Option EvFacts) : PR EvFacts :=
  match r with
  | none => .error pForbidden
  | some e =>
    if e.type != b!"m.room.member" || e.stateKey.isNone then .error pForbidden
    else if e.membership != some b!"invite" then .error pForbidden
    else if e.roomID != i.tRoomID || e.senderID != i.tSenderID then .error pForbidden
    else .ok e

/-- `case RoomVersionPseudoIDs`, local invitee -/
def piPseudoLocal (i : PerformInviteIn) (p : Prepared) : PR PIOut :=
  match i.createdSenderID with
  | none => .error pOther
  | some sid =>
    if !i.buildOK then .error pInternal
    else
      let e := builtEvent i sid
      if !i.verifyOK e then .error pForbidden
      else match piCheckAllowed i e with
      | .error er => .error er
      | .ok () => .ok (mkOut p .builtLocal (some e) e [⟨sid, pseudoKeyID⟩, ⟨i.origin, pseudoKeyID⟩])

/-- `case RoomVersionPseudoIDs`, remote invitee -/
def piPseudoRemote (i : PerformInviteIn) (p : Prepared) : PR PIOut :=
  if i.fedClientNil then .error (.panic siteFedV3)
  else match i.sendV3 with
  | .err => .error pForbidden
  | .ans r =>
    match v3Checks i r with
    | .error er => .error er
    | .ok e =>
      if !i.verifyOK e then .error pForbidden
      else if i.storeSenderIDNil then .error (.panic siteStore)
      else if !i.storeOK then .error pInternal
      else match piCheckAllowed i e with
      | .error er => .error er
      | .ok () => .ok (mkOut p .remoteV3 (some e) e [⟨i.origin, pseudoKeyID⟩])

/-- `default:` — the user-ID room versions -/
def piDefault (i : PerformInviteIn) (p : Prepared) : PR PIOut :=
  if !i.buildReachesSign then .error pInternal
  else if !i.signingKeyOK then .error (.panic siteKey)
  else if !i.buildOK then .error pInternal
  else
    let e := builtEvent i i.inviteeUserID
    let sigs : List Signed := [⟨i.inviterDomain, i.keyID⟩, ⟨i.inviteeDomain, i.keyID⟩]
    match piCheckAllowed i e with
    | .error er => .error er
    | .ok () =>
      if i.targetLocal then .ok (mkOut p .builtLocal (some e) e sigs)
      else if i.fedClientNil then .error (.panic siteFedV2)
      else match i.sendV2 with
      | .err => .error pForbidden
      | .ans r => .ok (mkOut p .remoteV2 r e sigs)

def performInvite (i : PerformInviteIn) : PR PIOut :=
  match piPrepare i with
  | .error e => .error e
  | .ok p =>
    if i.pseudoIDs then
      if !i.signingKeyOK then .error (.panic siteKey)
      else if i.targetLocal then piPseudoLocal i p
      else piPseudoRemote i p
    else piDefault i p

/-! ## HandleSendJoin, room version org.matrix.msc4014

  Between the state-key checks and the sender lookup the pseudo-ID version validates the
  `mxid_mapping` of the join (through the CALLER's verifier) and stores it; afterwards the event's own
  signature is checked by `JSONVerifierSelf` against the sender ID (a public key), not by the caller's
  verifier against the sender's server. -/

/-- answer of `getMXIDMapping` + `validateMXIDMappingSignatures` -/
inductive MappingAns where
  | missing        -- content does not decode / carries no mxid_mapping: M_BAD_JSON
  | invalid        -- user ID without server, not signed by the user's server, verifier failure, bad signature: M_FORBIDDEN
  | valid
  deriving DecidableEq, Repr, Inhabited

structure SendJoinPseudoIn where
  base : SendJoinIn
  mapping : MappingAns
  /-- StoreSenderIDFromPublicID(mapping.UserRoomKey, mapping.UserID, room) succeeded -/
  storeOK : Bool
  /-- JSONVerifierSelf: the sender ID decodes to a key under which the redacted event verifies (C02) -/
  selfVerify : Bool

/-- the `verify` answer HandleSendJoin sees in the pseudo-ID version: `JSONVerifierSelf.VerifyJSONs`
    never returns an error of its own -/
def pseudoVerify (i : SendJoinPseudoIn) : VerifyAns := if i.selfVerify then .good else .bad

/-- the event-level checks see the same event, with the self-verification as signature check -/
def pseudoBase (i : SendJoinPseudoIn) : SendJoinIn := { i.base with verify := pseudoVerify i }

def handleSendJoinPseudo (i : SendJoinPseudoIn) : R SendJoinOut :=
  if !i.base.versionKnown then .error eUnsupported
  else if !i.base.parses then .error eBadJSON
  else if i.base.stateKey.isNone || i.base.stateKey == some [] then .error eBadJSON
  else if i.base.stateKey != some i.base.sender then .error eBadJSON
  else match i.mapping with
    | .missing => .error eBadJSON
    | .invalid => .error eForbidden
    | .valid =>
      if !i.storeOK then .error .other
      else match i.base.senderDomain with
        | .err => .error eForbidden
        | .nil => .error eForbidden      -- `err != nil || sender == nil`: a key the querier has no user for (round-5 repair)
        | .dom d =>
          if d != i.base.requestOrigin then .error eForbidden
          else if i.base.eventRoomID != i.base.roomID then .error eBadJSON
          else if i.base.eventID != i.base.reqEventID then .error eBadJSON
          else sendJoinEventChecks (pseudoBase i)

/-! ## PerformJoin, room version org.matrix.msc4014

  What the pseudo-ID path adds to PerformJoin: the sender ID is created (`GetOrCreateSenderID`), the join carries an
  `mxid_mapping` signed by this server, the event is signed with the user's room key — and, between the sanity check of the
  create event and `CheckSendJoinResponse`, `storeMXIDMappings` walks over every event of the response (auth chain, then
  state) and hands the mapping of each membership event to the caller's `StoreSenderIDFromPublicID`.  The model keeps what
  the property is about: which store calls are made, with which arguments, in which order, and where they sit relative to
  the checks (BEFORE `CheckSendJoinResponse`: the auth checks in there look senders up through the caller's UserIDQuerier,
  which answers from what was stored).  `CheckSendJoinResponse` itself is an oracle bit here (C14). -/

/-- an `m.room.member` event of the send_join response, as `storeMXIDMappings` sees it -/
structure PJMember where
  /-- ev.SenderID() -/
  sender : Bytes
  /-- `getMXIDMapping`: `none` = error (content does not decode / no mxid_mapping), else (user_room_key, user_id) -/
  mapping : Option (Bytes × Bytes)
  /-- `validateMXIDMappingSignatures` succeeded: the mapping is signed by the server of `user_id`, and every signature on it
      verifies through the key ring -/
  mappingSigned : Bool
  deriving Repr, DecidableEq, Inhabited

/-- one observable step -/
inductive PJStep where
  /-- StoreSenderIDFromPublicID(senderID, userID, room) -/
  | store (senderID userID : Bytes)
  /-- CheckSendJoinResponse runs -/
  | check
  deriving Repr, DecidableEq, Inhabited

inductive PJPErr where
  | makeJoinFailed
  | senderIDFailed          -- "Cannot create user room key"
  | buildFailed             -- mapping.Sign / SetContent / Build
  | sendJoinFailed
  | noCreate                -- "sanityCheckAuthChain"
  | storeFailed             -- "unable to store mxid_mapping": a membership event without mapping, or the callback failed
  | checkFailed             -- "respSendJoin.Check"
  deriving DecidableEq, Repr, Inhabited

structure PerformJoinPseudoIn where
  makeJoinOK : Bool
  /-- GetOrCreateSenderID succeeded -/
  senderIDOK : Bool
  buildOK : Bool
  sendJoinOK : Bool
  create : CreateFound
  knownVersion : Bytes → Bool
  /-- the membership events among auth_chain ++ state, in that order -/
  members : List PJMember
  /-- the k-th call (counted from 0) of StoreSenderIDFromPublicID succeeds -/
  storeOK : Nat → Bool
  /-- CheckSendJoinResponse(…) == nil (C14) -/
  checkOK : Bool

/-- `storeMXIDMappings`: the calls made so far (`done`, newest last) and whether the loop returned an error.
    The comparison `mapping.UserRoomKey != ev.SenderID()` is the round-5 repair: before it the pair stored was
    (sender of the EVENT, user of the MAPPING) whatever key the mapping was about. -/
def storeLoop (storeOK : Nat → Bool) : List PJMember → List (Bytes × Bytes) → List (Bytes × Bytes) × Bool
  | [], done => (done, true)
  | m :: rest, done =>
    match m.mapping with
    | none => (done, false)                                   -- `return err`
    | some (key, user) =>
      if key != m.sender then storeLoop storeOK rest done     -- not the sender's own mapping: skipped
      else if !m.mappingSigned then storeLoop storeOK rest done   -- "invalid signature for mxid_mapping": skipped
      else if storeOK done.length then storeLoop storeOK rest (done ++ [(m.sender, user)])
      else (done ++ [(m.sender, user)], false)                 -- the callback failed

/-- the trace of observable steps and the outcome -/
def performJoinPseudo (i : PerformJoinPseudoIn) : List PJStep × Except PJPErr Unit :=
  if !i.makeJoinOK then ([], .error .makeJoinFailed)
  else if !i.senderIDOK then ([], .error .senderIDFailed)
  else if !i.buildOK then ([], .error .buildFailed)
  else if !i.sendJoinOK then ([], .error .sendJoinFailed)
  else if !checkCreate i.knownVersion i.create then ([], .error .noCreate)
  else
    let (stores, ok) := storeLoop i.storeOK i.members []
    let tr := stores.map (fun p => PJStep.store p.1 p.2)
    if !ok then (tr, .error .storeFailed)
    else if !i.checkOK then (tr ++ [.check], .error .checkFailed)
    else (tr ++ [.check], .ok ())

end V.Handshake
