/-
  VModel.EventBuild — executable model of event_builder.go `EventBuilder.Build` (with
  `eventReferencesFrom` / `toEventReference`, `eventReferenceFromEventID`, `eventHashFromEventID`),
  eventcrypto.go `addContentHashesToEvent` and `signEvent`.  Core Lean only.

  Inputs that the Go code draws from its environment are arguments: the time, the 16 random
  characters of a format-1 event ID, and the ed25519 signature over the signing payload (the model
  does not compute ed25519: `sig` is what `ed25519.Sign(key, signingPayload)` returns, supplied by
  the caller; the correspondence harness computes it independently of `Build`).
-/
import VModel.EventParse
namespace V
namespace EventBuild
open Json GoJson Redact EventParse

/-- `ProtoEvent` / `EventBuilder` fields -/
structure Proto where
  type : Bytes
  sender : Bytes
  roomID : Bytes
  stateKey : Option Bytes
  prev : List Bytes            -- []string (never nil here)
  auth : List Bytes
  redacts : Bytes
  depth : Int
  content : Option JVal        -- spec.RawJSON, none = nil
  unsigned : Option JVal
  signatures : Option JVal
  deriving Repr

def natDigits (n : Nat) : Bytes := (Nat.toDigits 10 n).map (fun c => UInt8.ofNat c.toNat)

/-- `strconv.FormatInt` as json.Marshal writes an int64 -/
def intLit (i : Int) : Bytes :=
  match i with
  | .ofNat n => natDigits n
  | .negSucc n => 0x2D :: natDigits (n + 1)

/-- `Base64Bytes.Decode` keeps what `DecodeString` had decoded when it hit an error: the complete
    4-character quanta before the first bad one (IDs contain no CR/LF). -/
def partialDecode (alpha : List UInt8) : Bytes → Bytes
  | a :: b :: c :: d :: rest =>
    match B64.decChar alpha a, B64.decChar alpha b, B64.decChar alpha c, B64.decChar alpha d with
    | some x, some y, some z, some w => B64.quantum3 x y z w ++ partialDecode alpha rest
    | _, _, _, _ => []
  | rest => (B64.decodeWith alpha rest).getD []

/-- `eventHashFromEventID(id)`: the `$` sigil knocked off, the rest decoded as far as it is base64.  Total: the empty
    ID has the empty hash (`len(eventID) == 0` is checked; before the fix of defect P1 `eventID[1:]` was a slice-bounds
    panic on `""`). -/
def eventHashFromEventID (id : Bytes) : Bytes :=
  match id with
  | [] => []
  | _ :: rest =>
    let alpha := if rest.any (fun c => c == 0x2D || c == 0x5F) then B64.urlAlphabet else B64.stdAlphabet
    partialDecode alpha rest

/-- `eventReferenceFromEventID(id)` as far as the hash: an ID without the `$` sigil — the empty one included — is an
    error (`Build` returns it), every other ID gets its hash. -/
def checkedEventHash (id : Bytes) : Except Err Bytes :=
  match id with
  | 0x24 :: _ => .ok (eventHashFromEventID id)
  | _ => .error errOther

/-- the reference `[id, {"sha256": <unpadded std base64>}]` as `eventReference.MarshalJSON` writes it -/
def refJSON (id h : Bytes) : JVal := .arr [.str id, .obj [(b!"sha256", .str (B64.encode h))]]

/-- `eventReferencesFrom([]string)` marshalled: `[id, {"sha256": <unpadded std base64>}]` -/
def refsV1 (ids : List Bytes) : Except Err (List JVal) :=
  ids.mapM (fun id => match checkedEventHash id with
    | .error x => .error x
    | .ok h => .ok (.arr [.str id, .obj [(b!"sha256", .str (B64.encode h))]]))

/-! ### The reference lists of a proto event a REMOTE server chose (defect P1)

`ProtoEvent.PrevEvents` / `AuthEvents` are `interface{}`: a make_join / make_leave / make_knock response or a v3 invite
request decodes them into whatever JSON the other server sent (`[]interface{}` of strings, of `[id, hashes]` pairs — or
of anything else).  `EventBuilder.Build` converts them in event format 1 (room versions 1 and 2) with
`eventReferencesFrom`.  Each Go panic site of the conversion is a branch here; since the fix every one of them is an
ordinary error (`Build` returns it):

* `[]`            — `ev[0]` on an empty pair          (was: index out of range)
* `[5, {}]`       — `ev[0].(string)`                  (was: interface conversion panic)
* `""`, `["", …]` — `eventID[1:]` in `eventHashFromEventID` (was: slice bounds out of range)

An entry that is neither a string nor an array (a number, `null`, an object, `true`) is skipped, as before. -/

/-- one entry of the decoded list: `.ok none` = skipped -/
def refOfEntry (v : JVal) : Except Err (Option JVal) :=
  match v with
  | .str id =>
    match checkedEventHash id with
    | .error x => .error x
    | .ok h => .ok (some (refJSON id h))
  | .arr [] => .error errOther                      -- `len(ev) == 0`
  | .arr (.str id :: _) =>
    match checkedEventHash id with
    | .error x => .error x
    | .ok h => .ok (some (refJSON id h))
  | .arr (_ :: _) => .error errOther                -- `evID, ok = ev[0].(string); !ok`
  | _ => .ok none

/-- `eventReferencesFrom(data)` for `data` = what `encoding/json` stored in the `interface{}` field (`none` = member
    absent; absent and `null` are both the nil interface), marshalled -/
def refsOfJSON (v : Option JVal) : Except Err (List JVal) :=
  match v with
  | none => .ok []
  | some .null => .ok []
  | some (.arr xs) =>
    match xs.mapM refOfEntry with
    | .error x => .error x
    | .ok rs => .ok (rs.filterMap id)
  | some _ => .ok []                                  -- `default:` (a string, a number, an object, a boolean)

/-- event format 2 (room versions 3+): `Build` leaves a decoded list as it is; the trusted constructor then reads
    `prev_events` / `auth_events` as `[]string` (`null` entries read as ""), anything else fails.  `none` = `Build` fails. -/
def refsV2OfJSON (v : Option JVal) : Option (List JVal) :=
  match v with
  | none => some []
  | some .null => some []
  | some (.arr xs) =>
    if xs.all (fun x => match x with
      | .str _ => true
      | .null => true
      | _ => false) then some xs else none
  | some _ => none

/-- is a `signatures` value what `SignJSON` can read back unchanged: an object of objects of
    canonical unpadded standard base64 strings -/
def sigsCanonical (v : JVal) : Bool :=
  match v with
  | .obj m => m.all (fun kv => match kv.2 with
    | .obj km => km.all (fun x => match x.2 with
      | .str s => (match B64.decode s with
        | some d => B64.encode d == s
        | none => false)
      | _ => false)
    | _ => false)
  | _ => false

/-- `Build` up to and including `signEvent`: the members of the signed event, in marshalling order -/
def signedMembers (H : Bytes → Bytes) (row : VGen.VersionRow) (ver : Bytes) (pe : Proto) (now : Nat)
    (origin kid rand16 sig : Bytes) : Except Err Obj :=
  if row.domainlessRoomID && pe.type == b!"m.room.create" && pe.stateKey.isSome && !pe.roomID.isEmpty then .error errOther else
  match pe.content with
  | none => .error errOther      -- json.Marshal of a nil RawJSON fails
  | some content =>
    let refs : Except Err (List JVal × List JVal) :=
      if row.eventFormat == 1 then
        match refsV1 pe.prev, refsV1 pe.auth with
        | .ok p, .ok a => .ok (p, a)
        | .error x, _ => .error x
        | _, .error x => .error x
      else .ok (pe.prev.map JVal.str, pe.auth.map JVal.str)
    match refs with
    | .error x => .error x
    | .ok (prev, auth) =>
      let eventID : Bytes := if row.eventIDFormat == 1 then 0x24 :: rand16 ++ 0x3A :: origin else []
      -- json.Marshal(&eventStruct): struct order, omitempty as tagged
      let members : Obj :=
        [(b!"sender", .str pe.sender)] ++
        (if pe.roomID.isEmpty then [] else [(b!"room_id", .str pe.roomID)]) ++
        [(b!"type", .str pe.type)] ++
        (match pe.stateKey with
          | some sk => [(b!"state_key", .str sk)]
          | none => []) ++
        [(b!"prev_events", .arr prev), (b!"auth_events", .arr auth)] ++
        (if pe.redacts.isEmpty then [] else [(b!"redacts", .str pe.redacts)]) ++
        [(b!"depth", .num (intLit pe.depth))] ++
        (match pe.signatures with
          | some s => [(b!"signatures", s)]
          | none => []) ++
        [(b!"content", content)] ++
        (match pe.unsigned with
          | some u => [(b!"unsigned", u)]
          | none => []) ++
        [(b!"event_id", .str eventID), (b!"origin_server_ts", .num (natDigits now)), (b!"origin", .str origin)] ++
        (if pe.stateKey.isSome then [(b!"prev_state", .arr [])] else [])
      let members := if row.eventFormat == 2 then deleteFirst b!"event_id" members else members
      -- addContentHashesToEvent
      let hashable := members.filter (fun kv => !(kv.1 == b!"signatures" || kv.1 == b!"unsigned" || kv.1 == b!"hashes"))
      let digest := H (encodeCanon (.obj hashable))
      let withHash := setFirst b!"hashes" (.obj [(b!"sha256", .str (B64.encode digest))]) members
      -- signEvent
      match signaturesOf ver (.obj withHash) with
      | .error (.other w) => if w.startsWith "unmodelled" then .error (.other w) else .error errOther
      | .error x => .error x
      | .ok sigs =>
        if (match sigs with
            | some s => !sigsCanonical s
            | none => false) then .error (unmodelled "existing signatures not canonical base64 objects")
        else
        match addSignature sigs origin kid sig with
        | none => .error (unmodelled "existing signatures")
        | some ns => .ok (setFirst b!"signatures" ns withHash)

/-- the end of `Build`: `EnforcedCanonicalJSON`, `checkUntrustedEventJSON`, `NewEventFromTrustedJSON(…, false)`, `CheckFields`.
    As in the Go code, the trusted constructor is handed the canonical *text* and reads it back
    (`parse`): the event holds the value that text denotes — members sorted, `-0` written `0` — not
    the marshalling order of the builder struct. -/
def finishBuild (H : Bytes → Bytes) (row : VGen.VersionRow) (ver : Bytes) (signed : Obj) : Except Err PDU :=
  match enforcedOkVal row (.obj signed) with
  | none => .error (unmodelled "canonical check function")
  | some false => .error .badJSON
  | some true =>
    -- `checkUntrustedEventJSON` on what was built (defect P5): the content / unsigned of the builder are raw JSON, a member
    -- name may occur twice in them; the untrusted constructors refuse such an event, so `Build` does.  (Its second check,
    -- a case variant of a struct field name at the top level, cannot fire: the top-level names are the struct's own.)
    if !(JVal.obj signed).noDupKeys then .error .badJSON else
    match parse (encodeCanon (.obj signed)) with
    | none => .error (.other "invalid-json")
    | some p =>
      match trustedCore H row ver false (encodeCanon (.obj signed)) p.toJVal with
      | .error x => .error x
      | .ok e =>
        match checkFields e with
        | .error x => .error x
        | .ok () => .ok e

/-- `EventBuilder.Build(now, origin, keyID, privateKey)` -/
def build (H : Bytes → Bytes) (ver : Bytes) (pe : Proto) (now : Nat) (origin kid rand16 sig : Bytes) : Except Err PDU :=
  match rowOf ver with
  | none => .error (unmodelled "version")
  | some row =>
    match signedMembers H row ver pe now origin kid rand16 sig with
    | .error x => .error x
    | .ok signed => finishBuild H row ver signed

end EventBuild
end V
