/-
  VModel.Resolve — executable model of server-name resolution:
    spec/servername.go  : ParseAndValidateServerName, splitServerName, isDNSNameChar
    fclient/resolve.go  : ResolveServer, resolveServer, handleNoWellKnown, lookupSRV
  mirrored branch by branch, with the external calls as parameters (`Oracles`):
    LookupWellKnown (the result of the HTTP fetch, modelled in VModel.WellKnown) and
    net.DefaultResolver.LookupSRV.
  `net.ParseIP` is `V.Cidr.parseIP` (text layer of VModel.Cidr).  Core Lean only.

  The specification (`Spec.resolve`) is the Server-Server API section "Resolving server names",
  steps 1-6, with the Host header and TLS server name each step assigns.
-/
import VModel.Json
import VModel.Cidr
namespace V.Resolve
open V.Cidr (Str parseIP)

/-- ResolutionResult -/
structure Target where
  dest : Str     -- Destination: host:port to connect to
  host : Str     -- Host header
  sni : Str      -- TLSServerName
  deriving Repr, DecidableEq

/-- What net.Resolver.LookupSRV answered: records (target, port) in the order returned, or an error. -/
inductive SrvAnswer where
  | records (rs : List (Str × Nat))
  | notFound        -- *net.DNSError with IsNotFound
  | dnsError        -- any other *net.DNSError
  | otherError      -- an error that is not a *net.DNSError
  deriving Repr, DecidableEq

structure Oracles where
  /-- LookupWellKnown(name): `some m.server` when it returned a result, `none` on any error -/
  wk : Str → Option Str
  /-- LookupSRV(service, "tcp", name) -/
  srv : Str → Str → SrvAnswer

/-! ## spec/servername.go -/

def isDigit (c : Char) : Bool := 48 ≤ c.toNat && c.toNat ≤ 57

def isDNSNameChar (c : Char) : Bool :=
  (65 ≤ c.toNat && c.toNat ≤ 90) || (97 ≤ c.toNat && c.toNat ≤ 122) || (48 ≤ c.toNat && c.toNat ≤ 57) || c == '-' || c == '.'

def natOfDigits (s : Str) : Nat := s.foldl (fun n c => n * 10 + (c.toNat - 48)) 0

/-- strconv.ParseUint(s, 10, 16): non-empty, decimal digits only, value ≤ 65535 (leading zeros allowed) -/
def parsePort (s : Str) : Option Nat :=
  if s.isEmpty then none
  else if !s.all isDigit then none
  else if natOfDigits s > 65535 then none
  else some (natOfDigits s)

/-- split at the last ':' (strings.LastIndex): (before, after) -/
def splitLastColon (s : Str) : Option (Str × Str) :=
  let r := s.reverse
  let after := r.takeWhile (· != ':')
  if after.length == r.length then none
  else some ((r.drop (after.length + 1)).reverse, after.reverse)

/-- splitServerName: host and port (`none` = -1) -/
def splitServerName (name : Str) : Str × Option Nat :=
  match splitLastColon name with
  | none => (name, none)
  | some (h, p) =>
    match parsePort p with
    | none => (name, none)
    | some port => (h, some port)

/-- the checks of ParseAndValidateServerName on the host part -/
def validateHost (host : Str) (port : Option Nat) : Option (Str × Option Nat) :=
  match host with
  | [] => none
  | c0 :: _ =>
    if c0 == '[' then
      -- must be a valid IPv6 address
      if host.getLast? != some ']' then none
      else
        let ip := (host.drop 1).dropLast
        if (parseIP ip).isNone then none else some (host, port)
    else
      -- an IPv4 address (an IPv6 literal must be bracketed) or a DNS name
      match parseIP host with
      | some a =>
        if Cidr.isMapped a && !host.contains ':' then some (host, port)
        else if host.all isDNSNameChar then some (host, port) else none
      | none => if host.all isDNSNameChar then some (host, port) else none

/-- ParseAndValidateServerName: `none` = not valid -/
def parseAndValidate (name : Str) : Option (Str × Option Nat) :=
  if name.isEmpty then none else
  let (host, port) := splitServerName name
  validateHost host port

/-! ## fclient/resolve.go -/

/-- net.JoinHostPort -/
def joinHostPort (host port : Str) : Str :=
  if host.contains ':' then '[' :: host ++ "]:".toList ++ port else host ++ ':' :: port

def port8448 : Str := "8448".toList

def natStr (n : Nat) : Str := (toString n).toList

/-- lookupSRV: `_matrix-fed` first (Matrix 1.8), then the deprecated `_matrix`; returns (records, err?) -/
def lookupSRV (srv : Str → Str → SrvAnswer) (name : Str) : List (Str × Nat) × Bool :=
  match srv "matrix-fed".toList name with
  | .records rs => (rs, false)                 -- a hit on matrix-fed
  | .dnsError => ([], true)
  | .otherError => ([], true)
  | .notFound =>
    match srv "matrix".toList name with
    | .records rs => (rs, false)
    | _ => ([], true)

/-- one SRV record -> target; `target[len(target)-1]` is an index expression -/
def srvTarget (name : Str) (rec : Str × Nat) : Except Err Target :=
  match rec.1.getLast? with
  | none => .error (.panic "fclient/resolve.go:handleNoWellKnown:index out of range")
  | some last =>
    let target := if last == '.' then rec.1.dropLast else rec.1
    .ok ⟨target ++ ':' :: natStr rec.2, name, name⟩

/-- the `for _, rec := range records` loop of handleNoWellKnown -/
def srvTargetsGo (name : Str) : List (Str × Nat) → Except Err (List Target)
  | [] => .ok []
  | r :: rest =>
    match srvTarget name r with
    | .error e => .error e
    | .ok t =>
      match srvTargetsGo name rest with
      | .error e => .error e
      | .ok ts => .ok (t :: ts)

/-- handleNoWellKnown -/
def handleNoWellKnown (srv : Str → Str → SrvAnswer) (name : Str) : Except Err (List Target) :=
  let (records, err) := lookupSRV srv name
  if !err && records.length > 0 then srvTargetsGo name records
  else .ok [⟨name ++ ':' :: port8448, name, name⟩]

/-- steps 1 and 2 of resolveServer for a valid name split into host and port;
    `ok none` = go on to well-known / SRV -/
def directOf (name host : Str) (port : Option Nat) : Except Err (Option (List Target)) :=
  match host with
  | [] => .error (.panic "fclient/resolve.go:resolveServer:index out of range")     -- host[0]
  | c0 :: _ =>
    -- 1. IP literal (brackets of an IPv6 literal removed)
    let host := if c0 == '[' && host.getLast? == some ']' then (host.drop 1).dropLast else host
    if (parseIP host).isSome then
      let destination := match port with
        | none => joinHostPort host port8448
        | some _ => name
      .ok (some [⟨destination, name, host⟩])
    -- 2. explicit port
    else if port.isSome then .ok (some [⟨name, name, host⟩])
    else .ok none

/-- the part of resolveServer before the well-known lookup: validity, steps 1 and 2 -/
def resolveDirect (name : Str) : Except Err (Option (List Target)) :=
  match parseAndValidate name with
  | none => .error (.other "invalid-server-name")
  | some (host, port) => directOf name host port

/-- resolveServer(ctx, name, false) -/
def resolveNoWellKnown (o : Oracles) (name : Str) : Except Err (List Target) :=
  match resolveDirect name with
  | .error e => .error e
  | .ok (some ts) => .ok ts
  | .ok none => handleNoWellKnown o.srv name

/-- ResolveServer = resolveServer(ctx, name, true) -/
def resolve (o : Oracles) (name : Str) : Except Err (List Target) :=
  match resolveDirect name with
  | .error e => .error e
  | .ok (some ts) => .ok ts
  | .ok none =>
    match o.wk name with
    | some newAddress => resolveNoWellKnown o newAddress       -- no well-known lookup on the result
    | none => handleNoWellKnown o.srv name

/-! ## fclient/client.go: destinationTripper.RoundTrip (with wellKnownSRV) -/

/-- what happens when a connection to a target is attempted (the network: a parameter) -/
inductive Reach where
  | ok          -- the request was sent and answered
  | tlsFail     -- connected, TLS handshake failed
  | refused     -- no connection
  | reset       -- connected, the peer closed the connection before the TLS handshake
  | dropped     -- connected, handshake done, request sent, the peer closed the connection without answering
  deriving Repr, DecidableEq

/-- The network as RoundTrip meets it: the outcome of an attempt may depend on everything attempted before
    in this RoundTrip (a server that fails once and then answers), so it is a function of the attempts so
    far and the target. -/
abbrev Network := List (Target × Reach) → Target → Reach

/-- the `for _, result := range resolutionResults` loop: attempts in order, stopping at the first success.
    Each attempt uses URL host = Destination, Host header = Host, TLS server name = TLSServerName.
    `hist` = the attempts made before. -/
def tryTargets (reach : Network) (hist : List (Target × Reach)) : List Target → List (Target × Reach) × Bool
  | [] => ([], false)
  | t :: ts =>
    match reach hist t with
    | .ok => ([(t, .ok)], true)
    | r =>
      let (rest, ok) := tryTargets reach (hist ++ [(t, r)]) ts
      ((t, r) :: rest, ok)

structure Trip where
  attempts : List (Target × Reach)
  ok : Bool
  resolved : Bool                    -- ResolveServer was called
  cache : Option (List Target)       -- resolutionCache entry for the name afterwards
  deriving Repr

/-- RoundTrip for one server name, given its resolutionCache entry.  When every target fails the cache
    entry is deleted and the loop runs once more — over the same results: the local variable still holds
    them, so ResolveServer is not called again. -/
def roundTrip (o : Oracles) (name : Str) (reach : Network) (cache : Option (List Target)) : Except Err Trip :=
  let fresh : Except Err (List Target × Bool) :=
    match cache with
    | some (t :: ts) => .ok (t :: ts, false)
    | _ =>
      match resolve o name with
      | .error e => .error e
      | .ok ts => .ok (ts, true)
  match fresh with
  | .error e => .error e
  | .ok (results, resolved) =>
    if results.isEmpty then .error (.other "no-address-found")
    else
      let (a1, ok1) := tryTargets reach [] results
      if ok1 then .ok ⟨a1, true, resolved, some results⟩
      else
        let (a2, ok2) := tryTargets reach a1 results
        .ok ⟨a1 ++ a2, ok2, resolved, none⟩

/-! ## Specification: Server-Server API, "Resolving server names" -/
namespace Spec

/-- How a server name reads (appendix "Server Name": `hostname [ ":" port ]`, hostname an IPv4 literal,
    a bracketed IPv6 literal or a DNS name).  `portText` is the port as written. -/
inductive Kind where
  | literal (ip : Str) (port : Option Str)    -- ip without brackets
  | named (host : Str) (port : Option Str)
  deriving Repr, DecidableEq

/-- a port as the grammar's `port` reads after the last colon: decimal digits denoting at most 65535.
    (The grammar says 1*5DIGIT; longer spellings with leading zeros are outside the property's
    quantifier — the correspondence stream marks them `unspecified`.) -/
def isPort (s : Str) : Bool := !s.isEmpty && s.all isDigit && natOfDigits s ≤ 65535

/-- host part and optional port text -/
def hostPort (name : Str) : Str × Option Str :=
  match splitLastColon name with
  | some (h, p) => if isPort p then (h, some p) else (name, none)
  | none => (name, none)

def isIPv4Literal (h : Str) : Bool := !h.contains ':' && (parseIP h).isSome

def classifyHost (h : Str) (p : Option Str) : Option Kind :=
  match h with
  | [] => none
  | '[' :: rest =>
    match rest.getLast? with
    | some ']' => if (parseIP rest.dropLast).isSome then some (.literal rest.dropLast p) else none
    | _ => none
  | _ =>
    if isIPv4Literal h then some (.literal h p)
    else if h.all isDNSNameChar then some (.named h p)
    else none

def classify (name : Str) : Option Kind :=
  let (h, p) := hostPort name
  classifyHost h p

/-- "host:port" with an IPv6 literal re-bracketed -/
def hostport (ip port : Str) : Str := if ip.contains ':' then '[' :: ip ++ "]:".toList ++ port else ip ++ ':' :: port

def stripDot (t : Str) : Str := if t.getLast? == some '.' then t.dropLast else t

/-- the targets of a list of SRV records found for `n`: Host header and certificate name are `n` -/
def srvTargets (n : Str) (rs : List (Str × Nat)) : List Target :=
  rs.map (fun r => ⟨stripDot r.1 ++ ':' :: natStr r.2, n, n⟩)

/-- A lookup "finds" SRV records when it succeeds with at least one record. -/
def found : SrvAnswer → Option (List (Str × Nat))
  | .records (r :: rs) => some (r :: rs)
  | _ => none

/-- Steps 3.3-3.5 (for a delegated hostname) and 4-6 (for the original hostname): `_matrix-fed._tcp`,
    then the deprecated `_matrix._tcp`, else port 8448.  A lookup of `_matrix-fed` that fails for a reason
    other than "not found" ends SRV discovery (reading decision: the text only speaks of found / not found). -/
def srvSteps (srv : Str → Str → SrvAnswer) (n : Str) : List Target :=
  match found (srv "matrix-fed".toList n) with
  | some rs => srvTargets n rs
  | none =>
    match srv "matrix-fed".toList n with
    | .dnsError => [⟨n ++ ":8448".toList, n, n⟩]
    | .otherError => [⟨n ++ ":8448".toList, n, n⟩]
    | _ =>
      match found (srv "matrix".toList n) with
      | some rs => srvTargets n rs
      | none => [⟨n ++ ":8448".toList, n, n⟩]

/-- steps 1 and 2 applied to a name of known kind whose Host header is `hdr`; `none` = not finished -/
def direct (hdr : Str) : Kind → Option (List Target)
  | .literal ip none => some [⟨hostport ip "8448".toList, hdr, ip⟩]      -- step 1 / 3.1, default port
  | .literal ip (some _) => some [⟨hdr, hdr, ip⟩]                         -- step 1 / 3.1, explicit port
  | .named h (some _) => some [⟨hdr, hdr, h⟩]                             -- step 2 / 3.2
  | .named _ none => none

def resolve (o : Oracles) (name : Str) : Except Err (List Target) :=
  match classify name with
  | none => .error (.other "invalid-server-name")
  | some k =>
    match direct name k with
    | some ts => .ok ts
    | none =>
      match o.wk name with                                              -- step 3
      | some d =>
        match classify d with
        | none => .error (.other "invalid-server-name")                 -- an invalid delegated name is refused
        | some kd =>
          match direct d kd with
          | some ts => .ok ts                                           -- 3.1, 3.2
          | none => .ok (srvSteps o.srv d)                              -- 3.3, 3.4, 3.5
      | none => .ok (srvSteps o.srv name)                               -- 4, 5, 6

/-- Assumption on the resolver (net.Resolver.LookupSRV): a successful lookup has at least one
    record, and every record has a non-empty target. -/
def SrvSane (srv : Str → Str → SrvAnswer) : Prop :=
  ∀ svc n rs, srv svc n = .records rs → rs ≠ [] ∧ ∀ r ∈ rs, r.1 ≠ []

end Spec

end V.Resolve
