/-
  VModel.Resolve — executable model of server-name resolution:
    spec/servername.go  : ParseAndValidateServerName, splitServerName, isDNSNameChar
    fclient/resolve.go  : ResolveServer, resolveServer, handleNoWellKnown, lookupSRV
  mirrored branch by branch, with the external calls as parameters (`Oracles`):
    LookupWellKnown (the result of the HTTP fetch, modelled in VModel.WellKnown) and
    net.DefaultResolver.LookupSRV.
  `net.ParseIP` is `V.Cidr.parseIP` (text layer of VModel.Cidr).  Core Lean only.

  The specification (`Spec.resolve`) is the Server-Server API section "Resolving server names",
  steps 1-6, with the Host header and TLS server name each step assigns.
-/
import VModel.Json
import VModel.Cidr
namespace V.Resolve
open V.Cidr (Str parseIP)

/-- ResolutionResult -/
structure Target where
  dest : Str     -- Destination: host:port to connect to
  host : Str     -- Host header
  sni : Str      -- TLSServerName
  deriving Repr, DecidableEq

/-- What net.Resolver.LookupSRV answered: records (target, port) in the order returned, or an error. -/
inductive SrvAnswer where
  | records (rs : List (Str × Nat))
  | notFound        -- *net.DNSError with IsNotFound
  | dnsError        -- any other *net.DNSError
  | otherError      -- an error that is not a *net.DNSError
  deriving Repr, DecidableEq

structure Oracles where
  /-- LookupWellKnown(name): `some m.server` when it returned a result, `none` on any error -/
  wk : Str → Option Str
  /-- LookupSRV(service, "tcp", name) -/
  srv : Str → Str → SrvAnswer

/-! ## spec/servername.go -/

def isDigit (c : Char) : Bool := 48 ≤ c.toNat && c.toNat ≤ 57

def isDNSNameChar (c : Char) : Bool :=
  (65 ≤ c.toNat && c.toNat ≤ 90) || (97 ≤ c.toNat && c.toNat ≤ 122) || (48 ≤ c.toNat && c.toNat ≤ 57) || c == '-' || c == '.'

def natOfDigits (s : Str) : Nat := s.foldl (fun n c => n * 10 + (c.toNat - 48)) 0

/-- strconv.ParseUint(s, 10, 16): non-empty, decimal digits only, value ≤ 65535 (leading zeros allowed) -/
def parsePort (s : Str) : Option Nat :=
  if s.isEmpty then none
  else if !s.all isDigit then none
  else if natOfDigits s > 65535 then none
  else some (natOfDigits s)

/-- split at the last ':' (strings.LastIndex): (before, after) -/
def splitLastColon (s : Str) : Option (Str × Str) :=
  let r := s.reverse
  let after := r.takeWhile (· != ':')
  if after.length == r.length then none
  else some ((r.drop (after.length + 1)).reverse, after.reverse)

/-- splitServerName: host and port (`none` = -1) -/
def splitServerName (name : Str) : Str × Option Nat :=
  match splitLastColon name with
  | none => (name, none)
  | some (h, p) =>
    match parsePort p with
    | none => (name, none)
    | some port => (h, some port)

/-- the checks of ParseAndValidateServerName on the host part -/
def validateHost (host : Str) (port : Option Nat) : Option (Str × Option Nat) :=
  match host with
  | [] => none
  | c0 :: _ =>
    if c0 == '[' then
      -- must be a valid IPv6 address
      if host.getLast? != some ']' then none
      else
        let ip := (host.drop 1).dropLast
        if (parseIP ip).isNone then none else some (host, port)
    else
      -- an IPv4 address (an IPv6 literal must be bracketed) or a DNS name
      match parseIP host with
      | some a =>
        if Cidr.isMapped a && !host.contains ':' then some (host, port)
        else if host.all isDNSNameChar then some (host, port) else none
      | none => if host.all isDNSNameChar then some (host, port) else none

/-- ParseAndValidateServerName: `none` = not valid -/
def parseAndValidate (name : Str) : Option (Str × Option Nat) :=
  if name.isEmpty then none else
  let (host, port) := splitServerName name
  validateHost host port

/-! ## fclient/resolve.go -/

/-- net.JoinHostPort -/
def joinHostPort (host port : Str) : Str :=
  if host.contains ':' then '[' :: host ++ "]:".toList ++ port else host ++ ':' :: port

def port8448 : Str := "8448".toList

def natStr (n : Nat) : Str := (toString n).toList

/-- lookupSRV: `_matrix-fed` first (Matrix 1.8), then the deprecated `_matrix`; returns (records, err?) -/
def lookupSRV (srv : Str → Str → SrvAnswer) (name : Str) : List (Str × Nat) × Bool :=
  match srv "matrix-fed".toList name with
  | .records rs => (rs, false)                 -- a hit on matrix-fed
  | .dnsError => ([], true)
  | .otherError => ([], true)
  | .notFound =>
    match srv "matrix".toList name with
    | .records rs => (rs, false)
    | _ => ([], true)

/-- one SRV record -> target: `strings.TrimSuffix(rec.Target, ".")`; a record whose target is the root (nothing
    is left) is skipped -/
def srvTarget (name : Str) (rec : Str × Nat) : Option Target :=
  let target := if rec.1.getLast? == some '.' then rec.1.dropLast else rec.1
  if target.isEmpty then none else some ⟨target ++ ':' :: natStr rec.2, name, name⟩

/-- the `for _, rec := range records` loop of handleNoWellKnown -/
def srvTargetsGo (name : Str) (records : List (Str × Nat)) : List Target := records.filterMap (srvTarget name)

/-- handleNoWellKnown (the result may be empty: every record found names the root) -/
def handleNoWellKnown (srv : Str → Str → SrvAnswer) (name : Str) : Except Err (List Target) :=
  let (records, err) := lookupSRV srv name
  if !err && records.length > 0 then .ok (srvTargetsGo name records)
  else .ok [⟨name ++ ':' :: port8448, name, name⟩]

/-- steps 1 and 2 of resolveServer for a valid name split into host and port;
    `ok none` = go on to well-known / SRV -/
def directOf (name host : Str) (port : Option Nat) : Except Err (Option (List Target)) :=
  match host with
  | [] => .error (.panic "fclient/resolve.go:resolveServer:index out of range")     -- host[0]
  | c0 :: _ =>
    -- 1. IP literal (brackets of an IPv6 literal removed)
    let host := if c0 == '[' && host.getLast? == some ']' then (host.drop 1).dropLast else host
    if (parseIP host).isSome then
      let destination := match port with
        | none => joinHostPort host port8448
        | some _ => name
      .ok (some [⟨destination, name, host⟩])
    -- 2. explicit port
    else if port.isSome then .ok (some [⟨name, name, host⟩])
    else .ok none

/-- the part of resolveServer before the well-known lookup: validity, steps 1 and 2 -/
def resolveDirect (name : Str) : Except Err (Option (List Target)) :=
  match parseAndValidate name with
  | none => .error (.other "invalid-server-name")
  | some (host, port) => directOf name host port

/-- resolveServer(ctx, name, false) -/
def resolveNoWellKnown (o : Oracles) (name : Str) : Except Err (List Target) :=
  match resolveDirect name with
  | .error e => .error e
  | .ok (some ts) => .ok ts
  | .ok none => handleNoWellKnown o.srv name

/-- ResolveServer = resolveServer(ctx, name, true) -/
def resolve (o : Oracles) (name : Str) : Except Err (List Target) :=
  match resolveDirect name with
  | .error e => .error e
  | .ok (some ts) => .ok ts
  | .ok none =>
    match o.wk name with
    | some newAddress => resolveNoWellKnown o newAddress       -- no well-known lookup on the result
    | none => handleNoWellKnown o.srv name

/-! ## fclient/client.go: destinationTripper.RoundTrip (with wellKnownSRV) -/

/-- what happens when a connection to a target is attempted (the network: a parameter) -/
inductive Reach where
  | ok          -- the request was sent and answered
  | tlsFail     -- connected, TLS handshake failed
  | refused     -- no connection
  | reset       -- connected, the peer closed the connection before the TLS handshake
  | dropped     -- connected, handshake done, request sent, the peer closed the connection without answering
  deriving Repr, DecidableEq

/-- The network as RoundTrip meets it: the outcome of an attempt may depend on everything attempted before
    in this RoundTrip (a server that fails once and then answers), so it is a function of the attempts so
    far and the target. -/
abbrev Network := List (Target × Reach) → Target → Reach

/-- the `for _, result := range resolutionResults` loop: attempts in order, stopping at the first success.
    Each attempt uses URL host = Destination, Host header = Host, TLS server name = TLSServerName.
    `hist` = the attempts made before. -/
def tryTargets (reach : Network) (hist : List (Target × Reach)) : List Target → List (Target × Reach) × Bool
  | [] => ([], false)
  | t :: ts =>
    match reach hist t with
    | .ok => ([(t, .ok)], true)
    | r =>
      let (rest, ok) := tryTargets reach (hist ++ [(t, r)]) ts
      ((t, r) :: rest, ok)

structure Trip where
  attempts : List (Target × Reach)
  ok : Bool
  resolved : Bool                    -- ResolveServer was called
  cache : Option (List Target)       -- resolutionCache entry for the name afterwards
  deriving Repr

/-- RoundTrip for one server name, given its resolutionCache entry.  When every target fails the cache
    entry is deleted and the loop runs once more — over the same results: the local variable still holds
    them, so ResolveServer is not called again. -/
def roundTrip (o : Oracles) (name : Str) (reach : Network) (cache : Option (List Target)) : Except Err Trip :=
  let fresh : Except Err (List Target × Bool) :=
    match cache with
    | some (t :: ts) => .ok (t :: ts, false)
    | _ =>
      match resolve o name with
      | .error e => .error e
      | .ok ts => .ok (ts, true)
  match fresh with
  | .error e => .error e
  | .ok (results, resolved) =>
    if results.isEmpty then .error (.other "no-address-found")
    else
      let (a1, ok1) := tryTargets reach [] results
      if ok1 then .ok ⟨a1, true, resolved, some results⟩
      else
        let (a2, ok2) := tryTargets reach a1 results
        .ok ⟨a1 ++ a2, ok2, resolved, none⟩

/-! ## fclient/client.go: where a client with allow / deny lists connects

  `NewClient(WithAllowDenyNetworks(allow, deny), [WithDNSCache(NewDNSCache(…, cacheAllow, cacheDeny))],
  [WithWellKnownSRVLookups(true)])` sending ONE request to a server name, against a network given as
  parameters: the addresses of every host name (in resolver order), which (address, port) pairs are
  listened on, and the /.well-known/matrix/server document every host serves on port 443.  The outcome is
  the list of (address, port) pairs a TCP connection was ESTABLISHED to, and whether the request was
  answered.  (newDestinationTripperDialer, allowDenyNetworksControl, getTransport, DNSCache.DialContext,
  RoundTrip, LookupWellKnown's http.Client.)  SRV lookups find nothing here. -/
namespace Policy
open V.Cidr (parseCIDR isAllowed)

structure Config where
  wellKnown : Bool                   -- WithWellKnownSRVLookups(true)
  cache : Bool                       -- WithDNSCache
  allow : List Str                   -- WithAllowDenyNetworks
  deny : List Str
  cacheAllow : List Str              -- the lists NewDNSCache was given
  cacheDeny : List Str

inductive WkDoc where
  | none                             -- 404
  | server (d : Str)                 -- {"m.server": d}
  | redirect (host : Str)            -- 302 to https://host/.well-known/matrix/server
  deriving Repr, DecidableEq

structure Net where
  addrs : Str → List Str             -- DNS: addresses of a host name, in the order the resolver returns them
  listening : Str → Str → Bool       -- address, port
  wkDoc : Str → WkDoc                -- by Host header

/-- `allowDenyNetworksControl(allow, deny)` on an address text -/
def listsPermit (allow deny : List Str) (ip : Str) : Bool :=
  match parseIP ip with
  | some a => isAllowed a (allow.map parseCIDR) (deny.map parseCIDR)
  | none => false

/-- newDestinationTripperDialer: no ControlContext at all when both lists are empty -/
def clientControl (c : Config) (ip : Str) : Bool :=
  if c.allow.isEmpty && c.deny.isEmpty then true else listsPermit c.allow c.deny ip

/-- NewDNSCache: the cache's own dialer always carries a control function over ITS lists -/
def cacheControl (c : Config) (ip : Str) : Bool := listsPermit c.cacheAllow c.cacheDeny ip

def hostAddrs (n : Net) (host : Str) : List Str :=
  if (parseIP host).isSome then [host] else n.addrs (host.map Char.toLower)

/-- net.Dialer.DialContext("tcp", host:port) with a control function: the addresses are tried in order; the
    control function runs before each connect; the first address that passes it and is listened on is
    connected to.  `none` = no connection. -/
def dialVia (ctl : Str → Bool) (n : Net) (host port : Str) : Option Str :=
  ((hostAddrs n host).filter (fun ip => ctl ip && n.listening ip port)).head?

/-- the DialContext of the federation transports (getTransport): the client's dialer — or, with a DNS cache,
    `DNSCache.dialContextVia(dialer)`: the cache resolves the name, the connections are made by the client's
    dialer under BOTH control functions (the cache's lists and the client's), the address built with
    net.JoinHostPort. -/
def fedDial (c : Config) (n : Net) (host port : Str) : Option Str :=
  if c.cache then dialVia (fun ip => cacheControl c ip && clientControl c ip) n host port
  else dialVia (clientControl c) n host port

/-- the client has a dialer control function or a DNS cache (`wellKnownTransport() != nil`) -/
def restricted (c : Config) : Bool := !(c.allow.isEmpty && c.deny.isEmpty) || c.cache

/-- the DialContext of the well-known fetch: the one of the federation transports when the client is
    restricted in where it may connect; http.DefaultTransport otherwise -/
def wkDial (c : Config) (n : Net) (host port : Str) : Option Str :=
  if restricted c then fedDial c n host port else dialVia (fun _ => true) n host port

/-- LookupWellKnown(host): the connections made (redirects are followed) and the m.server found -/
def wkFetch (c : Config) (n : Net) : Nat → Str → List (Str × Str) × Option Str
  | 0, _ => ([], none)
  | fuel + 1, host =>
    match wkDial c n host "443".toList with
    | none => ([], none)
    | some ip =>
      match n.wkDoc (host.map Char.toLower) with
      | .none => ([(ip, "443".toList)], none)
      | .server d => ([(ip, "443".toList)], if d.isEmpty then none else some d)
      | .redirect h2 =>
        let (a, r) := wkFetch c n fuel h2
        ((ip, "443".toList) :: a, r)

/-- host and port of a destination (`https://<dest>/…`: port 443 when none is given) -/
def splitDest (dest : Str) : Str × Str :=
  let (h, p) : Str × Str := match splitLastColon dest with
    | some (h, p) => if parsePort p |>.isSome then (h, p) else (dest, "443".toList)
    | none => (dest, "443".toList)
  (if h.head? == some '[' && h.getLast? == some ']' then (h.drop 1).dropLast else h, p)

/-- the `for _, result := range resolutionResults` loop: connections made, and whether one was answered -/
def tryDial (c : Config) (n : Net) : List Target → List (Str × Str) × Bool
  | [] => ([], false)
  | t :: ts =>
    let (h, p) := splitDest t.dest
    match fedDial c n h p with
    | some ip => ([(ip, p)], true)
    | none => tryDial c n ts

structure Outcome where
  arrivals : List (Str × Str)
  ok : Bool
  deriving Repr

/-- one request through RoundTrip.  (When every target fails the loop runs a second time over a fresh
    resolution: the same connections again — the outcome lists each once.) -/
def request (c : Config) (n : Net) (name : Str) : Outcome :=
  if c.wellKnown then
    let wkArr := match resolveDirect name with
      | .ok none => (wkFetch c n 11 name).1
      | _ => []
    match resolve { wk := fun q => (wkFetch c n 11 q).2, srv := fun _ _ => .notFound } name with
    | .error _ => ⟨wkArr, false⟩
    | .ok ts =>
      let (a, ok) := tryDial c n ts
      ⟨wkArr ++ a, ok⟩
  else
    let (a, ok) := tryDial c n [⟨name, name, name⟩]
    ⟨a, ok⟩

/-- C16: "a connection is made only to … addresses that lie in no denied range and in at least one allowed
    range": the client's lists when it has any, and the lists of its DNS cache when it has one -/
def permittedBy (c : Config) (ip : Str) : Bool :=
  clientControl c ip && (!c.cache || cacheControl c ip)

end Policy

/-! ## Specification: Server-Server API, "Resolving server names" -/
namespace Spec

/-- How a server name reads (appendix "Server Name": `hostname [ ":" port ]`, hostname an IPv4 literal,
    a bracketed IPv6 literal or a DNS name).  `portText` is the port as written. -/
inductive Kind where
  | literal (ip : Str) (port : Option Str)    -- ip without brackets
  | named (host : Str) (port : Option Str)
  deriving Repr, DecidableEq

/-- a port as the grammar's `port` reads after the last colon: decimal digits denoting at most 65535.
    (The grammar says 1*5DIGIT; longer spellings with leading zeros are outside the property's
    quantifier — the correspondence stream marks them `unspecified`.) -/
def isPort (s : Str) : Bool := !s.isEmpty && s.all isDigit && natOfDigits s ≤ 65535

/-- host part and optional port text -/
def hostPort (name : Str) : Str × Option Str :=
  match splitLastColon name with
  | some (h, p) => if isPort p then (h, some p) else (name, none)
  | none => (name, none)

def isIPv4Literal (h : Str) : Bool := !h.contains ':' && (parseIP h).isSome

def classifyHost (h : Str) (p : Option Str) : Option Kind :=
  match h with
  | [] => none
  | '[' :: rest =>
    match rest.getLast? with
    | some ']' => if (parseIP rest.dropLast).isSome then some (.literal rest.dropLast p) else none
    | _ => none
  | _ =>
    if isIPv4Literal h then some (.literal h p)
    else if h.all isDNSNameChar then some (.named h p)
    else none

def classify (name : Str) : Option Kind :=
  let (h, p) := hostPort name
  classifyHost h p

/-- "host:port" with an IPv6 literal re-bracketed -/
def hostport (ip port : Str) : Str := if ip.contains ':' then '[' :: ip ++ "]:".toList ++ port else ip ++ ':' :: port

def stripDot (t : Str) : Str := if t.getLast? == some '.' then t.dropLast else t

/-- A record whose target is the root `.` names no host: RFC 2782, "A Target of "." means that the service
    is decidedly not available at this domain".  (net.Resolver.LookupSRV passes such records on: the root
    is a valid domain name.) -/
def rootTarget (r : Str × Nat) : Bool := (stripDot r.1).isEmpty

/-- the targets of a list of SRV records found for `n`: Host header and certificate name are `n`; a record
    with the root target yields no target (a destination ":port" would send the request to the local host) -/
def srvTargets (n : Str) (rs : List (Str × Nat)) : List Target :=
  (rs.filter (fun r => !rootTarget r)).map (fun r => ⟨stripDot r.1 ++ ':' :: natStr r.2, n, n⟩)

/-- A lookup "finds" SRV records when it succeeds with at least one record. -/
def found : SrvAnswer → Option (List (Str × Nat))
  | .records (r :: rs) => some (r :: rs)
  | _ => none

/-- Steps 3.3-3.5 (for a delegated hostname) and 4-6 (for the original hostname): `_matrix-fed._tcp`,
    then the deprecated `_matrix._tcp`, else port 8448.  A lookup of `_matrix-fed` that fails for a reason
    other than "not found" ends SRV discovery (reading decision: the text only speaks of found / not found). -/
def srvSteps (srv : Str → Str → SrvAnswer) (n : Str) : List Target :=
  match found (srv "matrix-fed".toList n) with
  | some rs => srvTargets n rs
  | none =>
    match srv "matrix-fed".toList n with
    | .dnsError => [⟨n ++ ":8448".toList, n, n⟩]
    | .otherError => [⟨n ++ ":8448".toList, n, n⟩]
    | _ =>
      match found (srv "matrix".toList n) with
      | some rs => srvTargets n rs
      | none => [⟨n ++ ":8448".toList, n, n⟩]

/-- steps 1 and 2 applied to a name of known kind whose Host header is `hdr`; `none` = not finished -/
def direct (hdr : Str) : Kind → Option (List Target)
  | .literal ip none => some [⟨hostport ip "8448".toList, hdr, ip⟩]      -- step 1 / 3.1, default port
  | .literal ip (some _) => some [⟨hdr, hdr, ip⟩]                         -- step 1 / 3.1, explicit port
  | .named h (some _) => some [⟨hdr, hdr, h⟩]                             -- step 2 / 3.2
  | .named _ none => none

def resolve (o : Oracles) (name : Str) : Except Err (List Target) :=
  match classify name with
  | none => .error (.other "invalid-server-name")
  | some k =>
    match direct name k with
    | some ts => .ok ts
    | none =>
      match o.wk name with                                              -- step 3
      | some d =>
        match classify d with
        | none => .error (.other "invalid-server-name")                 -- an invalid delegated name is refused
        | some kd =>
          match direct d kd with
          | some ts => .ok ts                                           -- 3.1, 3.2
          | none => .ok (srvSteps o.srv d)                              -- 3.3, 3.4, 3.5
      | none => .ok (srvSteps o.srv name)                               -- 4, 5, 6

/-- Assumption on the resolver: a lookup that succeeds has at least one record.  (net.Resolver.LookupSRV
    reports "no such host" when there is no SRV data, and an error along with the records it keeps when it
    drops malformed ones.)  Nothing is assumed about the targets: the root `.` — a valid domain name, passed
    on by the resolver — and even an empty target are handled (finding R8; before its repair the code indexed
    into the target and turned the root into the destination ":port"). -/
def SrvSane (srv : Str → Str → SrvAnswer) : Prop :=
  ∀ svc n rs, srv svc n = .records rs → rs ≠ []

end Spec

end V.Resolve
