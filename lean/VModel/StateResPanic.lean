/-
  VModel.StateResPanic — the panic sites of state resolution (stateresolution.go, stateresolutionv2.go),
  made explicit on top of the executable model `VModel.StateRes`, which mirrors the same Go code
  without them.  Core Lean only.  Site inventory: `VModel/PanicSites.md`.

  Every function here returns `Except Err α`; `.error (.panic site)` exactly where the Go code reaches
  a panic (or, for the three recursions over auth events, a recursion deeper than the number of events
  supplied, i.e. one that does not end: the Go runtime then dies of stack exhaustion, which no
  `recover()` catches — the case before fix 0d78b57 for cyclic auth_events).  `VProps/C18.lean` proves

    (a) refinement: whenever no site fires, the result is exactly that of `VModel.StateRes` (so the
        C10 / C11 theorems about the model transfer unchanged), and
    (b) no site fires for inputs satisfying `Pre` (stated there).

  Sites carried (Go location → function here):
    S1  stateresolutionv2.go:246   `len(stateSets) < 2` explicit panic            → `resolveV2NewP`
    S2  stateresolutionv2.go:102,106,110 / 268,272,276  `x[0].RoomID()`           → `headRoomSite`
        stateresolution.go:165,168 `event.RoomID()` in `addAuthEvent`             → `addAuthEventSite`
    S3  stateresolutionv2.go:990   `MustGetRoomVersion(event.Version())`          → `versionSite` (in `reverseTopoAuthP`)
    S4  stateresolutionv2.go:139 / 307  `fullControlSet` recursion                → `fcs` / `controlSetSite`
    S5  stateresolutionv2.go:700   `createPowerLevelMainline.iter` recursion      → `mainlineIterP`
    S6  stateresolutionv2.go:748   `getFirstPowerLevelMainlineEvent.iter` recursion → `firstMainlineP`
    S7  stateresolutionv2.go:858 / stateresolution.go:277,309  panics inside `Allowed` (C07's sites) → `authAndApplyP`, `v1AllowedP`
    S8  stateresolution.go:119     `*event.StateKey()` in `addConflicted`         → `stateKeySite`
    S9  stateresolution.go:267     `block[0]` on an empty block                   → `resolveAuthBlockP`
  Sites of the same files with a guard in the same function (nothing to carry; see PanicSites.md):
  stateresolution.go:186,188,270,290,315,399,515; stateresolutionv2.go:584 (`fullAuthChains[0]`, guarded by S1),
  874 (`*sk`), 1086 / 1179 (`eventMap[eventID]` pushed only for input events).
-/
import VModel.StateRes
import VModel.EventParse
namespace V.StateResPanic
open V Json GoJson Auth StateRes

def sitePanic {α : Type} (s : String) : Except Err α := .error (.panic s)

/-! ## Leaf sites -/

/-- `PDU.RoomID()`: panics when `spec.NewRoomID` refuses the room ID the event reports
    (`none` = bracketed IPv6 literal, not modelled: taken as accepted) -/
def roomIDSite (e : Event) : Except Err Unit :=
  if EventParse.roomIDValid? e.roomID == some false then sitePanic "RoomID is invalid" else .ok ()

/-- `conflicted[0].RoomID()` etc. -/
def headRoomSite : List Event → Except Err Unit
  | [] => .ok ()
  | e :: _ => roomIDSite e

/-- `MustGetRoomVersion(event.Version())` -/
def versionSite (e : Event) : Except Err Unit :=
  if e.row.isNone then sitePanic "eventversion.go:446 MustGetRoomVersion" else .ok ()

/-- `*event.StateKey()` without a preceding nil check -/
def stateKeySite (e : Event) : Except Err Unit :=
  if e.stateKey.isNone then sitePanic "stateresolution.go:119 nil StateKey() dereferenced" else .ok ()

def forSites (f : Event → Except Err Unit) : List Event → Except Err Unit
  | [] => .ok ()
  | e :: rest => match f e with
    | .ok () => forSites f rest
    | .error x => .error x

/-! ## The three recursions over auth events (S4–S6)

  Until fix 0d78b57 these were unguarded: cyclic `auth_events` (possible in room versions 1 and 2, whose event IDs are
  chosen by the sender) sent each of them into a recursion that never returned (fatal stack overflow / a hang).
  They are kept as sites — `none` = the recursion is deeper than the fuel, which stands for "does not return" — and
  `VProofs/StateResNoPanic.lean` proves the fuel sufficient for EVERY input, cyclic or not. -/

/-- `fullControlSet(event)` with its shared `visited` map: an auth event is marked visited BEFORE it is looked up in
    the conflicted map and recursed into.  `none` = the recursion is deeper than `fuel`. -/
def fcs (confMap : List Event) : Nat → List ID → Event → Option (List ID)
  | 0, _, _ => none
  | d + 1, vis, e =>
    e.authEventIDs.foldlM (fun (vis : List ID) id =>
      if vis.contains id then some vis
      else match findByID confMap id with
        | some ev => fcs confMap d (insertID vis id) ev
        | none => some (insertID vis id)) vis

/-- The loop over the control roots.  Every descent marks one more event of the conflicted map, so the recursion is
    never deeper than the number of conflicted events + 1. -/
def controlSetSite (confMap : List Event) (roots : List Event) : Except Err Unit :=
  match roots.foldlM (fun vis p => fcs confMap (confMap.length + 2) vis p) [] with
  | some _ => .ok ()
  | none => sitePanic "stateresolutionv2.go:139/307 fullControlSet: unbounded recursion (cyclic auth_events)"

/-- `createPowerLevelMainline.iter`: `StateRes.mainlineIter` with the exhausted recursion explicit -/
def mainlineIterP (authMap : List Event) : Nat → List ID → Event → List Event → Option (List Event)
  | 0, _, _, _ => none
  | fuel + 1, path, e, acc =>
    (e.authEventIDs.filterMap (findByID authMap)).foldlM
      (fun a p => if isPLEvent p && !path.contains p.eventID then mainlineIterP authMap fuel (p.eventID :: path) p a else some a)
      (e :: acc)

def createMainlineP (authMap : List Event) (resolvedPL : Option Event) : Except Err (List Event) :=
  match resolvedPL with
  | none => .ok []
  | some pl =>
    match mainlineIterP authMap (authMap.length + 2) [] pl [] with
    | some m => .ok m
    | none => sitePanic "stateresolutionv2.go:700 createPowerLevelMainline: unbounded recursion (cyclic auth_events)"

/-- `getFirstPowerLevelMainlineEvent.iter`: `StateRes.firstMainline` with the exhausted recursion explicit -/
def firstMainlineP (authMap mainline : List Event) : Nat → List ID → Event → Nat × Nat → Option (Nat × Nat)
  | 0, _, _, _ => none
  | fuel + 1, path, e, st =>
    let rec go (ps : List Event) (st : Nat × Nat) : Option (Nat × Nat) :=
      match ps with
      | [] => some st
      | p :: rest =>
        if !isPLEvent p then go rest st
        else match mainlinePos mainline p.eventID with
          | some pos => some (pos, st.2)
          | none =>
            if path.contains p.eventID then go rest st
            else
              match firstMainlineP authMap mainline fuel (p.eventID :: path) p (st.1, st.2 + 1) with
              | some st' => go rest st'
              | none => none
    go (e.authEventIDs.filterMap (findByID authMap)) st

def otherKeyP (authMap mainline : List Event) (e : Event) : Except Err OtherKey :=
  match firstMainlineP authMap mainline (authMap.length + 2) [] e (0, 0) with
  | some (pos, steps) => .ok { pos := pos, steps := steps, ts := e.originServerTS, id := e.eventID }
  | none => sitePanic "stateresolutionv2.go:748 getFirstPowerLevelMainlineEvent: unbounded recursion (cyclic auth_events)"

def otherKeysP (authMap mainline : List Event) : List Event → Except Err (List (Event × OtherKey))
  | [] => .ok []
  | e :: rest =>
    match otherKeyP authMap mainline e with
    | .error x => .error x
    | .ok k => match otherKeysP authMap mainline rest with
      | .error x => .error x
      | .ok ks => .ok ((e, k) :: ks)

/-- `mainlineOrdering` -/
def mainlineOrderingP (authMap mainline : List Event) (evs : List Event) : Except Err (List Event) :=
  match otherKeysP authMap mainline evs with
  | .error x => .error x
  | .ok ks => .ok ((sortBy (fun (a b : Event × OtherKey) => otherLt a.2 b.2) ks).map (·.1))

/-- `reverseTopologicalOrdering(events, TopologicalOrderByAuthEvents)`: `getPowerLevelFromAuthEvents` asks for the
    room version of every event -/
def reverseTopoAuthP (authMap : List Event) (createEv : Option Event) (evs : List Event) : Except Err (List Event) :=
  match forSites versionSite evs with
  | .error x => .error x
  | .ok () => .ok (reverseTopoAuth authMap createEv evs)

/-! ## Auth checks (S7) -/

/-- `authAndApplyEvents`: a panic inside `allowed` is a panic of the resolver -/
def authAndApplyP (authMap : List Event) (rejected : List ID) : State → List Event → Except Err State
  | s, [] => .ok s
  | s, e :: rest =>
    match allowedFreshNoValid e (Provider.ofEvents (providerFor authMap rejected s e)) false with
    | .panic site => sitePanic site
    | .ok => authAndApplyP authMap rejected (applyEvents s [e]) rest
    | _ => authAndApplyP authMap rejected s rest

/-! ## The part the two v2 entry points share -/

/-- order the control events, auth them on top of `s1`, build the mainline from the power-levels event resolved so far,
    order the other events by it, auth them: (control order, others order, resulting state) -/
def tailP (authMap : List Event) (rejected : List ID) (createEv : Option Event) (s1 : State) (controlEvents others : List Event) :
    Except Err (List Event × List Event × State) :=
  match reverseTopoAuthP authMap createEv controlEvents with
  | .error x => .error x
  | .ok controlOrder =>
  match authAndApplyP authMap rejected s1 controlOrder with
  | .error x => .error x
  | .ok s2 =>
  match createMainlineP authMap (s2.get b!"m.room.power_levels" []) with
  | .error x => .error x
  | .ok mainline =>
  match mainlineOrderingP authMap mainline others with
  | .error x => .error x
  | .ok othersOrder =>
  match authAndApplyP authMap rejected s2 othersOrder with
  | .error x => .error x
  | .ok s3 => .ok (controlOrder, othersOrder, s3)

/-- the same steps in `VModel.StateRes` (where they are written out twice) -/
def tail (authMap : List Event) (rejected : List ID) (createEv : Option Event) (s1 : State) (controlEvents others : List Event) :
    List Event × List Event × State :=
  let controlOrder := reverseTopoAuth authMap createEv controlEvents
  let s2 := authAndApply authMap rejected s1 controlOrder
  let mainline := createMainline authMap (s2.get b!"m.room.power_levels" [])
  let othersOrder := mainlineOrdering authMap mainline others
  (controlOrder, othersOrder, authAndApply authMap rejected s2 othersOrder)

/-! ## ResolveStateConflictsV2New -/

/-- v2 applies the unconflicted events first, in reverse topological order (v2.1 starts from the empty state) -/
def unconflictedFirstP (algo : Nat) (authMap : List Event) (createEv : Option Event) (unconflicted : List Event) : Except Err State :=
  if algo == 2 then
    match reverseTopoAuthP authMap ((State.get [] b!"m.room.create" []).orElse (fun _ => createEv)) unconflicted with
    | .error x => .error x
    | .ok l => .ok (applyEvents [] l)
  else .ok []

def resolveV2NewP (algo : Nat) (sets : List (List Event)) (auth : List Event) (rejected : List ID) : Except Err Stages :=
  if sets.length < 2 then sitePanic "stateresolutionv2.go:246 must provide at least 2 stateSets to resolve conflicts" else
  let (conflicted, unconflicted) := splitConflictedUnconflicted false sets
  match headRoomSite conflicted, headRoomSite unconflicted, headRoomSite auth with
  | .error x, _, _ => .error x
  | _, .error x, _ => .error x
  | _, _, .error x => .error x
  | .ok (), .ok (), .ok () =>
  if conflicted.isEmpty && unconflicted.isEmpty && auth.isEmpty then
    .ok { conflicted := [], unconflicted := [], authDiff := [], control := [], others := [], controlOrder := [],
          othersOrder := [], result := [] }
  else
  let authMap := eventMapFromEvents auth
  let confMap := eventMapFromEvents conflicted
  let createEv := match getCreateEvent unconflicted with
    | some c => some c
    | none => match getCreateEvent auth with
      | some c => some c
      | none => getCreateEvent conflicted
  let unconfIDs := unconflicted.map (·.eventID)
  let authDiff := authDifferenceNew algo authMap conflicted sets
  let fullConflicted := conflicted ++ authDiff
  let roots := fullConflicted.filter (fun p => !unconfIDs.contains p.eventID && isControlEvent p)
  match controlSetSite confMap roots with
  | .error x => .error x
  | .ok () =>
  let controlIDs := controlClosure confMap (confMap.length + 1) roots (eventMapFromEvents roots |>.map (·.eventID))
  let lookupAny (id : ID) : Option Event := match findByID fullConflicted id with
    | some e => some e
    | none => findByID confMap id
  let controlEvents := controlIDs.filterMap lookupAny
  let others := (eventMapFromEvents fullConflicted).filter (fun p =>
    !unconfIDs.contains p.eventID && !isControlEvent p && !controlIDs.contains p.eventID)
  match unconflictedFirstP algo authMap createEv unconflicted with
  | .error x => .error x
  | .ok s1 =>
  let createFor (s : State) : Option Event := match s.get b!"m.room.create" [] with
    | some c => some c
    | none => createEv
  match tailP authMap rejected (createFor s1) s1 controlEvents others with
  | .error x => .error x
  | .ok (controlOrder, othersOrder, s3) =>
  let s4 := applyEvents s3 unconflicted
  .ok { conflicted := conflicted.map (·.eventID), unconflicted := unconfIDs, authDiff := authDiff.map (·.eventID),
        control := controlIDs, others := others.map (·.eventID), controlOrder := controlOrder.map (·.eventID),
        othersOrder := othersOrder.map (·.eventID), result := s4.map (·.2.eventID) }

/-! ## ResolveStateConflictsV2 (deprecated) -/

def resolveV2OldP (conflicted unconflicted auth : List Event) (rejected : List ID) : Except Err (List ID) :=
  match getCreateEvent auth with
  | none => .ok []
  | some _ =>
    match headRoomSite conflicted, headRoomSite unconflicted, headRoomSite auth with
    | .error x, _, _ => .error x
    | _, .error x, _ => .error x
    | _, _, .error x => .error x
    | .ok (), .ok (), .ok () =>
    let authMap := eventMapFromEvents auth
    let confMap := eventMapFromEvents conflicted
    let unconfIDs := unconflicted.map (·.eventID)
    let authDiff := authDifferenceOld authMap confMap
    let fullConflicted := conflicted ++ authDiff
    let roots := fullConflicted.filter (fun p => !unconfIDs.contains p.eventID && isControlEvent p)
    match controlSetSite confMap roots with
    | .error x => .error x
    | .ok () =>
    let controlIDs := controlClosure confMap (confMap.length + 1) roots (eventMapFromEvents roots |>.map (·.eventID))
    let lookupAny (id : ID) : Option Event := match findByID fullConflicted id with
      | some e => some e
      | none => findByID confMap id
    let controlEvents := controlIDs.filterMap lookupAny
    let others := (eventMapFromEvents fullConflicted).filter (fun p =>
      !unconfIDs.contains p.eventID && !isControlEvent p && !controlIDs.contains p.eventID)
    let s1 := applyEvents [] unconflicted
    match tailP authMap rejected (s1.get b!"m.room.create" []) s1 controlEvents others with
    | .error x => .error x
    | .ok (_, _, s3) =>
    let s4 := applyEvents s3 unconflicted
    .ok (s4.map (·.2.eventID))

/-! ## Version 1 (stateresolution.go) -/

/-- `addAuthEvent`: `RoomID()` is called on every event that has a state key -/
def addAuthEventSite (e : Event) : Except Err Unit :=
  if e.stateKey.isNone then .ok () else roomIDSite e

/-- `Allowed(event, r, userIDForSender) == nil`, a panic inside being a panic of the resolver -/
def v1AllowedP (s : V1State) (valid : Bool) (e : Event) : Except Err Bool :=
  match allowedFresh e (s.provider valid) false with
  | .panic site => sitePanic site
  | v => .ok (v == .ok)

/-- the loop of `resolveAuthBlock` -/
def authBlockGoP (valid : Bool) : V1State → Event → List Event → Except Err (Event × V1State)
  | s, result, [] => .ok (result, s)
  | s, result, e :: more =>
    match v1AllowedP s valid e with
    | .error x => .error x
    | .ok true =>
      (match addAuthEventSite e with
       | .error x => .error x
       | .ok () => authBlockGoP valid (s.addAuthEvent e) e more)
    | .ok false => .ok (result, s)

/-- `resolveAuthBlock` -/
def resolveAuthBlockP (sha : ID → Bytes) (valid : Bool) (s : V1State) (evs : List Event) : Except Err (Option Event × V1State) :=
  match sortV1 sha evs with
  | [] => sitePanic "stateresolution.go:267 block[0] on an empty block"
  | first :: rest =>
    match addAuthEventSite first with
    | .error x => .error x
    | .ok () =>
      let prev := s.authEventAt first.type (first.stateKey.getD [])
      match authBlockGoP valid (s.addAuthEvent first) first rest with
      | .error x => .error x
      | .ok (result, s') =>
        let s'' := s'.removeAuthEvent result.type (result.stateKey.getD [])
        -- (`addAuthEvent(previous)`: `previous.RoomID()` returned when `previous` was first added)
        .ok (some result, match prev with
          | some p => s''.addAuthEvent p
          | none => s'')

/-- the search of `resolveNormalBlock` from the newest event down -/
def normalFindP (s : V1State) (valid : Bool) : List Event → Except Err (Option Event)
  | [] => .ok none
  | e :: more =>
    match v1AllowedP s valid e with
    | .error x => .error x
    | .ok true => .ok (some e)
    | .ok false => normalFindP s valid more

/-- `resolveNormalBlock` (its blocks are never empty: `addConflicted` creates a block for its first event) -/
def resolveNormalBlockP (sha : ID → Bytes) (valid : Bool) (s : V1State) (evs : List Event) : Except Err (Option Event) :=
  match sortV1 sha evs with
  | [] => .ok none
  | first :: rest =>
    match normalFindP s valid rest.reverse with
    | .error x => .error x
    | .ok (some e) => .ok (some e)
    | .ok none => .ok (some first)

def authBlocksLoopP (sha : ID → Bytes) (valid : Bool) : V1State × List Event → List (List Event) → Except Err (V1State × List Event)
  | acc, [] => .ok acc
  | acc, block :: more =>
    if block.isEmpty then authBlocksLoopP sha valid acc more else
    match resolveAuthBlockP sha valid acc.1 block with
    | .error x => .error x
    | .ok (some e, st) => authBlocksLoopP sha valid (st, acc.2 ++ [e]) more
    | .ok (none, st) => authBlocksLoopP sha valid (st, acc.2) more

/-- `resolveAndAddAuthBlocks` -/
def resolveAndAddAuthBlocksP (sha : ID → Bytes) (valid : Bool) (s : V1State) (blocks : List (List Event)) :
    Except Err (V1State × List Event) :=
  match authBlocksLoopP sha valid (s, []) blocks with
  | .error x => .error x
  | .ok (s', results) =>
    -- (every result went through `addAuthEvent` inside `resolveAuthBlock` already: its `RoomID()` returned)
    .ok (results.foldl (fun st e => st.addAuthEvent e) s', results)

def normalBlocksP (sha : ID → Bytes) (valid : Bool) (s : V1State) : List (List Event) → Except Err (List Event)
  | [] => .ok []
  | b :: more =>
    match resolveNormalBlockP sha valid s b with
    | .error x => .error x
    | .ok r => match normalBlocksP sha valid s more with
      | .error x => .error x
      | .ok rs => .ok (r.toList ++ rs)

/-- `ResolveStateConflicts` -/
def resolveV1P (sha : ID → Bytes) (conflicted auth : List Event) : Except Err (List Event) :=
  match forSites stateKeySite conflicted with
  | .error x => .error x
  | .ok () =>
  match forSites addAuthEventSite auth with
  | .error x => .error x
  | .ok () =>
  let groups := groupByKey conflicted
  let isKey (t : Bytes) (g : (Bytes × Bytes) × List Event) : Bool := g.1.1 == t
  let single (t : Bytes) : List Event := ((groups.filter (fun g => g.1 == (t, []))).map (·.2)).flatten
  let creates := single b!"m.room.create"
  let pls := single b!"m.room.power_levels"
  let jrs := single b!"m.room.join_rules"
  let special (g : (Bytes × Bytes) × List Event) : Bool :=
    g.1 == (b!"m.room.create", []) || g.1 == (b!"m.room.power_levels", []) || g.1 == (b!"m.room.join_rules", [])
  let tpis := (groups.filter (fun g => !special g && isKey b!"m.room.third_party_invite" g)).map (·.2)
  let members := (groups.filter (fun g => !special g && isKey b!"m.room.member" g)).map (·.2)
  let others := (groups.filter (fun g => !special g && !isKey b!"m.room.third_party_invite" g && !isKey b!"m.room.member" g)).map (·.2)
  let roomIDs := auth.foldl (fun acc (e : Event) => if acc.contains e.roomID then acc else acc ++ [e.roomID]) ([] : List Bytes)
  let valid := roomIDs.length ≤ 1
  let s0 := auth.foldl (fun (st : V1State) e => st.addAuthEvent e) {}
  match resolveAndAddAuthBlocksP sha valid s0 [creates] with
  | .error x => .error x
  | .ok (s1, r1) =>
  match resolveAndAddAuthBlocksP sha valid s1 [pls] with
  | .error x => .error x
  | .ok (s2, r2) =>
  match resolveAndAddAuthBlocksP sha valid s2 [jrs] with
  | .error x => .error x
  | .ok (s3, r3) =>
  match resolveAndAddAuthBlocksP sha valid s3 tpis with
  | .error x => .error x
  | .ok (s4, r4) =>
  match resolveAndAddAuthBlocksP sha valid s4 members with
  | .error x => .error x
  | .ok (s5, r5) =>
  match normalBlocksP sha valid s5 others with
  | .error x => .error x
  | .ok r6 => .ok (r1 ++ r2 ++ r3 ++ r4 ++ r5 ++ r6)

/-! ## Entry points -/

/-- `ResolveConflictsNew` (`.ok none` = unknown version / algorithm: an error is returned) -/
def resolveConflictsNewP (sha : ID → Bytes) (ver : Bytes) (sets : List (List Event)) (auth : List Event) (rejected : List ID) :
    Except Err (Option (List ID)) :=
  match versionRow? ver with
  | none => .ok none
  | some row =>
    if row.stateResAlgorithm == 1 then
      let (conflicted, notConflicted) := splitConflictedUnconflicted true sets
      match resolveV1P sha conflicted auth with
      | .error x => .error x
      | .ok r => .ok (some ((r ++ notConflicted).map (·.eventID)))
    else if row.stateResAlgorithm == 2 || row.stateResAlgorithm == 3 then
      match resolveV2NewP row.stateResAlgorithm sets auth rejected with
      | .error x => .error x
      | .ok st => .ok (some st.result)
    else .ok none

/-- `ResolveConflicts` (deprecated) -/
def resolveConflictsOldP (sha : ID → Bytes) (ver : Bytes) (events auth : List Event) (rejected : List ID) :
    Except Err (Option (List ID)) :=
  match versionRow? ver with
  | none => .ok none
  | some row =>
    let (conflicted, notConflicted) := splitConflictedUnconflicted true [events]
    if row.stateResAlgorithm == 1 then
      match resolveV1P sha conflicted auth with
      | .error x => .error x
      | .ok r => .ok (some ((r ++ notConflicted).map (·.eventID)))
    else if row.stateResAlgorithm == 2 || row.stateResAlgorithm == 3 then
      match resolveV2OldP conflicted notConflicted auth rejected with
      | .error x => .error x
      | .ok r => .ok (some r)
    else .ok none

/-- `ReverseTopologicalOrdering(input, TopologicalOrderByAuthEvents)` (empty auth map: no recursion; the power of every
    sender is looked up, which asks for the room version) -/
def reverseTopoAuthEntryP (evs : List Event) : Except Err (List Event) :=
  reverseTopoAuthP [] (getCreateEvent evs) evs

/-- `ReverseTopologicalOrdering(input, TopologicalOrderByPrevEvents)`: with the empty auth map of the public entry
    point `getFirstPowerLevelMainlineEvent` finds no auth event and does not recurse: no site. -/
def reverseTopoPrevEntryP (evs : List Event) : Except Err (List Event) := .ok (reverseTopoPrev evs)

end V.StateResPanic
