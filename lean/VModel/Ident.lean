/-
  VModel.Ident — executable model of the identifier grammars of /repo/spec (C17):
    spec/servername.go  ParseAndValidateServerName, splitServerName, isDNSNameChar
    spec/userid.go      parseAndValidateUserID (both values of allowHistoricalIDs)
    spec/roomid.go      parseAndValidateRoomID (incl. the domainless 43-character form)
    event.go            SplitID, checkID ; eventcontent.go domainFromID
  plus a model of Go's `net.ParseIP` (Go ≥ 1.22: netip.ParseAddr with zones refused) and of
  `strconv.ParseUint(s, 10, 16)`, which are std-lib functions the code above calls (trusted base,
  validated by the correspondence check only: ops ident.parseip / ident.isip).

  Go strings are byte strings: everything here works on `List UInt8`.  Core Lean only.

  The SPECIFICATION (grammar written from the property text, independent of the parsers) is in the
  namespace `V.Ident.Spec` at the end of the file.
-/
namespace V.Ident

abbrev BS := List UInt8

/-! ## small string helpers (strings.Cut, strings.LastIndex, strings.Contains) -/

/-- `strings.Cut(s, sep)` / `strings.SplitN(s, sep, 2)` for a one-byte separator: split at the FIRST `sep`. -/
def cut (sep : UInt8) : BS → Option (BS × BS)
  | [] => none
  | c :: cs =>
    if c == sep then some ([], cs)
    else match cut sep cs with
      | some (a, b) => some (c :: a, b)
      | none => none

/-- split at the LAST `sep` (`strings.LastIndex` + two slices). -/
def cutLast (sep : UInt8) : BS → Option (BS × BS)
  | [] => none
  | c :: cs =>
    match cutLast sep cs with
    | some (a, b) => some (c :: a, b)
    | none => if c == sep then some ([], cs) else none

def isDigit (c : UInt8) : Bool := 0x30 ≤ c && c ≤ 0x39

/-! ## strconv.ParseUint(s, 10, 16)

  Go: "" is a syntax error; every byte must be a decimal digit (no sign, no '_' in base 10);
  `n1 > maxVal` (65535) is a range error, raised at the first digit that makes the value too big
  (so leading zeros are fine, any number of them).  Both error kinds are one outcome here: the
  caller only tests `err != nil`. -/
def parseUintLoop : BS → Nat → Option Nat
  | [], n => some n
  | c :: cs, n =>
    if isDigit c then
      let n1 := n * 10 + (c.toNat - 0x30)
      if n1 > 65535 then none else parseUintLoop cs n1
    else none

def parseUint16 (s : BS) : Option Nat :=
  if s.isEmpty then none else parseUintLoop s 0

/-! ## net.ParseIP  (netip.ParseAddr; Go 1.22+) -/

/-- `parseIPv4Fields`: dotted quad, no leading zeros, each field ≤ 255, exactly four fields.
    `prev` is the previous byte (`none` at i = 0), `fields` the octets stored so far (`pos = fields.length`). -/
def ipv4Loop : BS → Option UInt8 → Nat → Nat → List UInt8 → Option (List UInt8)
  | [], _, val, _, fields =>
    if fields.length < 3 then none            -- "IPv4 address too short"
    else some (fields ++ [UInt8.ofNat val])
  | c :: rest, prev, val, digLen, fields =>
    if isDigit c then
      if digLen == 1 && val == 0 then none     -- octet with leading zero
      else
        let v := val * 10 + (c.toNat - 0x30)
        if v > 255 then none else ipv4Loop rest (some c) v (digLen + 1) fields
    else if c == 0x2E then
      -- i == 0 || i == len(s)-1 || s[i-1] == '.'
      if prev.isNone || rest.isEmpty || prev == some 0x2E then none
      else if fields.length == 3 then none     -- "IPv4 address too long"
      else ipv4Loop rest (some c) 0 0 (fields ++ [UInt8.ofNat val])
    else none                                  -- unexpected character

def parseIPv4 (s : BS) : Option (List UInt8) := ipv4Loop s none 0 0 []

def hexVal? (c : UInt8) : Option Nat :=
  if 0x30 ≤ c && c ≤ 0x39 then some (c.toNat - 0x30)
  else if 0x61 ≤ c && c ≤ 0x66 then some (c.toNat - 0x61 + 10)
  else if 0x41 ≤ c && c ≤ 0x46 then some (c.toNat - 0x41 + 10)
  else none

/-- the inner hex loop of parseIPv6: returns (value, number of digits, rest); a fifth digit fails. -/
def scanHex : BS → Nat → Nat → Option (Nat × Nat × BS)
  | [], off, acc => some (acc, off, [])
  | c :: cs, off, acc =>
    match hexVal? c with
    | none => some (acc, off, c :: cs)
    | some d => if off > 3 then none else scanHex cs (off + 1) (acc * 16 + d)

/-- The `for i < 16` loop of parseIPv6.  `ip` holds the bytes written so far (`i = ip.length`, always
    even inside the loop), `slots = (16 - i) / 2` is the loop bound made structural, `ell` the position
    of the ellipsis.  Returns the bytes, the ellipsis and the unconsumed rest of the string. -/
def v6Loop : Nat → BS → List UInt8 → Option Nat → Option (List UInt8 × Option Nat × BS)
  | 0, s, ip, ell => some (ip, ell, s)
  | slots + 1, s, ip, ell =>
    match scanHex s 0 0 with
    | none => none                                         -- more than 4 digits in a group
    | some (acc, off, rest) =>
      if off == 0 then none                                -- no digits
      else if rest.head? == some 0x2E then
        -- followed by a dot: trailing embedded IPv4
        if ell.isNone && ip.length != 12 then none
        else if ip.length + 4 > 16 then none
        else match parseIPv4 s with
          | none => none
          | some f => some (ip ++ f, ell, [])
      else
        let ip := ip ++ [UInt8.ofNat (acc / 256), UInt8.ofNat (acc % 256)]
        match rest with
        | [] => some (ip, ell, [])
        | c :: rest1 =>
          if c != 0x3A then none                           -- unexpected character, want colon
          else match rest1 with
            | [] => none                                   -- colon must be followed by more characters
            | c2 :: rest2 =>
              if c2 == 0x3A then
                if ell.isSome then none                    -- multiple ::
                else if rest2.isEmpty then some (ip, some ip.length, [])
                else v6Loop slots rest2 ip (some ip.length)
              else v6Loop slots rest1 ip ell

/-- the tail of parseIPv6: run the loop, then "must have used entire string", expand the ellipsis -/
def parseIPv6Go (s : BS) (ell : Option Nat) : Option (List UInt8) :=
  match v6Loop 8 s [] ell with
  | none => none
  | some (ip, ell, rest) =>
    if !rest.isEmpty then none                            -- trailing garbage
    else if ip.length < 16 then
      match ell with
      | none => none                                      -- address string too short
      | some e => some (ip.take e ++ List.replicate (16 - ip.length) 0 ++ ip.drop e)
    else if ell.isSome then none                          -- :: must expand to at least one field
    else some ip

/-- parseIPv6 on a string without zone. -/
def parseIPv6 (s0 : BS) : Option (List UInt8) :=
  match s0 with
  | 0x3A :: 0x3A :: r => if r.isEmpty then some (List.replicate 16 0) else parseIPv6Go r (some 0)
  | _ => parseIPv6Go s0 none

def v4Prefix : List UInt8 := [0, 0, 0, 0, 0, 0, 0, 0, 0, 0, 0xff, 0xff]

/-- `net.ParseIP`: the 16-byte form, or none.  ParseAddr dispatches on the first of '.', ':', '%'.
    A '%' makes the result invalid in every case: before any '.'/':' it is "missing IPv6 address";
    in the IPv4 parser it is an unexpected character; in the IPv6 parser it splits off a zone, and
    either the zone is empty (error) or it is not and net.ParseIP refuses addresses with zones. -/
def parseIP (s : BS) : Option (List UInt8) :=
  match s.find? (fun c => c == 0x2E || c == 0x3A || c == 0x25) with
  | some c =>
    if c == 0x2E then (parseIPv4 s).map (fun f => v4Prefix ++ f)
    else if c == 0x3A then (if s.contains 0x25 then none else parseIPv6 s)
    else none
  | none => none

/-- `ip.To4() != nil` on the 16-byte form. -/
def isV4 (ip : List UInt8) : Bool := ip.take 12 == v4Prefix

/-! ## spec/servername.go -/

def isDNSNameChar (c : UInt8) : Bool :=
  (0x41 ≤ c && c ≤ 0x5A) || (0x61 ≤ c && c ≤ 0x7A) || (0x30 ≤ c && c ≤ 0x39) || c == 0x2D || c == 0x2E

/-- splitServerName: (host, port) with `none` for the Go result -1. -/
def splitServerName (s : BS) : BS × Option Nat :=
  match cutLast 0x3A s with
  | none => (s, none)
  | some (pre, post) =>
    match parseUint16 post with
    | none => (s, none)                  -- invalid port (possibly an ipv6 host)
    | some p => (pre, some p)

/-- the checks ParseAndValidateServerName applies to the host part -/
def hostValid (host : BS) : Bool :=
  if host.isEmpty then false
  else if host.head? == some 0x5B then
    if host.getLast? != some 0x5D then false
    else (parseIP (host.drop 1).dropLast).isSome
  else if (match parseIP host with | some ip => isV4 ip | none => false) && !host.contains 0x3A then true
  else host.all isDNSNameChar

/-- ParseAndValidateServerName: `some (host, port)` when valid. -/
def parseServerName (s : BS) : Option (BS × Option Nat) :=
  if s.isEmpty then none
  else
    let hp := splitServerName s
    if hostValid hp.1 then some hp else none

/-! ## spec/userid.go -/

/-- the character class of validUsernameRegex `^[0-9a-z_\-=./]+$` -/
def isUserChar (c : UInt8) : Bool :=
  (0x30 ≤ c && c ≤ 0x39) || (0x61 ≤ c && c ≤ 0x7A) || c == 0x5F || c == 0x2D || c == 0x3D || c == 0x2E || c == 0x2F

/-- historicallyValidCharacters: the range check is commented out in the code; it returns true. -/
def historicallyValidCharacters (_localpart : BS) : Bool := true

/-- parseAndValidateUserID: `some (localpart, domain)` when valid. -/
def parseUserID (s : BS) (allowHistorical : Bool) : Option (BS × BS) :=
  if s.length < 4 || s.length > 255 then none
  else match s with
    | [] => none
    | c :: rest =>
      if c != 0x40 then none
      else match cut 0x3A rest with
        | none => none
        | some (lp, domain) =>
          if (parseServerName domain).isNone then none
          else if lp.length < 1 then none
          else if allowHistorical then
            (if historicallyValidCharacters lp then some (lp, domain) else none)
          else
            (if !lp.isEmpty && lp.all isUserChar then some (lp, domain) else none)

/-! ## spec/roomid.go -/

/-- character class of domainlessRoomIDRegexp `^[A-Za-z0-9_-]{43}$` -/
def isUrlSafeB64Char (c : UInt8) : Bool :=
  (0x41 ≤ c && c ≤ 0x5A) || (0x61 ≤ c && c ≤ 0x7A) || (0x30 ≤ c && c ≤ 0x39) || c == 0x5F || c == 0x2D

def domainlessMatch (s : BS) : Bool := s.length == 43 && s.all isUrlSafeB64Char

/-- parseAndValidateRoomID: `some (opaqueID, some domain)` or `some (opaqueID, none)` (domainless). -/
def parseRoomID (s : BS) : Option (BS × Option BS) :=
  if s.length < 4 || s.length > 255 then none
  else match s with
    | [] => none
    | c :: rest =>
      if c != 0x21 then none
      else if !s.contains 0x3A then
        (if domainlessMatch rest then some (rest, none) else none)
      else match cut 0x3A rest with
        | none => none
        | some (opq, domain) =>
          if (parseServerName domain).isNone then none
          else if opq.length < 1 then none
          else some (opq, some domain)

/-! ## event.go: SplitID, checkID; eventcontent.go: domainFromID -/

inductive SplitIDResult where
  | ok (localpart domain : BS)
  | error
  | panic          -- slice bounds out of range: `parts[0][1:]` with an empty parts[0]
  deriving DecidableEq, Repr

/-- SplitID(sigil, id): no validation beyond the sigil and the first ':'.  `parts[0][1:]` panics when
    parts[0] is empty, which needs id[0] == sigil == ':' (no caller passes ':' as a sigil). -/
def splitID (sigil : UInt8) (id : BS) : SplitIDResult :=
  match id with
  | [] => .error
  | c :: _ =>
    if c != sigil then .error
    else match cut 0x3A id with
      | none => .error
      | some (p0, p1) =>
        match p0 with
        | [] => .panic
        | _ :: l => .ok l p1

def domainFromID (id : BS) : Option BS := (cut 0x3A id).map (·.2)

/-- utf8.RuneCountInString on VALID UTF-8 (event fields come out of encoding/json, which only produces
    valid UTF-8): the number of bytes that are not continuation bytes. -/
def runeCount (s : BS) : Nat := (s.filter (fun b => b &&& 0xC0 != 0x80)).length

inductive IDCheck where
  | ok
  | invalid              -- no ':' or wrong sigil: plain error
  | tooLarge             -- EventValidationTooLarge, not persistable
  | tooLargePersistable  -- EventValidationTooLarge, Persistable = true
  deriving DecidableEq, Repr

/-- checkID(id, kind, sigil) with maxIDLength as a parameter (regenerated: VGen) -/
def checkID (maxID : Nat) (id : BS) (sigil : UInt8) : IDCheck :=
  match domainFromID id with
  | none => .invalid
  | some _ =>
    match id with
    | [] => .invalid   -- unreachable: an id with a ':' is not empty (Go indexes id[0] here)
    | c :: _ =>
      if c != sigil then .invalid
      else if runeCount id > maxID then .tooLarge
      else if id.length > maxID then .tooLargePersistable
      else .ok

/-! ## SPECIFICATION: the grammars as the property states them

  "User IDs, room IDs and server names are accepted exactly when they match their grammar (sigil,
   non-empty parts, length limit, host as DNS name / IPv4 / bracketed IPv6, optional port up to 65535,
   43-character URL-safe base64 for domainless room IDs), an accepted identifier reports parts that
   re-concatenate to the input".

  Independent, declarative recognisers (written from the grammar, not from the parser: splitting on
  separators and checking every candidate decomposition).  Choices where the property text is silent
  (all follow the code and are listed in the report):
   * no length cap on server names themselves (only on user / room IDs: 255 bytes);
   * a DNS name is a non-empty string over [A-Za-z0-9.-] (the spec appendix's `dns-name`), no label rules;
   * IPv4 text inside brackets (`[1.2.3.4]`) counts as a bracketed IP literal;
   * a port is a non-empty digit string of value ≤ 65535; leading zeros are allowed; the spec grammar's
     `1*5DIGIT` is not enforced by the code ("example.com:000080"), the driver marks ports with more
     than 5 digits `unspecified`;
   * the user-ID localpart character class is the one of the spec version the code cites (v1.4:
     digits, a-z, and the five characters _ = . / and hyphen; '+', added in spec v1.8, is not in it); historical user IDs: any non-empty
     localpart without ':' (the code disables the range check on purpose, see its comment);
   * the opaque part of a room ID: any non-empty byte string without ':'.
-/
namespace Spec

/-- A–Z a–z 0–9 - . -/
def dnsChars : List UInt8 :=
  [0x41, 0x42, 0x43, 0x44, 0x45, 0x46, 0x47, 0x48, 0x49, 0x4A, 0x4B, 0x4C, 0x4D, 0x4E, 0x4F, 0x50, 0x51, 0x52, 0x53, 0x54, 0x55, 0x56, 0x57, 0x58, 0x59, 0x5A, 0x61, 0x62, 0x63, 0x64, 0x65, 0x66, 0x67, 0x68, 0x69, 0x6A, 0x6B, 0x6C, 0x6D, 0x6E, 0x6F, 0x70, 0x71, 0x72, 0x73, 0x74, 0x75, 0x76, 0x77, 0x78, 0x79, 0x7A, 0x30, 0x31, 0x32, 0x33, 0x34, 0x35, 0x36, 0x37, 0x38, 0x39, 0x2D, 0x2E]
/-- 0–9 a–z _ - = . / -/
def userChars : List UInt8 :=
  [0x30, 0x31, 0x32, 0x33, 0x34, 0x35, 0x36, 0x37, 0x38, 0x39, 0x61, 0x62, 0x63, 0x64, 0x65, 0x66, 0x67, 0x68, 0x69, 0x6A, 0x6B, 0x6C, 0x6D, 0x6E, 0x6F, 0x70, 0x71, 0x72, 0x73, 0x74, 0x75, 0x76, 0x77, 0x78, 0x79, 0x7A, 0x5F, 0x2D, 0x3D, 0x2E, 0x2F]
/-- A–Z a–z 0–9 - _ -/
def urlB64Chars : List UInt8 :=
  [0x41, 0x42, 0x43, 0x44, 0x45, 0x46, 0x47, 0x48, 0x49, 0x4A, 0x4B, 0x4C, 0x4D, 0x4E, 0x4F, 0x50, 0x51, 0x52, 0x53, 0x54, 0x55, 0x56, 0x57, 0x58, 0x59, 0x5A, 0x61, 0x62, 0x63, 0x64, 0x65, 0x66, 0x67, 0x68, 0x69, 0x6A, 0x6B, 0x6C, 0x6D, 0x6E, 0x6F, 0x70, 0x71, 0x72, 0x73, 0x74, 0x75, 0x76, 0x77, 0x78, 0x79, 0x7A, 0x30, 0x31, 0x32, 0x33, 0x34, 0x35, 0x36, 0x37, 0x38, 0x39, 0x2D, 0x5F]
/-- 0–9 a–f A–F -/
def hexChars : List UInt8 :=
  [0x30, 0x31, 0x32, 0x33, 0x34, 0x35, 0x36, 0x37, 0x38, 0x39, 0x61, 0x62, 0x63, 0x64, 0x65, 0x66, 0x41, 0x42, 0x43, 0x44, 0x45, 0x46]
/-- 0–9 -/
def digitChars : List UInt8 :=
  [0x30, 0x31, 0x32, 0x33, 0x34, 0x35, 0x36, 0x37, 0x38, 0x39]

def decValue (ds : BS) : Nat := ds.foldl (fun n d => n * 10 + (d.toNat - 0x30)) 0

/-- split on a separator byte (k separators ↦ k+1 fields) -/
def splitOn (sep : UInt8) : BS → List BS
  | [] => [[]]
  | c :: cs =>
    if c == sep then [] :: splitOn sep cs
    else match splitOn sep cs with
      | [] => [[c]]          -- unreachable: splitOn never returns []
      | f :: fs => (c :: f) :: fs

def isDnsName (h : BS) : Bool := !h.isEmpty && h.all (dnsChars.contains ·)

/-- dec-octet: a non-empty digit string without leading zero whose value is at most 255 (hence 1–3 digits) -/
def isOctet (o : BS) : Bool :=
  !o.isEmpty && o.all (digitChars.contains ·) && (o.length == 1 || o.head? != some 0x30) && decValue o ≤ 255

def isIPv4 (h : BS) : Bool :=
  let fs := splitOn 0x2E h
  fs.length == 4 && fs.all isOctet

def isH16 (g : BS) : Bool := 1 ≤ g.length && g.length ≤ 4 && g.all (hexChars.contains ·)

/-- number of 16-bit units of a ':'-separated list of groups (all h16; the last one may be an IPv4
    dotted quad if `v4last`), or none if some group is malformed.  The empty string has 0 units. -/
def units (s : BS) (v4last : Bool) : Option Nat :=
  if s.isEmpty then some 0
  else
    let gs := splitOn 0x3A s
    let front := gs.dropLast
    match gs.getLast? with
    | none => none
    | some last =>
      if !front.all isH16 then none
      else if isH16 last then some gs.length
      else if v4last && isIPv4 last then some (gs.length + 1)
      else none

/-- first occurrence of "::" : (before, after) -/
def cutEllipsis : BS → Option (BS × BS)
  | [] => none
  | [_] => none
  | a :: b :: rest =>
    if a == 0x3A && b == 0x3A then some ([], rest)
    else match cutEllipsis (b :: rest) with
      | some (l, r) => some (a :: l, r)
      | none => none

/-- RFC 4291 §2.2 text forms: 8 groups; or one "::" standing for at least one group of zeros; the last
    two groups may be written as an IPv4 dotted quad. -/
def isIPv6 (s : BS) : Bool :=
  match cutEllipsis s with
  | none => units s true == some 8
  | some (l, r) =>
    match units l false, units r true with
    | some a, some b => a + b ≤ 7
    | _, _ => false

def isIPLiteral (s : BS) : Bool := isIPv4 s || isIPv6 s

/-- `[` IP literal `]`; `ipLit` recognises the literal -/
def isBracketedWith (ipLit : BS → Bool) (h : BS) : Bool :=
  match h with
  | 0x5B :: rest => rest.getLast? == some 0x5D && ipLit rest.dropLast
  | _ => false

def isHostWith (ipLit : BS → Bool) (h : BS) : Bool := isDnsName h || isIPv4 h || isBracketedWith ipLit h

def isPort (p : BS) : Bool := !p.isEmpty && p.all (digitChars.contains ·) && decValue p ≤ 65535

/-- every way of writing `s = pre ++ ":" ++ post` -/
def colonSplits : BS → List (BS × BS)
  | [] => []
  | c :: cs =>
    let r := (colonSplits cs).map (fun (a, b) => (c :: a, b))
    if c == 0x3A then ([], cs) :: r else r

/-- server-name = host [ ":" port ] : the decompositions that satisfy the grammar -/
def serverNameParsesWith (ipLit : BS → Bool) (s : BS) : List (BS × Option Nat) :=
  (if isHostWith ipLit s then [(s, none)] else []) ++
  ((colonSplits s).filter (fun hp => isHostWith ipLit hp.1 && isPort hp.2)).map (fun hp => (hp.1, some (decValue hp.2)))

def isServerNameWith (ipLit : BS → Bool) (s : BS) : Bool := !(serverNameParsesWith ipLit s).isEmpty

def maxIDBytes : Nat := 255

/-- `@localpart:server-name`: the decompositions (localpart, domain) that satisfy the grammar.  The
    localpart contains no ':' (so the first ':' separates; the domain may contain more).
    `sn` recognises server names. -/
def userIDParsesWith (sn : BS → Bool) (historical : Bool) (s : BS) : List (BS × BS) :=
  if s.length > maxIDBytes then []
  else match s with
    | 0x40 :: rest =>
      (colonSplits rest).filter (fun ld =>
        !ld.1.contains 0x3A && !ld.1.isEmpty && (historical || ld.1.all (userChars.contains ·)) && sn ld.2)
    | _ => []

/-- `!opaque:server-name` or `!` + 43 URL-safe base64 characters (no domain), at most 255 bytes -/
def roomIDParsesWith (sn : BS → Bool) (s : BS) : List (BS × Option BS) :=
  if s.length > maxIDBytes then []
  else match s with
    | 0x21 :: rest =>
      (if !rest.contains 0x3A && rest.length == 43 && rest.all (urlB64Chars.contains ·) then [(rest, none)] else []) ++
      ((colonSplits rest).filter (fun od => !od.1.contains 0x3A && !od.1.isEmpty && sn od.2)).map
        (fun od => (od.1, some od.2))
    | _ => []

/-! the grammar proper: IP literals are RFC 4291 / dotted-quad texts -/
def isHost (h : BS) : Bool := isHostWith isIPLiteral h
def serverNameParses (s : BS) : List (BS × Option Nat) := serverNameParsesWith isIPLiteral s
def isServerName (s : BS) : Bool := isServerNameWith isIPLiteral s
def userIDParses (historical : Bool) (s : BS) : List (BS × BS) := userIDParsesWith isServerName historical s
def isUserID (historical : Bool) (s : BS) : Bool := !(userIDParses historical s).isEmpty
def roomIDParses (s : BS) : List (BS × Option BS) := roomIDParsesWith isServerName s
def isRoomID (s : BS) : Bool := !(roomIDParses s).isEmpty

end Spec
end V.Ident
