/-
  VModel.FedReq — executable model of federation request authentication, fclient/request.go:
    FederationRequest.fields, NewFederationRequest, SetContent, Sign, HTTPRequest,
    isSafeInHTTPQuotedString, ParseAuthorization, readHTTPRequest, VerifyHTTPRequest
  mirrored statement by statement.  Go strings are byte strings: `Bytes` throughout.  Core Lean only.

  External calls are parameters:
    * net/http, net/url, mime (std-lib): the *http.Request the receiver sees is the structure `HttpReq`
      (method, URL.RequestURI(), body, the result of mime.ParseMediaType on Content-Type, the
      Authorization header values); `urlRequestURI` is the result of parsing "matrix://dest+uri".
    * the JSONVerifier (keys.VerifyJSONs): a function `Verifier`; `keyRingVerifier` mirrors what a
      gomatrixserverlib.KeyRing with a key database does (keyring.go: VerifyJSONs / checkUsingKeys /
      WasValidAt / StrictValiditySignatureCheck, signing.go: VerifyJSON) over an abstract signature check.
    * cryptography: `sigOK pk payload sig` — abstract; idealised only by explicit hypotheses (VProps.C13).
    * canonical JSON: the signing payload is `canon (message without "signatures")`; the driver runs
      `canon := encodeCanon` (VModel.Json, C01).

  Round 3 (K5 / K7).  A Go string that is not valid UTF-8 cannot be carried by the signed JSON object (json.Marshal
  rewrites every invalid sequence to U+FFFD, on both sides): `Sign` refuses such a method / URI / origin /
  destination and `readHTTPRequest` refuses a transmitted request that has one (`fieldNotUTF8`).  SignJSON and
  VerifyJSON refuse a message with duplicate member names or ill-formed strings (signing.go: checkStrictJSON);
  in json.Marshal(fields) only the embedded raw content can be such a text: `contentSignStrict`, checked by `sign`
  (SignJSON: duplicate names, lone surrogate escapes), and `contentStrict` (VerifyJSON: also invalid UTF-8), checked
  inside the key ring by `gatedCheck`.
-/
import VModel.Json
import VModel.Sign
import VModel.Resolve
namespace V.FedReq
open V.Json

/-- a Go string -/
abbrev Str := Bytes

open Lean in
/-- `bz!"text"` is the UTF-8 byte list of a string literal, expanded at elaboration time (a plain list
    literal, so that `decide` and `simp` can compute with it). -/
macro "bz!" s:str : term => do
  let bs := s.getString.toUTF8.toList
  let elems ← bs.mapM (fun (x : UInt8) => `(($(quote x.toNat) : UInt8)))
  `(([$(elems.toArray),*] : List UInt8))

/-! ## The fields structure and its JSON form -/

/-- FederationRequest.fields.  `signatures` is `Signatures[origin]` (key ID ↦ signature text); the code
    never stores signatures of another server name. -/
structure Fields where
  content : Option Bytes        -- RawJSON; `none` = nil (omitted by omitempty)
  destination : Str
  method : Str
  origin : Str
  uri : Str
  signatures : List (Str × Str)
  deriving Repr, DecidableEq

/-- the members json.Marshal(fields) writes, except "signatures": `content` only when present -/
def unsignedMembers (content : Option JVal) (destination method origin uri : Str) : List (Bytes × JVal) :=
  (match content with
   | some c => [(bz!"content", c)]
   | none => []) ++
  [(bz!"destination", JVal.str destination), (bz!"method", JVal.str method), (bz!"origin", JVal.str origin), (bz!"uri", JVal.str uri)]

/-- the object the signature is computed over (signing.go deletes "signatures" and "unsigned") -/
def signingObject (content : Option JVal) (destination method origin uri : Str) : JVal :=
  .obj (unsignedMembers content destination method origin uri)

/-- json.Marshal writes a Go string as a JSON string only for valid UTF-8 without change (invalid
    bytes would be replaced by U+FFFD: outside the modelled domain). -/
def marshalable (f : Fields) : Bool :=
  utf8Valid f.destination && utf8Valid f.method && utf8Valid f.origin && utf8Valid f.uri &&
  f.signatures.all (fun kv => utf8Valid kv.1 && utf8Valid kv.2)

/-- content as a JSON value: `none` = json.Marshal(fields) fails (RawJSON that is not valid JSON) -/
def contentValue (c : Option Bytes) : Option (Option JVal) :=
  match c with
  | none => some none
  | some raw =>
    if raw.isEmpty then some none        -- omitempty on an empty (non-nil) RawJSON
    else match parse raw with
      | some p => some (some p.toJVal)
      | none => none

/-- The gate of VerifyJSON (signing.go: checkStrictJSON(message, true)) on json.Marshal(fields).  The encoder writes
    the string fields and the signature map itself (distinct names, well-formed strings); the raw content is
    embedded as it is (compacted), so the message passes the gate iff the content does: every string and member
    name valid UTF-8 with properly paired surrogate escapes, no object with two members of the same name. -/
def contentStrict (c : Option Bytes) : Bool :=
  match c with
  | none => true
  | some raw =>
    if raw.isEmpty then true
    else match parse raw with
      | some p => p.wellFormed && p.noDupKeys
      | none => false

/-- The gate as SignJSON applies it (`checkStrictJSON(message, false)`: no UTF-8 clause — a body that is not valid
    UTF-8 is signed as before and refused by the receiver's readHTTPRequest). -/
def contentSignStrict (c : Option Bytes) : Bool :=
  match c with
  | none => true
  | some raw =>
    if raw.isEmpty then true
    else match parse raw with
      | some p => V.Sign.pairedOk p && p.noDupKeys
      | none => false

/-- the four signed string fields are valid UTF-8 -/
def fieldsUTF8 (f : Fields) : Bool :=
  utf8Valid f.destination && utf8Valid f.method && utf8Valid f.origin && utf8Valid f.uri

/-! ## isSafeInHTTPQuotedString, header rendering -/

def safeByte (c : UInt8) : Bool :=
  c == 0x09 || c == 0x20 || c == 0x21 || (0x23 ≤ c && c ≤ 0x5B) || (0x5D ≤ c && c ≤ 0x7E) || 0x80 ≤ c

def isSafeInHTTPQuotedString (t : Str) : Bool := t.all safeByte

/-- fmt.Sprintf("X-Matrix origin=\"%s\",key=\"%s\",sig=\"%s\",destination=\"%s\"", origin, keyID, sig, destination) -/
def authHeader (origin key sig destination : Str) : Str :=
  bz!"X-Matrix origin=\"" ++ origin ++ bz!"\",key=\"" ++ key ++ bz!"\",sig=\"" ++ sig ++ bz!"\",destination=\"" ++ destination ++ bz!"\""

/-! ## strings.* on byte strings -/

/-- strings.SplitN(s, sep, 2) for a one-byte separator: `none` = no separator (one piece) -/
def splitFirst (sep : UInt8) : Bytes → Bytes → Option (Bytes × Bytes)
  | [], _ => none
  | c :: rest, acc => if c == sep then some (acc.reverse, rest) else splitFirst sep rest (c :: acc)

/-- strings.Split(s, sep) for a one-byte separator -/
def splitAll (sep : UInt8) : Bytes → Bytes → List Bytes
  | [], cur => [cur.reverse]
  | c :: rest, cur => if c == sep then cur.reverse :: splitAll sep rest [] else splitAll sep rest (c :: cur)

/-- length of the white-space rune (unicode.IsSpace) a byte string starts with, 0 if none:
    ASCII \t \n \v \f \r space; U+0085, U+00A0; U+1680, U+2000-200A, U+2028, U+2029, U+202F, U+205F, U+3000 -/
def leadingSpaceLen : Bytes → Nat
  | 0xC2 :: 0x85 :: _ => 2
  | 0xC2 :: 0xA0 :: _ => 2
  | 0xE1 :: 0x9A :: 0x80 :: _ => 3
  | 0xE2 :: 0x80 :: c :: _ => if (0x80 ≤ c && c ≤ 0x8A) || c == 0xA8 || c == 0xA9 || c == 0xAF then 3 else 0
  | 0xE2 :: 0x81 :: 0x9F :: _ => 3
  | 0xE3 :: 0x80 :: 0x80 :: _ => 3
  | c :: _ => if c == 0x09 || c == 0x0A || c == 0x0B || c == 0x0C || c == 0x0D || c == 0x20 then 1 else 0
  | [] => 0

def trimLeftSpace : Nat → Bytes → Bytes
  | 0, s => s
  | fuel + 1, s =>
    match leadingSpaceLen s with
    | 0 => s
    | n => trimLeftSpace fuel (s.drop n)

/-- the white-space rune a *reversed* byte string starts with (i.e. the original ends with) -/
def trailingSpaceLenRev : Bytes → Nat
  | 0x85 :: 0xC2 :: _ => 2
  | 0xA0 :: 0xC2 :: _ => 2
  | 0x80 :: 0x9A :: 0xE1 :: _ => 3
  | 0x9F :: 0x81 :: 0xE2 :: _ => 3
  | 0x80 :: 0x80 :: 0xE3 :: _ => 3
  | c :: 0x80 :: 0xE2 :: _ =>
    if (0x80 ≤ c && c ≤ 0x8A) || c == 0xA8 || c == 0xA9 || c == 0xAF then 3
    else if c == 0x09 || c == 0x0A || c == 0x0B || c == 0x0C || c == 0x0D || c == 0x20 then 1 else 0
  | c :: _ => if c == 0x09 || c == 0x0A || c == 0x0B || c == 0x0C || c == 0x0D || c == 0x20 then 1 else 0
  | [] => 0

def trimRightSpaceRev : Nat → Bytes → Bytes
  | 0, s => s
  | fuel + 1, s =>
    match trailingSpaceLenRev s with
    | 0 => s
    | n => trimRightSpaceRev fuel (s.drop n)

/-- strings.TrimSpace -/
def trimSpace (s : Bytes) : Bytes :=
  let l := trimLeftSpace (s.length + 1) s
  (trimRightSpaceRev (l.length + 1) l.reverse).reverse

def dropQuotes : Bytes → Bytes
  | 0x22 :: rest => dropQuotes rest
  | s => s

/-- strings.Trim(s, "\"") -/
def trimQuotes (s : Bytes) : Bytes := (dropQuotes (dropQuotes s).reverse).reverse

/-! ## ParseAuthorization -/

structure Auth where
  scheme : Str
  origin : Str
  destination : Str
  key : Str
  sig : Str
  deriving Repr, DecidableEq

def xMatrix : Bytes := bz!"X-Matrix"

/-- the four `if name == "..."` assignments of the loop body -/
def applyParam (name value : Str) (a : Auth) : Auth :=
  let a := if name == bz!"origin" then { a with origin := value } else a
  let a := if name == bz!"key" then { a with key := value } else a
  let a := if name == bz!"sig" then { a with sig := value } else a
  if name == bz!"destination" then { a with destination := value } else a

/-- the loop over `strings.Split(parts[1], ",")`: later parameters overwrite earlier ones -/
def parseParams : List Bytes → Auth → Auth
  | [], a => a
  | data :: rest, a =>
    match splitFirst 0x3D data [] with
    | none => parseParams rest a
    | some (n, v) => parseParams rest (applyParam (trimSpace n) (trimQuotes (trimSpace v)) a)

def parseAuthorization (header : Str) : Auth :=
  match splitFirst 0x20 header [] with
  | none => ⟨header, [], [], [], []⟩                     -- one piece: scheme only
  | some (scheme, rest) =>
    if scheme != xMatrix then ⟨scheme, [], [], [], []⟩
    else parseParams (splitAll 0x2C rest []) ⟨scheme, [], [], [], []⟩

/-! ## The HTTP request as the receiver sees it -/

structure HttpReq where
  method : Str
  requestURI : Str                   -- req.URL.RequestURI()
  body : Bytes
  /-- mime.ParseMediaType(req.Header.Get("Content-Type")): `none` = error -/
  mediaType : Option Str
  authorization : List Str           -- req.Header["Authorization"]
  deriving Repr, DecidableEq

inductive ReadErr where
  | contentType | notJSONType | notUTF8 | badXMatrix | differentOrigins
  | fieldNotUTF8        -- method / request URI / origin / destination is not valid UTF-8
  deriving Repr, DecidableEq

/-- insert / overwrite in `Signatures[origin]` -/
def setSig (sigs : List (Str × Str)) (key sig : Str) : List (Str × Str) :=
  if sigs.any (fun kv => kv.1 == key) then sigs.map (fun kv => if kv.1 == key then (key, sig) else kv)
  else sigs ++ [(key, sig)]

/-- the loop over the Authorization headers -/
def readAuth : List Str → Fields → Except ReadErr Fields
  | [], f => .ok f
  | h :: rest, f =>
    let a := parseAuthorization h
    if a.scheme != xMatrix then readAuth rest f           -- unknown types of Authorization are ignored
    else if a.origin.isEmpty || a.key.isEmpty || a.sig.isEmpty then .error .badXMatrix
    else if !f.origin.isEmpty && f.origin != a.origin then .error .differentOrigins
    else if !(utf8Valid a.origin && utf8Valid a.destination) then .error .fieldNotUTF8
    else readAuth rest { f with origin := a.origin, destination := a.destination, signatures := setSig f.signatures a.key a.sig }

def applicationJSON : Bytes := bz!"application/json"

def readHTTPRequest (req : HttpReq) : Except ReadErr Fields :=
  if !(utf8Valid req.method && utf8Valid req.requestURI) then .error .fieldNotUTF8 else
  let f0 : Fields := ⟨none, [], req.method, [], req.requestURI, []⟩
  let withContent : Except ReadErr Fields :=
    if req.body.length != 0 then
      match req.mediaType with
      | none => .error .contentType
      | some t =>
        if t != applicationJSON then .error .notJSONType
        else if !utf8Valid req.body then .error .notUTF8
        else .ok { f0 with content := some req.body }
    else .ok f0
  match withContent with
  | .error e => .error e
  | .ok f => readAuth req.authorization f

/-! ## The verifier -/

inductive VerifyOutcome where
  | fatal        -- VerifyJSONs returned an error (500)
  | rejected     -- results[0].Error != nil (401)
  | accepted
  deriving Repr, DecidableEq

/-- keys.VerifyJSONs for one request: server name, timestamp (ms), and the message: the unsigned members
    (as a JSON object) plus the signatures of that server. -/
abbrev Verifier := (origin : Str) → (atTs : Nat) → (unsignedObj : JVal) → (sigs : List (Str × Str)) → VerifyOutcome

/-- spec.AsTimestamp(now) for a non-negative time -/
abbrev Millis := Nat

/-! ## VerifyHTTPRequest -/

inductive Refusal where
  | badRequest       -- 400
  | unauthorized     -- 401
  | internal         -- 500
  | unmodelled       -- a field is not valid UTF-8: json.Marshal would rewrite it (outside the model)
  deriving Repr, DecidableEq

def validServerName (name : Str) : Bool :=
  match String.fromUTF8? (ByteArray.mk name.toArray) with
  | some s => (Resolve.parseAndValidate s.toList).isSome
  | none => false

def verifyHTTPRequest (req : HttpReq) (now : Millis) (destination : Str) (isLocal : Option (Str → Bool))
    (verifier : Verifier) : Except Refusal Fields :=
  match readHTTPRequest req with
  | .error _ => .error .badRequest
  | .ok request =>
    let destCheck : Except Refusal Fields :=
      if !request.destination.isEmpty then
        match isLocal with
        | some loc => if !loc request.destination then .error .badRequest else .ok request
        | none => if destination != request.destination then .error .badRequest else .ok request
      else .ok { request with destination := destination }
    match destCheck with
    | .error e => .error e
    | .ok request =>
      if !marshalable request then .error .unmodelled else
      -- toVerify, err := json.Marshal(request.fields)
      match contentValue request.content with
      | none => .error .badRequest                               -- "Invalid JSON"
      | some content =>
        if request.origin.isEmpty then .error .unauthorized      -- missing X-Matrix header
        else if !validServerName request.origin then .error .badRequest
        else
          match verifier request.origin now
              (signingObject content request.destination request.method request.origin request.uri) request.signatures with
          | .fatal => .error .internal
          | .rejected => .error .unauthorized
          | .accepted => .ok request

/-! ## The sender: NewFederationRequest, SetContent, Sign, HTTPRequest -/

def upperByte (c : UInt8) : UInt8 := if 0x61 ≤ c && c ≤ 0x7A then c - 0x20 else c

/-- NewFederationRequest (strings.ToUpper on an ASCII method) -/
def newRequest (method origin destination uri : Str) : Fields :=
  ⟨none, destination, method.map upperByte, origin, uri, []⟩

inductive SendErr where
  | setContent | sign | build | unmodelled
  deriving Repr, DecidableEq

/-- SetContent(spec.RawJSON(raw)): json.Marshal validates the raw text (and re-spells it: the value is
    unchanged; the bytes kept here are the ones given). -/
def setContent (f : Fields) (raw : Bytes) : Except SendErr Fields :=
  if f.content.isSome then .error .setContent
  else if !f.signatures.isEmpty then .error .setContent
  else if (parse raw).isNone then .error .setContent
  else .ok { f with content := some raw }

/-- Sign: the origin becomes `serverName`; the signature is made over the canonical form of the unsigned
    members; the fields are then re-read from the signed canonical JSON, which leaves the content in
    canonical form. `mkSig payloadObject` is ed25519.Sign + base64. -/
def sign (f : Fields) (serverName keyID : Str) (mkSig : JVal → Str) : Except SendErr Fields :=
  if !f.origin.isEmpty && f.origin != serverName then .error .sign
  else
    let f := { f with origin := serverName }
    -- a field that is not valid UTF-8 cannot be carried by the signed JSON object: refused
    if !fieldsUTF8 f then .error .sign else
    -- (residue: a key ID, or the text of an earlier signature, that is not valid UTF-8)
    if !marshalable f || !utf8Valid keyID then .error .unmodelled else
    match contentValue f.content with
    | none => .error .sign
    | some content =>
      -- SignJSON(json.Marshal(fields)) begins with checkStrictJSON(message, false)
      if !contentSignStrict f.content then .error .sign else
      let canonContent : Except SendErr (Option Bytes) := match f.content with
        | none => .ok none
        | some raw => if raw.isEmpty then .ok none else
          match canonical raw with
          | .ok c => .ok (some c)
          | .error _ => .error .sign
      match canonContent with
      | .error e => .error e
      | .ok cc =>
        let sig := mkSig (signingObject content f.destination f.method f.origin f.uri)
        .ok { f with content := cc, signatures := setSig f.signatures keyID sig }

/-- RFC 7230 token characters (net/http validMethod) -/
def isTokenByte (c : UInt8) : Bool :=
  (0x30 ≤ c && c ≤ 0x39) || (0x41 ≤ c && c ≤ 0x5A) || (0x61 ≤ c && c ≤ 0x7A) ||
  c == 0x21 || c == 0x23 || c == 0x24 || c == 0x25 || c == 0x26 || c == 0x27 || c == 0x2A || c == 0x2B ||
  c == 0x2D || c == 0x2E || c == 0x5E || c == 0x5F || c == 0x60 || c == 0x7C || c == 0x7E

/-- HTTPRequest.  `urlRequestURI` = RequestURI() of url.Parse("matrix://" + destination + uri), `none` on a
    parse error (net/url is std-lib).  http.NewRequest turns an empty method into GET. -/
def httpRequest (f : Fields) (urlRequestURI : Option Str) : Except SendErr HttpReq :=
  if !(f.method.isEmpty || f.method.all isTokenByte) then .error .build
  else
    match urlRequestURI with
    | none => .error .build
    | some ru =>
      if ru != f.uri then .error .build
      else
        let safe := isSafeInHTTPQuotedString f.origin && isSafeInHTTPQuotedString f.destination &&
          f.signatures.all (fun kv => isSafeInHTTPQuotedString kv.1)
        if !f.signatures.isEmpty && !safe then .error .build
        else .ok {
          method := if f.method.isEmpty then bz!"GET" else f.method
          requestURI := ru
          body := f.content.getD []
          mediaType := if f.content.isSome then some applicationJSON else none
          authorization := f.signatures.map (fun kv => authHeader f.origin kv.1 kv.2 f.destination) }

/-! ## A key-ring verifier (keyring.go with a key database and no fetchers) -/

structure KeyEntry where
  server : Str
  keyID : Str
  pk : Nat                -- an abstract public key
  validUntil : Nat        -- ValidUntilTS (ms); 0 = PublicKeyNotValid
  expired : Nat           -- ExpiredTS (ms); 0 = PublicKeyNotExpired
  deriving Repr, DecidableEq

def sevenDaysMs : Nat := 7 * 24 * 3600 * 1000

/-- StrictValiditySignatureCheck; `wallclock` is time.Now() in ms -/
def strictValid (wallclock atTs validUntil : Nat) : Bool :=
  if validUntil == 0 then false
  else
    let vu := if validUntil > wallclock + sevenDaysMs then wallclock + sevenDaysMs else validUntil
    !(atTs > vu)

/-- PublicKeyLookupResult.WasValidAt -/
def wasValidAt (wallclock : Nat) (k : KeyEntry) (atTs : Nat) : Bool :=
  if k.expired != 0 then atTs < k.expired else strictValid wallclock atTs k.validUntil

def ed25519Prefix : Bytes := bz!"ed25519:"

/-- KeyRing.VerifyJSONs for one request against a key table: some supported key ID of the server must
    have a table entry that was valid at `atTs` and whose signature checks.  `dbError` = the database failed.
    `sigOK pk payloadObject sig` stands for base64 decoding + ed25519.Verify over the canonical payload. -/
def keyRingVerifier (table : List KeyEntry) (dbError : Bool) (wallclock : Nat)
    (sigOK : Nat → JVal → Str → Bool) : Verifier :=
  fun origin atTs obj sigs =>
    let ids := sigs.filter (fun kv => ed25519Prefix.isPrefixOf kv.1)
    if ids.isEmpty then .rejected               -- "not signed by ... with a supported algorithm"
    else if dbError then .fatal
    else if ids.any (fun kv =>
        table.any (fun k => k.server == origin && k.keyID == kv.1 && wasValidAt wallclock k atTs && sigOK k.pk obj kv.2))
      then .accepted else .rejected

/-- `VerifyJSON` as the key ring runs it on json.Marshal(request.fields), whose content is the transmitted body:
    the gate of signing.go (`contentStrict`), then base64 decoding + ed25519.Verify (`sigOK`). -/
def gatedCheck (body : Bytes) (sigOK : Nat → JVal → Str → Bool) : Nat → JVal → Str → Bool :=
  fun pk obj sig => contentStrict (some body) && sigOK pk obj sig

/-- VerifyHTTPRequest with a gomatrixserverlib.KeyRing (key database, no fetchers) as the JSONVerifier. -/
def verifyWithKeyRing (req : HttpReq) (now : Millis) (destination : Str) (isLocal : Option (Str → Bool))
    (table : List KeyEntry) (dbError : Bool) (wallclock : Nat) (sigOK : Nat → JVal → Str → Bool) : Except Refusal Fields :=
  verifyHTTPRequest req now destination isLocal (keyRingVerifier table dbError wallclock (gatedCheck req.body sigOK))

end V.FedReq
