/-
  VModel.HandshakeSpec — what C15 demands of each handler, as guard predicates over the handler's
  inputs ("returns … only if").  Written separately from the guard chains of VModel.Handshake;
  VProps/C15.lean proves `H input = ok out → Guards_H input` for each handler.

  Each predicate is restricted to what the handler's signature lets it see:
    * HandleMakeLeave receives no list of remote room versions: "the remote supports the room
      version" cannot be checked there (stated for HandleMakeJoin only).
    * HandleInvite receives neither an event ID nor a request origin: "event ID matches the
      request" and "sender belongs to the requesting server" are stated for HandleSendJoin only;
      for an invite the sender's server is the one whose signature is verified.
    * "local user" (authoriser of a restricted join): locality is the querier's contract
      (RestrictedRoomJoinInfo.JoinedUsers lists this server's users); the handler sees user IDs only.
-/
import VModel.Handshake
namespace V.Handshake.Spec
open V V.Handshake

/-! ### HandleSendJoin -/

/-- "it is a join": an `m.room.member` event (exactly that type — not a case variant, not another state event
    that happens to carry a `membership` field) whose content says `join`.  The property says "a join", not
    "an event whose content.membership is join": the event TYPE is part of the clause.  (Before round 4 this
    clause was transcribed from the code — membership only — and the handler's missing type check went unnoticed.) -/
def isJoin (i : SendJoinIn) : Bool :=
  i.evType == b!"m.room.member" && i.membership == some b!"join"

def sendJoinGuards (i : SendJoinIn) : Bool :=
  isJoin i                                                   -- it is a join
  && i.stateKey == some i.sender                             -- whose sender equals its state key
  && i.eventRoomID == i.roomID                               -- whose room matches the request
  && i.eventID == i.reqEventID                               -- whose event ID matches the request
  && i.senderDomain == some i.requestOrigin                  -- whose sender belongs to the requesting server
  && i.verify == .good                                       -- which that server has validly signed
  && i.curMembership != some b!"ban"                         -- whose target is not banned
  && (i.authorisedVia.isEmpty || i.userID i.authorisedVia == some i.localServer)   -- whose authorising user is local

/-! ### HandleMakeJoin -/

def templateOK (t : TemplateAns) : Bool :=
  match t with
  | .built ty stateOK allowed => ty == b!"m.room.member" && stateOK && allowed
  | _ => false

/-- the room restricts joins and the joiner has no pending invite: an authoriser is needed -/
def needsAuthoriser (i : MakeJoinIn) : Bool :=
  i.restrictedVersion &&
  (match i.q.joinRules with
   | .ans (some (some jr)) => isRestrictedRule jr.rule
   | _ => false) &&
  (match i.q.invitePending with
   | .ans false => true
   | _ => false)

def allowRules (i : MakeJoinIn) : List AllowRule :=
  match i.q.joinRules with
  | .ans (some (some jr)) => jr.allow
  | _ => []

def creatorsOf (i : MakeJoinIn) : List Bytes :=
  if i.privilegedCreators then
    match i.q.create with
    | .ans (some cs) => cs
    | _ => []
  else []

/-- entitled to invite: a creator (privileged-creator versions) or power level ≥ invite -/
def entitled (i : MakeJoinIn) (u : Bytes) : Bool :=
  (creatorsOf i).contains u ||
  (match i.q.powerLevels with
   | .ans (some (some pl)) => pl.invite ≤ pl.userLevel u
   | _ => false)

/-- the users that may authorise: joined users of an allowed room this server is resident in and the
    joiner belongs to, who are entitled to invite -/
def eligible (i : MakeJoinIn) : List Bytes :=
  (allowRules i).flatMap (fun rule =>
    if rule.type == b!"m.room_membership" && i.q.roomIDValid rule.roomID then
      match i.q.roomInfo rule.roomID with
      | .ans (some info) =>
        if info.localServerInRoom && info.userJoinedToRoom then
          info.joinedUsers.filterMap (fun u =>
            if u.type == b!"m.room.member" then
              match u.stateKey with
              | some id => if entitled i id then some id else none
              | none => none
            else none)
        else []
      | _ => []
    else [])

def makeJoinBasic (i : MakeJoinIn) : Bool :=
  i.remoteVersions.contains i.roomVersion && i.userDomain == i.requestOrigin && i.localServerInRoom

/-- the guards, as a predicate on the input alone (used for the specification stream) -/
def makeJoinGuards (i : MakeJoinIn) : Bool :=
  makeJoinBasic i &&
  (if needsAuthoriser i then (eligible i).any (fun via => templateOK (i.template via))
   else templateOK (i.template []))

/-! ### HandleMakeLeave -/

def makeLeaveGuards (i : MakeLeaveIn) : Bool :=
  i.userDomain == i.requestOrigin && i.localServerInRoom && templateOK i.template

/-! ### HandleInvite -/

def inviteGuards (i : InviteIn) : Bool :=
  i.eventType == b!"m.room.member" && i.membership == some b!"invite"   -- it is an invite
  && i.eventRoomID == i.roomID                               -- whose room matches the request
  && i.senderDomain.isSome && i.verify == .good              -- which the sender's server has validly signed
  && !((match i.knownRoom with | .ans true => true | _ => false) && i.curMembership == some b!"join")  -- target not already joined

/-! ### HandleInviteV3

  The pseudo-ID variant is handed a PROTO event by the requesting server and signs the event it builds from it with the
  invited user's room key.  There is no signature to verify and no event ID yet; what remains of the property's clause
  for invites: it is an invite (an `m.room.member` event with membership `invite`), its room matches the request, and the
  target is not already joined.  (Until round 4 no guard predicate existed for this handler — "C15 speaks of HandleInvite" —
  although the property's anchors name HandleInviteV3; the handler signed any proto event.) -/

def inviteV3Guards (i : InviteV3In) : Bool :=
  i.protoType == b!"m.room.member" && i.protoMembership == some b!"invite"   -- it is an invite
  && i.protoRoomID == i.common.roomID                                          -- whose room matches the request
  && !((match i.common.knownRoom with | .ans true => true | _ => false) && i.common.curMembership == some b!"join")  -- target not already joined

end V.Handshake.Spec
