/-
  VModel.HandshakeSpec — what C15 demands of each handler, as guard predicates over the handler's
  inputs ("returns … only if").  Written separately from the guard chains of VModel.Handshake;
  VProps/C15.lean proves `H input = ok out → Guards_H input` for each handler.

  Each predicate is restricted to what the handler's signature lets it see:
    * HandleMakeLeave receives no list of remote room versions: "the remote supports the room
      version" cannot be checked there (stated for HandleMakeJoin only).
    * HandleInvite receives neither an event ID nor a request origin: "event ID matches the
      request" and "sender belongs to the requesting server" are stated for HandleSendJoin only;
      for an invite the sender's server is the one whose signature is verified.
    * "local user" (authoriser of a restricted join): locality is the querier's contract
      (RestrictedRoomJoinInfo.JoinedUsers lists this server's users); the handler sees user IDs only.
    * HandleMakeJoin / HandleMakeLeave are handed BOTH names of the user: `UserID` (whose domain is compared with the
      requesting server) and `SenderID` (the sender and state key of the template).  That the two name the same user is the
      CALLER's contract, recorded here and not demanded of the handlers: their inputs carry no sender-ID querier to derive
      one from the other (in rooms with pseudo IDs the relation lives in the caller's database), and nothing is gained by a
      caller that breaks it — the template's sender must be a member allowed to join by the auth check that follows, and the
      send_join that completes the handshake is only accepted from the server the SENDER belongs to
      (`sendJoinGuards`: `senderDomain == requestOrigin`).  The harness always passes `SenderID = UserID.String()`.
    * "the resulting event passes the auth rules": the auth check runs on the event the caller's template builder made of
      the proto event, and the PROTO event is what is returned.  The harness ties the two: the proto event returned must be
      the one the template builder was shown (same type, sender, state key, room, content; outcome
      `ok-proto-not-the-checked-one` otherwise), and the builder builds from nothing else.
-/
import VModel.Handshake
namespace V.Handshake.Spec
open V V.Handshake

/-! ### HandleSendJoin -/

/-- "it is a join": an `m.room.member` event (exactly that type — not a case variant, not another state event
    that happens to carry a `membership` field) whose content says `join`.  The property says "a join", not
    "an event whose content.membership is join": the event TYPE is part of the clause.  (Before round 4 this
    clause was transcribed from the code — membership only — and the handler's missing type check went unnoticed.) -/
def isJoin (i : SendJoinIn) : Bool :=
  i.evType == b!"m.room.member" && i.membership == some b!"join"

def sendJoinGuards (i : SendJoinIn) : Bool :=
  isJoin i                                                   -- it is a join
  && i.stateKey == some i.sender                             -- whose sender equals its state key
  && i.eventRoomID == i.roomID                               -- whose room matches the request
  && i.eventID == i.reqEventID                               -- whose event ID matches the request
  && i.senderDomain == .dom i.requestOrigin                  -- whose sender belongs to the requesting server (a user ID was found)
  && i.verify == .good                                       -- which that server has validly signed
  && i.curMembership != some b!"ban"                         -- whose target is not banned
  && (i.authorisedVia.isEmpty || i.userID i.authorisedVia == some i.localServer)   -- whose authorising user is local

/-! ### HandleMakeJoin -/

def templateOK (t : TemplateAns) : Bool :=
  match t with
  | .built ty stateOK allowed => ty == b!"m.room.member" && stateOK && allowed
  | _ => false

/-- the room restricts joins and the joiner has no pending invite: an authoriser is needed -/
def needsAuthoriser (i : MakeJoinIn) : Bool :=
  i.restrictedVersion &&
  (match i.q.joinRules with
   | .ans (some (some jr)) => isRestrictedRule jr.rule
   | _ => false) &&
  (match i.q.invitePending with
   | .ans false => true
   | _ => false)

def allowRules (i : MakeJoinIn) : List AllowRule :=
  match i.q.joinRules with
  | .ans (some (some jr)) => jr.allow
  | _ => []

def creatorsOf (i : MakeJoinIn) : List Bytes :=
  if i.privilegedCreators then
    match i.q.create with
    | .ans (some cs) => cs
    | _ => []
  else []

/-- entitled to invite: a creator (privileged-creator versions) or power level ≥ invite -/
def entitled (i : MakeJoinIn) (u : Bytes) : Bool :=
  (creatorsOf i).contains u ||
  (match i.q.powerLevels with
   | .ans (some (some pl)) => pl.invite ≤ pl.userLevel u
   | _ => false)

/-- the users that may authorise: joined users of an allowed room this server is resident in and the
    joiner belongs to, who are entitled to invite -/
def eligible (i : MakeJoinIn) : List Bytes :=
  (allowRules i).flatMap (fun rule =>
    if rule.type == b!"m.room_membership" && i.q.roomIDValid rule.roomID then
      match i.q.roomInfo rule.roomID with
      | .ans (some info) =>
        if info.localServerInRoom && info.userJoinedToRoom then
          info.joinedUsers.filterMap (fun u =>
            if u.type == b!"m.room.member" then
              match u.stateKey with
              | some id => if entitled i id then some id else none
              | none => none
            else none)
        else []
      | _ => []
    else [])

def makeJoinBasic (i : MakeJoinIn) : Bool :=
  i.remoteVersions.contains i.roomVersion && i.userDomain == i.requestOrigin && i.localServerInRoom

/-- the guards, as a predicate on the input alone (used for the specification stream) -/
def makeJoinGuards (i : MakeJoinIn) : Bool :=
  makeJoinBasic i &&
  (if needsAuthoriser i then (eligible i).any (fun via => templateOK (i.template via))
   else templateOK (i.template []))

/-! ### HandleMakeLeave -/

def makeLeaveGuards (i : MakeLeaveIn) : Bool :=
  i.userDomain == i.requestOrigin && i.localServerInRoom && templateOK i.template

/-! ### HandleInvite -/

/-- the user-ID querier found a user for the sender -/
def senderKnown (a : SenderAns) : Bool :=
  match a with
  | .dom _ => true
  | _ => false

/-- the room is known to this server -/
def roomKnown (i : InviteIn) : Bool :=
  match i.knownRoom with
  | .ans true => true
  | _ => false

/-- "whose target is … already joined (invite)".  The TARGET of an invite event is its STATE KEY — not whichever user the
    caller names in `InvitedUser` / `InvitedSenderID` beside the event: `membershipOf` is asked about the event's own state
    key.  (Until round 5 the model carried one scripted answer, "the membership of the invited sender ID", the harness
    scripted it for the user it passed in, and the handler asked about that user: an invite FOR @bob:local, joined, handed
    over as an invite for @carol:local was counter-signed.)

    DECISION (H7) on `roomKnown`.  The conjunct stays, and it is part of the specification, not a mirror of the code.  The
    property speaks of a target that is "already joined" and lists, among the querier answers it quantifies over,
    "memberships" AND "resident rooms": membership is a fact of the room state THIS server holds.  A room this server does
    not know (`IsKnownRoom` = false — typically the very first contact with the room is this invite) has no local state,
    hence no local user can be joined to it in the sense of the property; an answer "join" of the membership querier for
    such a room contradicts the room querier's own answer, and the property's "only if" does not oblige the handler to
    believe the second answer over the first.  Reading the clause without the conjunct would make HandleInvite refuse
    invites on the strength of membership data for rooms it has no data about.  So: already joined := the room is known
    AND the target's current membership there is `join`. -/
def inviteTargetJoined (i : InviteIn) : Bool :=
  roomKnown i &&
  (match i.stateKey with
   | some target => i.membershipOf target == some b!"join"
   | none => false)

def inviteGuards (i : InviteIn) : Bool :=
  i.eventType == b!"m.room.member" && i.membership == some b!"invite"   -- it is an invite
  && i.eventRoomID == i.roomID                               -- whose room matches the request
  && senderKnown i.senderDomain && i.verify == .good         -- which the sender's server has validly signed
  && !inviteTargetJoined i                                   -- whose target (its state key) is not already joined

/-! ### HandleInviteV3

  The pseudo-ID variant is handed a PROTO event by the requesting server and signs the event it builds from it with the
  invited user's room key.  There is no signature to verify and no event ID yet; what remains of the property's clause
  for invites: it is an invite (an `m.room.member` event with membership `invite`), its room matches the request, and the
  target is not already joined.  (Until round 4 no guard predicate existed for this handler — "C15 speaks of HandleInvite" —
  although the property's anchors name HandleInviteV3; the handler signed any proto event.) -/

/-- the target of the invite HandleInviteV3 builds: the state key it gives the event, i.e. the sender ID
    `GetOrCreateSenderID` answered with — whatever `InvitedSenderID` the caller put into the input -/
def inviteV3TargetJoined (i : InviteV3In) : Bool :=
  roomKnown i.common &&
  (match i.invitedSenderID with
   | some target => i.common.membershipOf target == some b!"join"
   | none => false)

def inviteV3Guards (i : InviteV3In) : Bool :=
  i.protoType == b!"m.room.member" && i.protoMembership == some b!"invite"   -- it is an invite
  && i.protoRoomID == i.common.roomID                                          -- whose room matches the request
  && !inviteV3TargetJoined i                                                   -- whose target is not already joined

/-! ### PerformJoin: the event that comes back

  "PerformJoin returns a join": the JoinEvent of the response is the join THIS server made for the joining user — the
  property's other clauses (state passes the federation-response checks, create event of a known version) are about the
  state that comes with it.  Written from that sentence, not from `isWellFormedJoinMemberEvent`: the event returned is the
  event that was built and signed here, or an event the resident server sent back in its place that is an `m.room.member`
  event, of the room, with membership `join`, sent by the joining user with the joining user as state key, and that carries a
  valid signature of the joining user's own server — which only this server can have made, so that its redacted form is that
  of a join this server signed (the resident server may add its own signature and an unsigned section, nothing else).
  (Until round 5 `performJoin_ok_implies` said no more than "the event returned is `joinEventUsed`", and the driver decided
  with the code's own predicate which event that is.)

  Residue, stated: in `org.matrix.msc4014` the signature is that of the user's room key and `isSignedJoinEvent` does not
  check it (the repository's TestPerformJoinPseudoID answers send_join with a join signed by another key and expects it
  back); `joinEventOK` therefore fails there for a forged copy — a finding, not a theorem (`performJoinPseudo…`). -/

def joinEventOK {P} (i : PerformJoinIn P) (e : Event) : Prop :=
  e = i.built ∨
  ∃ r, i.remote = some r ∧ e = r.ev ∧ r.type = b!"m.room.member" ∧ r.membership = some b!"join" ∧ r.roomID = i.roomID ∧
    r.sender = i.senderID ∧ r.stateKey = some i.senderID ∧ (i.pseudoIDs = false → r.sigOK = true)

end V.Handshake.Spec
