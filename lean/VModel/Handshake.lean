/-
  VModel.Handshake — executable model of the join / leave / invite handshakes as GUARD CHAINS over
  abstract inputs and querier answers:
    handlejoin.go   HandleMakeJoin, checkRestrictedJoin, HandleSendJoin
    handleleave.go  HandleMakeLeave
    handleinvite.go HandleInvite, HandleInviteV3, handleInviteCommonChecks
    invite.go       GenerateStrippedState, abortIfAlreadyJoined, setUnsignedFieldForInvite
    performjoin.go  PerformJoin (acceptance path), checkEventsContainCreateEvent, isWellFormedJoinMemberEvent
  Core Lean only.

  Round 4: `SendJoinIn` carries the event TYPE (`evType`) and HandleSendJoin's event checks start with the type check
  (`event.Type() != spec.MRoomMember` → M_BAD_JSON) that the handler lacked; `InviteV3In` carries the proto event's type
  and membership and HandleInviteV3 refuses a proto event that is not an invite before it builds and signs anything.

  Inputs are (a) the request parameters, (b) event-shape facts as the PDU accessors report them,
  (c) the answers of the caller-supplied oracles: signature verifier, queriers, template builder,
  federation client; `Allowed` is an oracle bit (C07).  Every guard is taken in the order of the Go
  code; the result is the error CLASS (spec.MatrixError code / InternalServerError / other error) or
  the response.

  Round 5 (the repairs 61f1e3e..b9ca993 of /repo's handshake files):
    * the answer of the user-ID querier is three-valued (`SenderAns`): an error, a user ID, or NEITHER — `(nil, nil)`, what
      the repository's own test queriers answer for an unknown sender.  HandleSendJoin / HandleInvite treat the last like an
      error (before the repair they dereferenced the nil user ID);
    * the membership querier answers per sender ID (`membershipOf`); HandleInvite refuses an invite whose state key is
      neither the sender ID nor the user ID of the invited user it is handed, and asks for the membership of the EVENT's
      state key; HandleInviteV3 asks for the membership of the sender ID `GetOrCreateSenderID` returned (the state key of the
      event it builds), not of the `InvitedSenderID` of its input;
    * `isWellFormedJoinMemberEvent` requires the type `m.room.member` and the joiner as sender, and PerformJoin takes the
      remote's copy of the join event only if `VerifyEventSignatures` accepts it (user-ID room versions).

  The pseudo-ID room version (`org.matrix.msc4014`): HandleInviteV3 below; HandleSendJoin's pseudo-ID path, PerformInvite
  (both version families) and PerformJoin's pseudo-ID path (sender-ID creation, the `storeMXIDMappings` loop, where it sits
  relative to the checks) are in VModel.HandshakeInvite.  Not modelled (the driver answers `skip`): HandleInvite for that version.
  Caller contract assumed (the handlers panic otherwise, by explicit `panic("Missing …")`): queriers,
  verifier and context are non-nil; `HandleMakeJoinInput.RoomVersion` is a version this server knows
  (`MustGetRoomVersion`).
-/
import VModel.Event
import VModel.FedCheck
namespace V.Handshake
open V

inductive HErr where
  | matrix (code : String)       -- spec.MatrixError / IncompatibleRoomVersionError with this ErrCode
  | internal                     -- spec.InternalServerError
  | other                        -- an error value of the caller's own (template builder, StoreSenderID, …) passed through
  deriving DecidableEq, Repr, Inhabited

abbrev R := Except HErr

def eForbidden : HErr := .matrix "M_FORBIDDEN"
def eBadJSON : HErr := .matrix "M_BAD_JSON"
def eNotFound : HErr := .matrix "M_NOT_FOUND"
def eIncompatible : HErr := .matrix "M_INCOMPATIBLE_ROOM_VERSION"
def eUnsupported : HErr := .matrix "M_UNSUPPORTED_ROOM_VERSION"
def eUnableToAuthorise : HErr := .matrix "M_UNABLE_TO_AUTHORISE_JOIN"

/-- a querier call: it failed, or it answered -/
inductive QAns (α : Type) where
  | err
  | ans (a : α)
  deriving Inhabited

/-- answer of the caller's `spec.UserIDForSender` for the event's sender, as far as the handlers look at it -/
inductive SenderAns where
  | err                  -- an error
  | nil                  -- no error and no user ID: `(nil, nil)`
  | dom (d : Bytes)      -- a user ID, of this domain
  deriving DecidableEq, Repr, Inhabited

/-- answer of `JSONVerifier.VerifyJSONs` for the single request the handlers make -/
inductive VerifyAns where
  | callErr      -- VerifyJSONs itself returned an error
  | bad          -- results[0].Error != nil
  | good
  deriving DecidableEq, Repr, Inhabited

/-! ## checkRestrictedJoin -/

structure AllowRule where
  type : Bytes
  roomID : Bytes
  deriving Repr, Inhabited

structure JoinRules where
  rule : Bytes
  allow : List AllowRule
  deriving Repr, Inhabited

/-- what the code reads of a `PowerLevelContent` -/
structure PL where
  userLevel : Bytes → Int
  invite : Int

/-- one entry of `RestrictedRoomJoinInfo.JoinedUsers` as the loop sees it -/
structure JoinedUser where
  type : Bytes
  stateKey : Option Bytes
  deriving Repr, Inhabited

structure RoomInfo where
  localServerInRoom : Bool
  userJoinedToRoom : Bool
  joinedUsers : List JoinedUser
  deriving Repr, Inhabited

/-- the answers of the `RestrictedRoomJoinQuerier` (and of `spec.NewRoomID`) -/
structure RestrictedQ where
  /-- CurrentStateEvent(m.room.join_rules): error | nil event | event whose content decodes (`some`) or not (`none`) -/
  joinRules : QAns (Option (Option JoinRules))
  invitePending : QAns Bool
  /-- CurrentStateEvent(m.room.power_levels): error | nil | event whose `PowerLevels()` succeeds or not -/
  powerLevels : QAns (Option (Option PL))
  /-- CurrentStateEvent(m.room.create) (asked only with privileged creators): error | nil | CreatorsFromCreateEvent -/
  create : QAns (Option (List Bytes))
  /-- spec.NewRoomID(rule.RoomID) succeeds -/
  roomIDValid : Bytes → Bool
  /-- RestrictedRoomJoinInfo(room): error | nil | info -/
  roomInfo : Bytes → QAns (Option RoomInfo)

inductive CRJErr where
  | matrix (code : String)
  | generic                 -- fmt.Errorf(...): HandleMakeJoin turns it into InternalServerError
  deriving DecidableEq, Repr, Inhabited

def isRestrictedRule (r : Bytes) : Bool := r == b!"restricted" || r == b!"knock_restricted"

/-- `for _, memberEvent := range targetRoomInfo.JoinedUsers` -/
def pickAuthoriser (creators : List Bytes) (pl : PL) : List JoinedUser → Option Bytes
  | [] => none
  | u :: us =>
    if u.type != b!"m.room.member" then pickAuthoriser creators pl us else
    match u.stateKey with
    | none => pickAuthoriser creators pl us
    | some id =>
      if creators.contains id then some id
      else if pl.userLevel id < pl.invite then pickAuthoriser creators pl us
      else some id

/-- `for _, rule := range joinRules.Allow`: returns the authoriser found, else whether we were
    resident in every room we had to look at -/
def rulesLoop (q : RestrictedQ) (creators : List Bytes) (pl : PL) : List AllowRule → Bool → Option Bytes × Bool
  | [], resident => (none, resident)
  | rule :: rest, resident =>
    if rule.type != b!"m.room_membership" then rulesLoop q creators pl rest resident
    else if !q.roomIDValid rule.roomID then rulesLoop q creators pl rest resident
    else match q.roomInfo rule.roomID with
      | .err => rulesLoop q creators pl rest false
      | .ans none => rulesLoop q creators pl rest false
      | .ans (some info) =>
        if !info.localServerInRoom then rulesLoop q creators pl rest false
        else if !info.userJoinedToRoom then rulesLoop q creators pl rest resident
        else if info.joinedUsers.isEmpty then rulesLoop q creators pl rest resident
        else match pickAuthoriser creators pl info.joinedUsers with
          | some id => (some id, resident)
          | none => rulesLoop q creators pl rest resident

/-- the creators consulted: only room versions with privileged creators look the create event up -/
def creatorsFor (q : RestrictedQ) (privilegedCreators : Bool) : Except CRJErr (List Bytes) :=
  if privilegedCreators then
    match q.create with
    | .err => .error .generic
    | .ans none => .error .generic
    | .ans (some cs) => .ok cs
  else .ok []

/-- the part of checkRestrictedJoin after the power levels were obtained -/
def pickVia (q : RestrictedQ) (privilegedCreators : Bool) (pl : PL) (allow : List AllowRule) : Except CRJErr Bytes :=
  match creatorsFor q privilegedCreators with
  | .error e => .error e
  | .ok cs =>
    match rulesLoop q cs pl allow true with
    | (some id, _) => .ok id
    | (none, false) => .error (.matrix "M_UNABLE_TO_AUTHORISE_JOIN")
    | (none, true) => .error (.matrix "M_FORBIDDEN")

/-- `checkRestrictedJoin(…, privilegedCreators)`; the result is the authorising user ID ("" = none needed) -/
def checkRestrictedJoin (q : RestrictedQ) (privilegedCreators : Bool) : Except CRJErr Bytes :=
  match q.joinRules with
  | .err => .error .generic
  | .ans none => .ok []
  | .ans (some none) => .error .generic
  | .ans (some (some jr)) =>
    if !isRestrictedRule jr.rule then .ok [] else
    match q.invitePending with
    | .err => .error .generic
    | .ans true => .ok []
    | .ans false =>
      match q.powerLevels with
      | .err => .error .generic
      | .ans none => .error .generic
      | .ans (some none) => .error .generic
      | .ans (some (some pl)) => pickVia q privilegedCreators pl jr.allow

/-! ## HandleMakeJoin / HandleMakeLeave -/

/-- what `BuildEventTemplate(&proto)` returned and what the auth check makes of it -/
inductive TemplateAns where
  | err                     -- templateErr != nil (passed through unchanged)
  | nilEvent
  | nilState
  /-- `eventType`: event.Type(); `stateOK`: NewAuthEvents(state) succeeded (all state events have a
      state key); `allowed`: Allowed(event, provider) == nil -/
  | built (eventType : Bytes) (stateOK : Bool) (allowed : Bool)
  deriving Repr, Inhabited

structure MakeJoinIn where
  roomVersion : Bytes
  remoteVersions : List Bytes
  userDomain : Bytes              -- input.UserID.Domain()
  requestOrigin : Bytes
  localServerInRoom : Bool
  /-- the version's `checkRestrictedJoin` entry is the real check (not `noCheckRestrictedJoin`) -/
  restrictedVersion : Bool
  privilegedCreators : Bool
  q : RestrictedQ
  /-- the template builder's answer, as a function of the authorising user written into the content -/
  template : Bytes → TemplateAns

/-- the response: the proto event is (sender, room, m.room.member, state_key = sender,
    content {membership: join, join_authorised_via_users_server: via}) -/
structure MakeJoinOut where
  authorisedVia : Bytes
  roomVersion : Bytes
  deriving Repr, DecidableEq

def checkTemplate (t : TemplateAns) : R Unit :=
  match t with
  | .err => .error .other
  | .nilEvent => .error .internal
  | .nilState => .error .internal
  | .built ty stateOK allowed =>
    if ty != b!"m.room.member" then .error .internal
    else if !stateOK then .error eForbidden
    else if !allowed then .error eForbidden
    else .ok ()

/-- the restricted-join stage: `verImpl.CheckRestrictedJoin` with its error mapping -/
def restrictedStage (i : MakeJoinIn) : R Bytes :=
  if i.restrictedVersion then
    match checkRestrictedJoin i.q i.privilegedCreators with
    | .ok v => .ok v
    | .error (.matrix c) => .error (.matrix c)
    | .error .generic => .error .internal
  else .ok []

def handleMakeJoin (i : MakeJoinIn) : R MakeJoinOut :=
  if !i.remoteVersions.contains i.roomVersion then .error eIncompatible
  else if i.userDomain != i.requestOrigin then .error eForbidden
  else if !i.localServerInRoom then .error eNotFound
  else
    match restrictedStage i with
    | .error e => .error e
    | .ok v =>
      match checkTemplate (i.template v) with
      | .error e => .error e
      | .ok () => .ok { authorisedVia := v, roomVersion := i.roomVersion }

structure MakeLeaveIn where
  roomVersion : Bytes
  userDomain : Bytes
  requestOrigin : Bytes
  localServerInRoom : Bool
  template : TemplateAns

def handleMakeLeave (i : MakeLeaveIn) : R Bytes :=
  if i.userDomain != i.requestOrigin then .error eForbidden
  else if !i.localServerInRoom then .error eNotFound
  else match checkTemplate i.template with
    | .error e => .error e
    | .ok () => .ok i.roomVersion

/-! ## HandleSendJoin -/

/-- `spec.NewUserID(id, true)`: `none` = invalid, `some d` = its domain (C17's business: an oracle here) -/
abbrev UserIDOracle := Bytes → Option Bytes

structure SendJoinIn where
  versionKnown : Bool
  /-- NewEventFromUntrustedJSON returned no error -/
  parses : Bool
  -- event shape, as the accessors report it
  /-- event.Type() -/
  evType : Bytes
  stateKey : Option Bytes
  sender : Bytes
  eventRoomID : Bytes
  eventID : Bytes
  /-- event.Membership(): `none` = error -/
  membership : Option Bytes
  /-- json.Unmarshal(event.Content(), &MemberContent{}) succeeded -/
  contentDecodes : Bool
  authorisedVia : Bytes
  -- request
  roomID : Bytes
  reqEventID : Bytes
  requestOrigin : Bytes
  localServer : Bytes
  keyID : Bytes
  -- oracles
  /-- UserIDQuerier(roomID, sender) -/
  senderDomain : SenderAns
  /-- the verifier's answer for (sender's domain, redacted event) -/
  verify : VerifyAns
  /-- MembershipQuerier.CurrentMembership: `none` = error -/
  curMembership : Option Bytes
  userID : UserIDOracle

/-- the returned PDU is the received event plus ONE signature slot -/
structure Signed where
  signer : Bytes
  keyID : Bytes
  deriving Repr, DecidableEq

structure SendJoinOut where
  alreadyJoined : Bool
  sig : Signed
  deriving Repr, DecidableEq

/-- "If the membership content contains a user ID for a server that is not ours then we should kick it back" -/
def viaLocal (i : SendJoinIn) : Bool :=
  if i.authorisedVia.isEmpty then true
  else match i.userID i.authorisedVia with
    | none => false
    | some dom => dom == i.localServer

/-- from the membership query on -/
def sendJoinTail (i : SendJoinIn) : R SendJoinOut :=
  match i.curMembership with
  | none => .error .internal
  | some cur =>
    if cur == b!"ban" then .error eForbidden
    else if !i.contentDecodes then .error eBadJSON
    else if !viaLocal i then .error eBadJSON
    else .ok { alreadyJoined := cur == b!"join", sig := { signer := i.localServer, keyID := i.keyID } }

/-- "Check that this is in fact a join event" — the event type first (`event.Type() != spec.MRoomMember`, the round-4
    repair: before it an event of ANY type with state_key == sender and content.membership == "join" was accepted and
    counter-signed), then `Membership()` — and the signature check -/
def sendJoinEventChecks (i : SendJoinIn) : R SendJoinOut :=
  if i.evType != b!"m.room.member" then .error eBadJSON
  else match i.membership with
  | none => .error eBadJSON
  | some m =>
    if m != b!"join" then .error eBadJSON
    else match i.verify with
      | .callErr => .error .internal
      | .bad => .error eForbidden
      | .good => sendJoinTail i

def handleSendJoin (i : SendJoinIn) : R SendJoinOut :=
  if !i.versionKnown then .error eUnsupported
  else if !i.parses then .error eBadJSON
  else if i.stateKey.isNone || i.stateKey == some [] then .error eBadJSON
  else if i.stateKey != some i.sender then .error eBadJSON
  else match i.senderDomain with
    | .err => .error eForbidden
    | .nil => .error eForbidden          -- `err != nil || sender == nil` (round-5 repair: a nil dereference before)
    | .dom d =>
      if d != i.requestOrigin then .error eForbidden
      else if i.eventRoomID != i.roomID then .error eBadJSON
      else if i.eventID != i.reqEventID then .error eBadJSON
      else sendJoinEventChecks i

/-! ## HandleInvite -/

structure InviteIn where
  versionKnown : Bool
  eventRoomID : Bytes
  roomID : Bytes
  /-- UserIDQuerier(roomID, sender) -/
  senderDomain : SenderAns
  verify : VerifyAns
  invitedUserDomain : Bytes        -- input.InvitedUser.Domain(): the name the event is signed with
  /-- input.InvitedUser.String() and input.InvitedSenderID: the two names of the invited user the handler is handed -/
  invitedUserID : Bytes
  invitedSenderID : Bytes
  keyID : Bytes
  -- handleInviteCommonChecks
  /-- RoomQuerier.IsKnownRoom -/
  knownRoom : QAns Bool
  /-- len(input.StrippedState) -/
  strippedGiven : Nat
  /-- StateQuerier.GetState (asked when no stripped state was given): error | number of events (nil = 0) -/
  stateQuery : QAns Nat
  /-- MembershipQuerier.CurrentMembership(room, sender ID), per sender ID: `none` = error -/
  membershipOf : Bytes → Option Bytes
  -- "Check that the event really is an invite"
  eventType : Bytes
  stateKey : Option Bytes
  /-- InviteEvent.Membership(): `none` = error -/
  membership : Option Bytes

structure InviteOut where
  sig : Signed
  /-- number of entries written to unsigned.invite_room_state (0 = the empty object) -/
  strippedLen : Nat
  deriving Repr, DecidableEq

/-- the stripped state used: the one given, else `GenerateStrippedState` -/
def inviteStateLen (i : InviteIn) : R Nat :=
  if i.strippedGiven == 0 then
    match i.stateQuery with
    | .err => .error .internal
    | .ans n => .ok n
  else .ok i.strippedGiven

/-- handleInviteCommonChecks from "isKnownRoom" on; `target` is the sender ID the invite is for (the state key of the
    event), `sig` the signature already applied -/
def inviteCommonChecks (i : InviteIn) (target : Bytes) (sig : Signed) : R InviteOut :=
  match i.knownRoom with
  | .err => .error .internal
  | .ans known =>
    match inviteStateLen i with
    | .error e => .error e
    | .ok n =>
      if known then
        if n == 0 then .error .internal
        else match i.membershipOf target with
          | none => .error .internal
          | some cur => if cur == b!"join" then .error eForbidden else .ok { sig := sig, strippedLen := n }
      else .ok { sig := sig, strippedLen := n }

/-- from the sender lookup on; `sk` is the event's state key -/
def inviteTail (i : InviteIn) (sk : Bytes) : R InviteOut :=
  match i.senderDomain with
  | .err => .error eBadJSON
  | .nil => .error eBadJSON              -- `err != nil || sender == nil` (round-5 repair: a nil dereference before)
  | .dom _ =>
    match i.verify with
    | .callErr => .error .internal
    | .bad => .error eForbidden
    | .good => inviteCommonChecks i sk { signer := i.invitedUserDomain, keyID := i.keyID }

def handleInvite (i : InviteIn) : R InviteOut :=
  if !i.versionKnown then .error eUnsupported
  else if i.eventRoomID != i.roomID then .error eBadJSON
  else match i.stateKey with
  | none => .error eBadJSON                                   -- `InviteEvent.StateKey() == nil`
  | some sk =>
    if i.eventType != b!"m.room.member" then .error eBadJSON
    else if i.membership != some b!"invite" then .error eBadJSON
    -- "Check that the invite is for the user we have been asked about" (round-5 repair: the state key was never looked at)
    else if sk != i.invitedSenderID && sk != i.invitedUserID then .error eBadJSON
    else inviteTail i sk

/-! ## HandleInviteV3 (pseudo-ID rooms: the invite arrives as a proto event and is built and signed here) -/

structure InviteV3In where
  common : InviteIn          -- the fields read by handleInviteCommonChecks (knownRoom, strippedGiven, stateQuery, membershipOf)
  protoRoomID : Bytes
  /-- input.InviteProtoEvent.Type -/
  protoType : Bytes
  /-- `json.Unmarshal(InviteProtoEvent.Content, &struct{ Membership string })`: `none` = it fails, else the membership
      ("" when the key is absent) -/
  protoMembership : Option Bytes
  /-- GetOrCreateSenderID: `none` = error, `some id` = the invited user's sender ID (the key the event is signed with) -/
  invitedSenderID : Option Bytes
  /-- EventBuilder.Build succeeded (size limits, field checks: C03 / C17's business) -/
  buildOK : Bool

/-- The two checks after the room ID ("Check that the proto event really is an invite") are the round-4 repair: before
    it HandleInviteV3 built ANY proto event — any type, any membership — into an event with the invited user's sender ID
    as state key and signed it with that user's room key. -/
def handleInviteV3 (i : InviteV3In) : R InviteOut :=
  if !i.common.versionKnown then .error eUnsupported
  else if i.protoRoomID != i.common.roomID then .error eBadJSON
  else if i.protoType != b!"m.room.member" then .error eBadJSON
  else if i.protoMembership != some b!"invite" then .error eBadJSON
  else match i.invitedSenderID with
    | none => .error .internal
    | some sid =>
      if !i.buildOK then .error .internal
      -- the membership asked for is that of `sid`, the state key of the event just built — not of
      -- `i.common.invitedSenderID` (input.InvitedSenderID), which the caller may not know yet (round-5 repair)
      else inviteCommonChecks i.common sid { signer := sid, keyID := b!"ed25519:1" }

/-! ## PerformJoin (acceptance path) -/

/-- what `checkEventsContainCreateEvent` finds in the auth events of the send_join response -/
inductive CreateFound where
  | missing                 -- no (m.room.create, "") event
  | undecodable             -- its content does not decode
  | version (v : Bytes)     -- room_version ("" when absent)
  deriving Repr, Inhabited

def checkCreate (knownVersion : Bytes → Bool) (c : CreateFound) : Bool :=
  match c with
  | .missing => false
  | .undecodable => false
  | .version v => knownVersion (if v.isEmpty then b!"1" else v)

/-- what PerformJoin looks at of the "event" member of the send_join response (when it is there and parses) -/
structure RemoteJoin where
  ev : Event
  type : Bytes
  sender : Bytes
  /-- `Membership()`: `none` = error -/
  membership : Option Bytes
  roomID : Bytes
  stateKey : Option Bytes
  /-- VerifyEventSignatures(remote copy, input.KeyRing) == nil: every server that has to sign a join — the joining
      user's own server first of all — validly signed it (C06) -/
  sigOK : Bool

/-- `isWellFormedJoinMemberEvent`.  The type and sender conjuncts are the round-5 repair: `Membership()` reads the content
    only, so that an `x.custom` event with state_key == the joiner and content.membership == "join" passed. -/
def wellFormedJoin (r : RemoteJoin) (roomID senderID : Bytes) : Bool :=
  r.type == b!"m.room.member" && r.sender == senderID &&
  (match r.membership with
   | none => false
   | some m => m == b!"join" && r.roomID == roomID && r.stateKey == some senderID)

inductive PJErr where
  | makeJoinFailed          -- transient, unreachable
  | unknownVersion
  | buildFailed
  | sendJoinFailed
  | noCreate                -- "sanityCheckAuthChain"
  | checkFailed             -- "respSendJoin.Check"
  deriving DecidableEq, Repr, Inhabited

structure PerformJoinIn (P : Type) where
  makeJoinOK : Bool
  /-- GetRoomVersion(resolved version) succeeds -/
  versionKnown : Bool
  buildOK : Bool
  sendJoinOK : Bool
  /-- the event we built -/
  built : Event
  /-- input.RoomID, and the sender ID the join was built for -/
  roomID : Bytes
  senderID : Bytes
  /-- the room version is org.matrix.msc4014 (events are signed with room keys: `isSignedJoinEvent` lets them through) -/
  pseudoIDs : Bool
  /-- the "event" of the send_join response, when present and parsed -/
  remote : Option RemoteJoin
  create : CreateFound
  knownVersion : Bytes → Bool
  O : FedCheck.Oracles P
  prov : Option FedCheck.EventProvider
  fuel : Nat
  auth : List FedCheck.Parsed
  state : List FedCheck.Parsed

structure PerformJoinOut where
  joinEvent : Event
  auth : List Event
  state : List Event

/-- `isSignedJoinEvent` (round-5 repair; before it NOTHING verified the signatures of the event PerformJoin returns) -/
def signedJoin (pseudoIDs : Bool) (r : RemoteJoin) : Bool := pseudoIDs || r.sigOK

/-- the remote's copy replaces the event we built -/
def adoptsRemote {P} (i : PerformJoinIn P) (r : RemoteJoin) : Bool :=
  wellFormedJoin r i.roomID i.senderID && signedJoin i.pseudoIDs r

/-- "If the remote server returned an event in the "event" key of the send_join response then we should use that instead"
    — if it is still a join of ours -/
def joinEventUsed {P} (i : PerformJoinIn P) : Event :=
  match i.remote with
  | some r => if adoptsRemote i r then r.ev else i.built
  | none => i.built

def performJoin {P} (i : PerformJoinIn P) : Except PJErr (Option PerformJoinOut) :=
  if !i.makeJoinOK then .error .makeJoinFailed
  else if !i.versionKnown then .error .unknownVersion
  else if !i.buildOK then .error .buildFailed
  else if !i.sendJoinOK then .error .sendJoinFailed
  else
    if !checkCreate i.knownVersion i.create then .error .noCreate
    else match FedCheck.checkSendJoin i.O i.prov i.fuel (FedCheck.untrusted i.auth) (FedCheck.untrusted i.state) (joinEventUsed i) [] with
      | (.ok a s, _) => .ok (some { joinEvent := joinEventUsed i, auth := a, state := s })
      | (.outOfFuel, _) => .ok none
      | _ => .error .checkFailed

end V.Handshake
