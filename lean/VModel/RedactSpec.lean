/-
  VModel.RedactSpec — the redaction algorithms as the Matrix specification's room-version pages
  state them ("Redactions" section of room versions 1, 6, 8, 9 and 11), transcribed independently
  of the library's tables, and the specification's `redact` on well-formed events.  Core Lean only.

  No copy of the specification is available in this sandbox: the lists below are transcribed from
  memory of spec v1.16 (-- unverified transcription) and cross-checked against the quotations in
  redactevent.go's comments ("which protects membership 'join_authorised_via_users_server' key",
  "which protects join rules 'allow' key", "which has no special meaning for m.room.aliases").

  v1–v5   top level: event_id type room_id sender state_key content hashes signatures depth
                     prev_events prev_state auth_events origin origin_server_ts membership
          content:   m.room.member → membership; m.room.create → creator; m.room.join_rules → join_rule;
                     m.room.power_levels → ban events events_default kick redact state_default users users_default;
                     m.room.aliases → aliases; m.room.history_visibility → history_visibility
  v6–v7   m.room.aliases is no longer special
  v8      m.room.join_rules also keeps allow
  v9–v10  m.room.member also keeps join_authorised_via_users_server
  v11+    top level drops origin, membership, prev_state; m.room.create keeps everything;
          m.room.power_levels also keeps invite; m.room.redaction keeps redacts;
          m.room.member also keeps the `signed` key of third_party_invite
-/
import VModel.GoJson
namespace V
namespace RedactSpec
open Json GoJson

/-- what survives in `content`: everything, or the listed paths (a path of length two `[a, b]`
    keeps, inside the object at key `a`, only key `b`) -/
inductive Rule where
  | all
  | paths (ps : List (List String))
  deriving DecidableEq, Repr

structure Algo where
  top : List String
  content : List (String × Rule)     -- sorted by event type
  deriving DecidableEq, Repr

def topV1 : List String := ["event_id", "type", "room_id", "sender", "state_key", "content", "hashes", "signatures",
  "depth", "prev_events", "prev_state", "auth_events", "origin", "origin_server_ts", "membership"]

def topV11 : List String := ["event_id", "type", "room_id", "sender", "state_key", "content", "hashes", "signatures",
  "depth", "prev_events", "auth_events", "origin_server_ts"]

def plKeys : List (List String) := [["ban"], ["events"], ["events_default"], ["kick"], ["redact"], ["state_default"],
  ["users"], ["users_default"]]

/-- room versions 1–5 -/
def v1 : Algo := { top := topV1, content := [
  ("m.room.aliases", .paths [["aliases"]]),
  ("m.room.create", .paths [["creator"]]),
  ("m.room.history_visibility", .paths [["history_visibility"]]),
  ("m.room.join_rules", .paths [["join_rule"]]),
  ("m.room.member", .paths [["membership"]]),
  ("m.room.power_levels", .paths plKeys)] }

/-- room versions 6–7 -/
def v6 : Algo := { top := topV1, content := [
  ("m.room.create", .paths [["creator"]]),
  ("m.room.history_visibility", .paths [["history_visibility"]]),
  ("m.room.join_rules", .paths [["join_rule"]]),
  ("m.room.member", .paths [["membership"]]),
  ("m.room.power_levels", .paths plKeys)] }

/-- room version 8 -/
def v8 : Algo := { top := topV1, content := [
  ("m.room.create", .paths [["creator"]]),
  ("m.room.history_visibility", .paths [["history_visibility"]]),
  ("m.room.join_rules", .paths [["join_rule"], ["allow"]]),
  ("m.room.member", .paths [["membership"]]),
  ("m.room.power_levels", .paths plKeys)] }

/-- room versions 9–10 -/
def v9 : Algo := { top := topV1, content := [
  ("m.room.create", .paths [["creator"]]),
  ("m.room.history_visibility", .paths [["history_visibility"]]),
  ("m.room.join_rules", .paths [["join_rule"], ["allow"]]),
  ("m.room.member", .paths [["membership"], ["join_authorised_via_users_server"]]),
  ("m.room.power_levels", .paths plKeys)] }

/-- room versions 11 and later -/
def v11 : Algo := { top := topV11, content := [
  ("m.room.create", .all),
  ("m.room.history_visibility", .paths [["history_visibility"]]),
  ("m.room.join_rules", .paths [["join_rule"], ["allow"]]),
  ("m.room.member", .paths [["membership"], ["join_authorised_via_users_server"], ["third_party_invite", "signed"]]),
  ("m.room.power_levels", .paths (plKeys ++ [["invite"]])),
  ("m.room.redaction", .paths [["redacts"]])] }

/-- The algorithm of every room version the library registers.  Unstable versions follow the
    stable version the comment at their row in eventversion.go names: org.matrix.msc3667 "based on
    room version 7", org.matrix.msc3787 "roughly, the union of v7 and v9" (v9 redactions),
    org.matrix.msc4014 "currently, just a copy of V10", org.matrix.hydra.11 = the v12 pre-release. -/
def specFor (ver : String) : Option Algo :=
  if ["1", "2", "3", "4", "5"].contains ver then some v1
  else if ["6", "7", "org.matrix.msc3667"].contains ver then some v6
  else if ver == "8" then some v8
  else if ["9", "10", "org.matrix.msc3787", "org.matrix.msc4014"].contains ver then some v9
  else if ["11", "12", "org.matrix.hydra.11"].contains ver then some v11
  else none

/-! ## The specification's redaction of a well-formed event -/

def sb (s : String) : Bytes := s.toList.flatMap (fun c => utf8Encode c.toNat)

def ruleFor (a : Algo) (ty : Bytes) : Rule :=
  match a.content.find? (fun x => sb x.1 == ty) with
  | some x => x.2
  | none => .paths []

/-- the sub-keys kept below top-level content key `k` (paths of length two starting with `k`) -/
def subKeys (ps : List (List String)) (k : Bytes) : List Bytes :=
  ps.filterMap (fun p => match p with
    | [a, b] => if sb a == k then some (sb b) else none
    | _ => none)

def keepsWhole (ps : List (List String)) (k : Bytes) : Bool := ps.any (fun p => match p with
  | [a] => sb a == k
  | _ => false)

/-- content member `(k, v)` under a list of paths: kept whole, kept in part, or dropped -/
def filterMember (ps : List (List String)) (kv : Bytes × JVal) : Option (Bytes × JVal) :=
  if keepsWhole ps kv.1 then some kv
  else
    let sub := subKeys ps kv.1
    if sub.isEmpty then none
    else match kv.2 with
      | .obj m =>
        let kept := m.filter (fun x => sub.contains x.1)
        if kept.isEmpty then none else some (kv.1, .obj kept)
      | _ => none

def filterContent (r : Rule) (content : JVal) : JVal :=
  match r, content with
  | .all, c => c
  | .paths ps, .obj m => .obj (m.filterMap (filterMember ps))
  | .paths _, c => c

/-- "strip off any keys not in the following list … the content object must also be stripped of
    all keys, unless it is one of the following event types" -/
def redact (a : Algo) (j : JVal) : JVal :=
  match j with
  | .obj kvs =>
    let ty : Bytes := match lookupExact kvs (sb "type") with
      | some (.str s) => s
      | _ => []
    .obj (kvs.filterMap (fun kv =>
      if a.top.any (fun t => sb t == kv.1) then
        if kv.1 == sb "content" then some (kv.1, filterContent (ruleFor a ty) kv.2) else some kv
      else none))
  | v => v

end RedactSpec
end V
