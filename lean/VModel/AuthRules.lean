/-
  VModel.AuthRules — transcription of the Matrix event authorisation rules (room-version pages, v11 wording,
  deltas per version) as DECLARATIVE boolean formulas, one per numbered rule, over the parsed inputs
  (the model's content decoders and the cached contents `Ctx` of the create / power-levels / join-rules events).

  * `rulesAllow d e p sig : Option Bool` — `none` = outside the modelled domain (`inDomain`), otherwise the decision.
  * `Departures` — the library's deliberate, documented departures D1–D17 of DESIGN.md §6.1 as individually
    switchable flags; `Departures.library` = all on (the rules of §6.1: theorem `V.C07.allowed_eq_spec`).
    (D16, D17 were found while proving C07; five further differences found then — public joins after a knock, the '@'
    rule on m.room.third_party_invite events, v11 room_version check, stray third_party_invite blocks, mxid_mapping
    outside pseudo-ID rooms — were repaired in /repo: commits 6fda2cc, 17893e1, 81e30aa, ba68227, c0fa8cc.)

  No copy of the specification exists in this sandbox: the clauses are written from the property statement, the
  rule list in the task, the citations in /repo/eventauth.go and memory of the room-version pages.  Clauses that could
  not be cross-checked against a quotation in the repository are tagged `-- unverified transcription`.

  The decision functions of VModel.Auth (`Ctx.allowed` and everything below it) are NOT used here; only decoders,
  `Ctx` fields, and two C08 level predicates (`checkEventLevels`, `checkUserLevels`; the notification rule and the
  integer-only rule of version 10 are written out here: `ruleNotifications`, `integerContent`).
  Core Lean only.
-/
import VModel.Auth
namespace V.AuthRules
open V V.Json V.GoJson V.Auth

/-! ## Departures -/

structure Departures where
  /-- D1: self `leave → leave` is allowed -/
  d1_selfLeaveLeave : Bool
  /-- D2: with no power-levels event the create event's sender has level 2^53−1 (spec: 100) -/
  d2_creatorMaxLevel : Bool
  /-- D3: power-level comparisons use effective values (defaults substituted for absent keys), also when the room has
      no power-levels event (spec 10.4: then allow) -/
  d3_effectiveValues : Bool
  /-- D4: per-event-type entries absent on one side are compared with the non-state default -/
  d4_eventEntryDefault : Bool
  /-- D5: redactions: version from the create CONTENT's room_version (absent ⇒ 1); v1/v2 compare the sender's domain
      with the domain of `redacts` (spec: the domains of the two event IDs) -/
  d5_redactionByCreateContent : Bool
  /-- D6: the m.room.aliases special rule applies in every room version (spec: v1–v5) -/
  d6_aliasesAllVersions : Bool
  /-- D7: third-party-invite memberships follow Synapse 0.18.5 (no ban check on the target, no comparison with the
      sender of the m.room.third_party_invite event) -/
  d7_thirdPartySynapse : Bool
  /-- D8: keys of `users` only need to be historical-grammar user IDs (spec: valid user IDs) -/
  d8_looseUserKeys : Bool
  /-- D9: `knock_restricted` is honoured wherever knocking / restricted joins are (spec: v10+) -/
  d9_knockRestrictedEarly : Bool
  /-- D10: unban needs only the ban level (spec: additionally the kick rule) -/
  d10_unbanBanLevelOnly : Bool
  /-- D11: notification levels: a change is refused when the old value is ≥ the sender's level (spec: >) -/
  d11_notificationsGE : Bool
  /-- D12: the creator's first join additionally requires sender = state_key -/
  d12_firstJoinBySelf : Bool
  /-- D13: `creator` must be present as a JSON string in v1–10 (spec: the property exists) -/
  d13_creatorString : Bool
  /-- D14: `mxid_mapping.user_id` (pseudo-ID rooms) drives the m.federate check of a membership event; in
      org.matrix.msc4014 the aliases state_key is compared with the sender and the authoriser ID is not validated -/
  d14_pseudoIDs : Bool
  /-- D15: before v10, levels given as strings (trimmed) or floats (truncated) are coerced to integers -/
  d15_pythonInt : Bool
  /-- D16: an invited (or already joined) user may join whatever the join rule is, including unknown values such as
      `private` and `knock` before v7 (spec 5.3.7: otherwise reject).  Source comment: "An invited user is always
      allowed to join, regardless of the join rule". -/
  d16_invitedJoinsAnyRule : Bool
  /-- D17: in a v1/v2 room a redaction whose `redacts` has no ':' is refused before the power-level test (spec 11.1
      comes first).  Pinned by the repository's TestRedactAllowed, case "Invalid redacts event ID". -/
  d17_redactsNeedsDomain : Bool
  deriving Repr, DecidableEq

/-- the rules as DESIGN.md §6.1 defines them: every documented departure on -/
def Departures.library : Departures :=
  { d1_selfLeaveLeave := true, d2_creatorMaxLevel := true, d3_effectiveValues := true, d4_eventEntryDefault := true,
    d5_redactionByCreateContent := true, d6_aliasesAllVersions := true, d7_thirdPartySynapse := true, d8_looseUserKeys := true,
    d9_knockRestrictedEarly := true, d10_unbanBanLevelOnly := true, d11_notificationsGE := true, d12_firstJoinBySelf := true,
    d13_creatorString := true, d14_pseudoIDs := true, d15_pythonInt := true, d16_invitedJoinsAnyRule := true,
    d17_redactsNeedsDomain := true }

/-- the rule text with no departure at all -/
def Departures.specText : Departures :=
  { d1_selfLeaveLeave := false, d2_creatorMaxLevel := false, d3_effectiveValues := false, d4_eventEntryDefault := false,
    d5_redactionByCreateContent := false, d6_aliasesAllVersions := false, d7_thirdPartySynapse := false, d8_looseUserKeys := false,
    d9_knockRestrictedEarly := false, d10_unbanBanLevelOnly := false, d11_notificationsGE := false, d12_firstJoinBySelf := false,
    d13_creatorString := false, d14_pseudoIDs := false, d15_pythonInt := false, d16_invitedJoinsAnyRule := false,
    d17_redactsNeedsDomain := false }

/-! ## What the room-version pages say about each version (independent of the library's table) -/

structure SpecVersion where
  /-- v6+: notification levels are checked -/
  notifications : Bool
  /-- v7+: membership `knock`, join rule `knock` -/
  knock : Bool
  /-- v8+: join rule `restricted` -/
  restricted : Bool
  /-- v10+: join rule `knock_restricted` -/
  knockRestricted : Bool
  /-- v10+: power levels must be integers -/
  integerLevels : Bool
  /-- 1 = v1–10 (creator required), 2 = v11, 3 = v12 (no room_id, additional_creators) -/
  createRules : Nat
  /-- v1–5: m.room.aliases special rule -/
  aliases : Bool
  /-- v12: creators are privileged -/
  creators : Bool
  deriving Repr, DecidableEq

def sv1 : SpecVersion :=
  { notifications := false, knock := false, restricted := false, knockRestricted := false, integerLevels := false,
    createRules := 1, aliases := true, creators := false }
def sv6 : SpecVersion := { sv1 with notifications := true, aliases := false }
def sv7 : SpecVersion := { sv6 with knock := true }
def sv8 : SpecVersion := { sv7 with restricted := true }
def sv10 : SpecVersion := { sv8 with knockRestricted := true, integerLevels := true }
def sv11 : SpecVersion := { sv10 with createRules := 2 }
def sv12 : SpecVersion := { sv11 with createRules := 3, creators := true }

/-- stable versions 1–12 from the room-version pages; unstable ones as /repo/eventversion.go's comments define them:
    org.matrix.msc4014 "a copy of V10", org.matrix.msc3667 "based on room version 7" (+ MSC3667 integer levels),
    org.matrix.msc3787 "the union of v7 and v9" (+ MSC3787 knock_restricted), org.matrix.hydra.11 = v12.
    Same order as the library's table (sorted by key). -/
def specTable : List (String × SpecVersion) :=
  [("1", sv1), ("10", sv10), ("11", sv11), ("12", sv12), ("2", sv1), ("3", sv1), ("4", sv1), ("5", sv1), ("6", sv6),
   ("7", sv7), ("8", sv8), ("9", sv8), ("org.matrix.hydra.11", sv12),
   ("org.matrix.msc3667", { sv7 with integerLevels := true }),
   ("org.matrix.msc3787", { sv8 with knockRestricted := true }),
   ("org.matrix.msc4014", sv10)]

def specVersion? (ver : Bytes) : Option SpecVersion :=
  (specTable.find? (fun r => r.1.toUTF8.toList == ver)).map (·.2)

/-- the library's per-version switches that the rules correspond to (columns of VGen.roomVersions) -/
def expectedColumns (s : SpecVersion) : String × String × String × String × String × Bool :=
  (if s.knock then "checkKnocking" else "disallowKnocking",
   if s.restricted then "allowRestrictedJoins" else "disallowRestrictedJoins",
   if s.createRules == 1 then "checkCreateEventV1" else if s.createRules == 2 then "checkCreateEventV2" else "checkCreateEventV3",
   if s.integerLevels then "parseIntegerPowerLevels" else "parsePowerLevels",
   if s.creators then "checkPowerLevelEventV3" else if s.notifications then "checkPowerLevelEventV2" else "checkPowerLevelEventV1",
   s.creators)

def rowColumns (r : VGen.VersionRow) : String × String × String × String × String × Bool :=
  (r.checkKnockingAllowedFunc, r.checkRestrictedJoinAllowedFunc, r.checkCreateEvent, r.parsePowerLevelsFunc,
   r.checkPowerLevelEvent, r.privilegedCreators)

/-! ## Parsed inputs -/

/-- the members of a content that is a JSON object (`null` decodes like `{}`) -/
def contentFields (c : Option JVal) : Option (List (Bytes × JVal)) :=
  match c with
  | some (.obj kvs) => some kvs
  | some .null => some []
  | _ => none

/-- the user ID, when the text is one (historical grammar); the outer `none` of `parseUserID?` (IPv6 literal: not
    modelled) is excluded by `inDomain` -/
def userOf (id : Bytes) : Option UserID := (parseUserID? id).join

def membershipOf (p : Provider) (u : Bytes) : Option MemberContent :=
  match memberFromProvider p u with
  | .ok m => some m
  | .error _ => none

def newMemberOf (e : Event) : Option MemberContent :=
  match decodeMemberContent e.content with
  | .ok m => some m
  | .error _ => none

/-- `membership` of an arbitrary member event (as the restricted-join check reads it): the member named exactly
    `membership` -/
def membershipField (ev : Event) : Option Bytes :=
  match ev.content with
  | none => none
  | some .null => some []
  | some (.obj kvs) => let d := decString (lookupExact kvs b!"membership"); if d.err then none else some d.val
  | some _ => none

def isUnmodelled {α} (r : R α) : Bool :=
  match r with
  | .error (.unmodelled _) => true
  | _ => false

/-- number of usable public keys of the m.room.third_party_invite event a membership content points to
    (`some 0` when the content has no `third_party_invite`) -/
def thirdPartyKeys (p : Provider) (nm : MemberContent) : Option Nat :=
  match nm.thirdPartyInvite with
  | none => some 0
  | some s => (p.thirdPartyInvite s.token).bind (fun ev => decodeThirdPartyInviteKeys ev.content)

/-! ## Power levels (defaults: D2) -/

/-- The power level of a user: creators of a v12 room have 2^53; without a power-levels event the create event's
    sender has 2^53−1 (D2; spec: 100) and everyone else 0; otherwise `users[u]`, else `users_default`. -/
def powerOfWith (priv : Bool) (d : Departures) (c : Ctx) (u : Bytes) : Int :=
  if priv && c.creators.contains u then creatorPowerLevel
  else if c.plEvent.isSome then c.pl.userLevel u
  else if c.createEvent.map (·.sender) == some u then (if d.d2_creatorMaxLevel then creatorPowerLevel - 1 else 100)
  else 0

/-- … with "creators are privileged" decided by the room version of the create event the auth events hold -/
def powerOf (d : Departures) (c : Ctx) (u : Bytes) : Int := powerOfWith c.privilegedCreators d c u

/-- rule 8's required level: `events[type]`, else state_default / events_default; rule 7: m.room.third_party_invite needs
    the invite level -/
def requiredLevel (c : Ctx) (e : Event) : Int := c.pl.eventLevel e.type e.stateKey.isSome

/-! ## Rule 1: m.room.create -/

/-- 1.3 `content.room_version` absent, or a recognised version (D13: recognised = registered in this library) -/
def roomVersionRecognised (kvs : List (Bytes × JVal)) : Bool :=
  match lookupExact kvs b!"room_version" with
  | none => true
  | some .null => true
  | some (.str v) => knownRoomVersion v
  | some _ => false

/-- 1.4 [v1–10] content has a `creator` (D13: a JSON string) -/
def creatorPresent (d : Departures) (kvs : List (Bytes × JVal)) : Bool :=
  if d.d13_creatorString then
    (match lookupExact kvs b!"creator" with
     | some (.str _) => true
     | _ => false)
  else (lookupExact kvs b!"creator").isSome

/-- a JSON string that is a user ID -/
def userIDString (x : JVal) : Bool :=
  match x with
  | .str s => (userOf s).isSome
  | _ => false

/-- [v12] `additional_creators`, when present, is an array of valid user IDs -/
def additionalCreatorsValid (kvs : List (Bytes × JVal)) : Bool :=
  match lookupExact kvs b!"additional_creators" with
  | none => true
  | some .null => true
  | some (.arr xs) => xs.all userIDString
  | some _ => false

/-- [v12] the event has no room_id -/
def noRoomIDField (e : Event) : Bool :=
  match lookupField e.obj b!"room_id" with
  | none => true
  | some .null => true
  | some (.str s) => s == []
  | some _ => false

/-- [v1–11] 1.2 the domain of the room_id is the domain of the sender -/
def roomDomainIsSenderDomain (e : Event) : Bool :=
  match userOf e.sender, domainFromID (e.roomID.drop 1) with
  | some u, some dom => u.domain == dom
  | _, _ => false

def ruleCreate (d : Departures) (sv : SpecVersion) (e : Event) : Bool :=
  e.stateKey == some []                                   -- (library) the state_key is ""
  && e.prevEventIDs.isEmpty                               -- 1.1 no prev_events
  && (userOf e.sender).isSome                             -- the sender is a user ID
  && (if sv.createRules == 1 then
        roomDomainIsSenderDomain e                        -- 1.2
        && (match contentFields e.content with
            | some kvs => roomVersionRecognised kvs       -- 1.3
                          && creatorPresent d kvs         -- 1.4 [v1–10]
            | none => false)
      else if sv.createRules == 2 then
        roomDomainIsSenderDomain e                        -- 1.2
        && (match contentFields e.content with
            | some kvs => roomVersionRecognised kvs       -- 1.3 (v11 drops only the creator rule)
            | none => false)
      else
        noRoomIDField e                                   -- [v12] 1.2 no room_id
        && (match contentFields e.content with
            | some kvs => roomVersionRecognised kvs       -- 1.3
                          && additionalCreatorsValid kvs  -- [v12] 1.4
            | none => false))

/-! ## Rule 3 and the m.federate rule (all events other than m.room.create) -/

/-- 3: there is a (decodable) create event among the auth events, and the event is in its room
    (v12: the room ID is the create event's ID with `!`) -/
def ruleCreatePresent (c : Ctx) (e : Event) : Bool :=
  c.createEvent.isSome && e.roomID == c.create.roomID

/-- m.federate: `content.m.federate = false` and the domain differs from the create sender's ⇒ reject -/
def ruleFederate (c : Ctx) (domain : Bytes) : Bool :=
  domain == c.create.senderDomain || c.create.federate != some false

/-! ## Rule 4: m.room.aliases -/

/-- does the aliases special rule apply?  [v1–5; D6: always] -/
def aliasesRuleApplies (d : Departures) (sv : SpecVersion) : Bool := d.d6_aliasesAllVersions || sv.aliases

/-- 4.1 has a state_key; 4.2 it is the sender's domain (D14: in pseudo-ID rooms the sender itself) -/
def ruleAliases (d : Departures) (c : Ctx) (e : Event) : Bool :=
  match userOf e.sender with
  | none => false
  | some u =>
    ruleCreatePresent c e && ruleFederate c u.domain
    && (if d.d14_pseudoIDs && e.ver == b!"org.matrix.msc4014" then e.stateKey == some e.sender
        else e.stateKey == some u.domain)

/-! ## Rules 6, 8, 9 (and 7) -/

/-- 9: a state_key starting with '@' is the sender -/
def ruleAtStateKey (e : Event) : Bool :=
  match e.stateKey with
  | some (0x40 :: rest) => (0x40 :: rest) == e.sender
  | _ => true

/-- rules 3, m.federate, 6, 7, 8, 9 for every event other than create / aliases / member -/
def ruleCommon (d : Departures) (c : Ctx) (p : Provider) (e : Event) : Bool :=
  match userOf e.sender, membershipOf p e.sender with
  | some u, some sm =>
    ruleCreatePresent c e && ruleFederate c u.domain
    && sm.membership == b!"join"                                   -- 6
    && decide (powerOf d c e.sender ≥ requiredLevel c e)           -- 7, 8
    && (e.type == b!"m.room.third_party_invite"                   -- 7 "allow if and only if" the invite level is met
        || ruleAtStateKey e)                                       -- 9
  | _, _ => false

/-! ## Rule 5: m.room.member -/

structure MemberInputs where
  c : Ctx
  p : Provider
  e : Event
  sv : SpecVersion
  target : Bytes
  new : MemberContent
  old : MemberContent          -- the target's current membership (absent ⇒ leave)
  snd : MemberContent          -- the sender's current membership (absent ⇒ leave)
  sig3pid : Bool

/-- join rule in force (no join-rules event ⇒ invite) -/
def MemberInputs.joinRule (i : MemberInputs) : Bytes := i.c.joinRule
def MemberInputs.selfSent (i : MemberInputs) : Bool := i.target == i.e.sender

/-- 5.3.1 the only previous event is the create event and the state_key is the creator (D12: and the sender) -/
def ruleFirstJoin (d : Departures) (i : MemberInputs) : Bool :=
  i.c.createEvent.map (·.sender) == some i.target
  && i.new.membership == b!"join"
  && (!d.d12_firstJoinBySelf || i.selfSent)
  && i.e.prevEventIDs == [i.c.create.eventID]

/-- is the restricted-join clause (5.3.5) the one for this join rule?  [v8+; D9: knock_restricted wherever restricted is] -/
def restrictedApplies (d : Departures) (i : MemberInputs) : Bool :=
  i.sv.restricted &&
    (i.joinRule == b!"restricted"
     || (i.joinRule == b!"knock_restricted" && (d.d9_knockRestrictedEarly || i.sv.knockRestricted)))

/-- 5.3.5.2 `join_authorised_via_users_server` names a joined user with the power to invite -/
def authorisedJoin (d : Departures) (i : MemberInputs) : Bool :=
  i.new.authorisedVia != []
  && ((d.d14_pseudoIDs && i.e.ver == b!"org.matrix.msc4014") || splitIDOk 0x40 i.new.authorisedVia)
  && (match i.p.member i.new.authorisedVia with
      | some ev => membershipField ev == some b!"join"
      | none => false)
  && decide (powerOf d i.c i.new.authorisedVia ≥ i.c.pl.invite)

/-- is the join rule one the version knows (other than restricted ones)? -/
def inviteLikeRule (i : MemberInputs) : Bool :=
  i.joinRule == b!"invite" || (i.sv.knock && i.joinRule == b!"knock")

def ruleJoin (d : Departures) (i : MemberInputs) : Bool :=
  i.selfSent                                                        -- 5.3.2
  && i.old.membership != b!"ban"                                    -- 5.3.3
  && (let invitedOrJoined := i.old.membership == b!"invite" || i.old.membership == b!"join"
      if i.joinRule == b!"restricted" || i.joinRule == b!"knock_restricted" then
        -- 5.3.5 [v8+]; in versions without restricted joins these rules are unknown: 5.3.7 reject
        restrictedApplies d i && (invitedOrJoined || authorisedJoin d i)
      else
        (inviteLikeRule i && invitedOrJoined)                       -- 5.3.4
        || i.joinRule == b!"public"                                 -- 5.3.6
        || (d.d16_invitedJoinsAnyRule && invitedOrJoined))          -- D16

/-- 5.4.1 (D7: Synapse 0.18.5) -/
def ruleThirdPartyInvite (d : Departures) (i : MemberInputs) (s : ThirdPartySigned) : Bool :=
  !s.token.isEmpty                                                  -- 5.4.1.3 `signed` has a token (and an mxid: next line)
  && i.target == s.mxid                                             -- 5.4.1.4
  && (match thirdPartyKeys i.p i.new with                           -- 5.4.1.5 the m.room.third_party_invite event exists
      | some n => decide (n > 0)                                    -- 5.4.1.7 some public key …
      | none => false)
  && s.sigs.any (fun dk => (b!"ed25519").isPrefixOf dk.2)           --          … verifies some ed25519 signature (oracle)
  && i.sig3pid
  && (d.d7_thirdPartySynapse ||
      (i.old.membership != b!"ban"                                  -- 5.4.1.1   -- unverified transcription
       && (match i.p.thirdPartyInvite s.token with                  -- 5.4.1.6   -- unverified transcription
           | some ev => ev.sender == i.e.sender
           | none => false)))

def ruleInvite (d : Departures) (i : MemberInputs) : Bool :=
  i.snd.membership == b!"join"                                      -- 5.4.2
  && !(i.old.membership == b!"join" || i.old.membership == b!"ban") -- 5.4.3
  && decide (powerOf d i.c i.e.sender ≥ i.c.pl.invite)              -- 5.4.4

def ruleLeave (d : Departures) (i : MemberInputs) : Bool :=
  if i.selfSent then                                                -- 5.5.1
    i.old.membership == b!"invite" || i.old.membership == b!"join"
    || (i.sv.knock && i.old.membership == b!"knock")                -- [v7+] a knock can be rescinded
    || (d.d1_selfLeaveLeave && i.old.membership == b!"leave")       -- D1
  else
    i.snd.membership == b!"join"                                    -- 5.5.2
    && (let kick := decide (powerOf d i.c i.e.sender ≥ i.c.pl.kick)
                    && decide (powerOf d i.c i.target < powerOf d i.c i.e.sender)   -- 5.5.4
        if i.old.membership == b!"ban" then
          decide (powerOf d i.c i.e.sender ≥ i.c.pl.ban)            -- 5.5.3
          && (d.d10_unbanBanLevelOnly || kick)                      -- D10
        else kick)

def ruleBan (d : Departures) (i : MemberInputs) : Bool :=
  i.snd.membership == b!"join"                                      -- 5.6.1
  && decide (powerOf d i.c i.e.sender ≥ i.c.pl.ban)                 -- 5.6.2
  && decide (powerOf d i.c i.target < powerOf d i.c i.e.sender)

def ruleKnock (d : Departures) (i : MemberInputs) : Bool :=
  i.sv.knock                                                        -- [v7+]
  && (i.joinRule == b!"knock"                                       -- 5.7.1
      || (i.joinRule == b!"knock_restricted" && (d.d9_knockRestrictedEarly || i.sv.knockRestricted)))
  && i.selfSent                                                     -- 5.7.2
  && !(i.old.membership == b!"ban" || i.old.membership == b!"invite" || i.old.membership == b!"join")   -- 5.7.3

/-- the user whose domain the m.federate rule looks at (D14: `mxid_mapping.user_id` in pseudo-ID rooms) -/
def federateSubject (d : Departures) (i : MemberInputs) : Option UserID :=
  match i.new.mxidMappingUserID with
  | some uid =>
    if d.d14_pseudoIDs && i.e.ver == b!"org.matrix.msc4014" then userOf uid
    else userOf i.e.sender
  | none => userOf i.e.sender

/-- 5.3–5.8 by the new membership -/
def ruleByMembership (d : Departures) (i : MemberInputs) : Bool :=
  if i.new.membership == b!"join" then ruleJoin d i              -- 5.3
  else if i.new.membership == b!"invite" then ruleInvite d i     -- 5.4
  else if i.new.membership == b!"leave" then ruleLeave d i       -- 5.5
  else if i.new.membership == b!"ban" then ruleBan d i           -- 5.6
  else if i.new.membership == b!"knock" then ruleKnock d i       -- 5.7
  else false                                                      -- 5.8

def ruleMemberDecision (d : Departures) (i : MemberInputs) : Bool :=
  ruleFirstJoin d i                                                 -- 5.3.1
  || (match i.new.thirdPartyInvite with
      | some s => if i.new.membership == b!"invite" then ruleThirdPartyInvite d i s      -- 5.4.1
                  else ruleByMembership d i
      | none => ruleByMembership d i)

def ruleMember (d : Departures) (c : Ctx) (p : Provider) (sv : SpecVersion) (e : Event) (sig3pid : Bool) : Bool :=
  match e.stateKey, newMemberOf e with                              -- 5.1 state_key and a usable membership
  | some target, some nm =>
    match membershipOf p target, membershipOf p e.sender with       -- (the current memberships are decodable)
    | some om, some sm =>
      let i : MemberInputs := { c, p, e, sv, target, new := nm, old := om, snd := sm, sig3pid }
      ruleCreatePresent c e                                         -- 3
      && (match federateSubject d i with                            -- m.federate
          | some u => ruleFederate c u.domain
          | none => false)
      && ruleMemberDecision d i
    | _, _ => false
  | _, _ => false

/-! ## Rule 10: m.room.power_levels (the C08 predicates) -/

/-- an integer literal: optional sign, digits only (no fraction, no exponent, not a string, not `null`), within the
    64-bit range -/
def isIntegerLiteral (v : JVal) : Bool :=
  match v with
  | .num lit => (parseInt64 lit).isSome
  | _ => false

/-- the seven named levels of a power-levels content -/
def namedLevelKeys : List Bytes :=
  [b!"ban", b!"invite", b!"kick", b!"redact", b!"users_default", b!"events_default", b!"state_default"]

/-- an object all of whose values are integer literals -/
def isIntegerMap (v : JVal) : Bool :=
  match v with
  | .obj m => m.all (fun kv => isIntegerLiteral kv.2)
  | _ => false

/-- 10.1 / 10.2 / 10.3 [v10+], written on the raw content, independently of any parser: each of the named levels, if
    present, is an integer literal; `users`, `events`, `notifications`, if present, are objects all of whose values are
    integer literals.  (`null` is not an integer and not an object.  "Present" = the content has a member of exactly
    that name: the rules name `ban`, `users`, ... — `Ban` or `USERS` are other, unrelated members.) -/
def integerContent (c : Option JVal) : Bool :=
  match contentFields c with
  | none => false
  | some kvs =>
    namedLevelKeys.all (fun k => match lookupExact kvs k with
      | none => true
      | some v => isIntegerLiteral v)
    && [b!"users", b!"events", b!"notifications"].all (fun k => match lookupExact kvs k with
      | none => true
      | some v => isIntegerMap v)

/-- the proposed content: [v10+] integers only (`integerContent`); before, D15: Python `int()` coercion of strings / floats -/
def newPowerLevels (d : Departures) (sv : SpecVersion) (e : Event) : Option PowerLevels :=
  if sv.integerLevels && !integerContent e.content then none
  else if d.d15_pythonInt then
    (match powerLevelsFromEvent e with
     | .ok pl => some pl
     | .error _ => none)
  else parseIntegerPowerLevels e.content PowerLevels.defaults

/-- a power-levels AUTH event the rules cannot read (10.1–10.3 fail for it, or its room version is unknown): nothing can
    be authorised against it -/
def plAuthEventUnusable (d : Departures) (ev : Event) : Bool :=
  match specVersion? ev.ver with
  | none => true
  | some sv => (newPowerLevels d sv ev).isNone

/-- strict localpart grammar (D8 off) -/
def strictLocalpart (l : Bytes) : Bool :=
  l.all (fun ch => (0x61 ≤ ch && ch ≤ 0x7A) || (0x30 ≤ ch && ch ≤ 0x39) || ch == 0x2E || ch == 0x5F || ch == 0x3D
                  || ch == 0x2D || ch == 0x2F || ch == 0x2B)

/-- 10.3 every key of `users` is a user ID (D8: historical grammar) -/
def userKeysValid (d : Departures) (new : PowerLevels) : Bool :=
  new.users.all (fun kv => match userOf kv.1 with
    | some u => d.d8_looseUserKeys || strictLocalpart u.localpart
    | none => false)

/-- raw presence of a key in the content of a power-levels event -/
def rawHas (ev : Option Event) (k : Bytes) : Bool :=
  match ev with
  | some x => (match contentFields x.content with
               | some kvs => (lookupExact kvs k).isSome
               | none => false)
  | none => false

/-- 10.5 named levels (D3 off: judged on the keys actually present: added / changed / removed)   -- unverified transcription -/
def namedLevelsTextual (L : Int) (c : Ctx) (e : Event) (old new : PowerLevels) : Bool :=
  let fields : List (Bytes × (PowerLevels → Int)) :=
    [(b!"ban", (·.ban)), (b!"invite", (·.invite)), (b!"kick", (·.kick)), (b!"redact", (·.redact)),
     (b!"state_default", (·.stateDefault)), (b!"events_default", (·.eventsDefault)), (b!"users_default", (·.usersDefault))]
  fields.all (fun f =>
    let ho := rawHas c.plEvent f.1
    let hn := rawHas (some e) f.1
    let o := f.2 old
    let n := f.2 new
    (ho == hn && (!ho || o == n)) || ((!ho || decide (o ≤ L)) && (!hn || decide (n ≤ L))))

/-- 10.6 / 10.7 entries of `events` (D4 off: a side on which the entry is absent is not compared)   -- unverified transcription -/
def eventEntriesTextual (L : Int) (old new : PowerLevels) : Bool :=
  (new.events.map (·.1) ++ old.events.map (·.1)).all (fun t =>
    match mapGet old.events t, mapGet new.events t with
    | some o, some n => o == n || (decide (o ≤ L) && decide (n ≤ L))
    | some o, none => decide (o ≤ L)
    | none, some n => decide (n ≤ L)
    | none, none => true)

/-- the named levels alone, on effective values (the first seven pairs of `checkEventLevels`) -/
def namedLevelsEffective (L : Int) (old new : PowerLevels) : Bool :=
  [(old.ban, new.ban), (old.invite, new.invite), (old.kick, new.kick), (old.redact, new.redact),
   (old.stateDefault, new.stateDefault), (old.eventsDefault, new.eventsDefault), (old.usersDefault, new.usersDefault)].all
    (fun p => p.1 == p.2 || (decide (p.1 ≤ L) && decide (p.2 ≤ L)))

/-- 10.5–10.7 -/
def ruleLevelChanges (d : Departures) (L : Int) (c : Ctx) (e : Event) (old new : PowerLevels) : Bool :=
  if d.d3_effectiveValues then
    (if d.d4_eventEntryDefault then checkEventLevels L old new               -- D3, D4: the C08 predicate
     else namedLevelsEffective L old new && eventEntriesTextual L old new)
  else namedLevelsTextual L c e old new && eventEntriesTextual L old new

/-- 10.6 / 10.7 for `notifications` [v6+] (D11: old value ≥ sender's level refused; spec: >) -/
def ruleNotifications (d : Departures) (L : Int) (old new : PowerLevels) : Bool :=
  if d.d11_notificationsGE then
    (notificationKeys old new).all (fun k =>
      let o := old.notificationLevel k
      let n := new.notificationLevel k
      o == n || (decide (n ≤ L) && decide (o < L)))
  else
    (notificationKeys old new).all (fun k =>
      let o := old.notificationLevel k
      let n := new.notificationLevel k
      o == n || (decide (n ≤ L) && decide (o ≤ L)))

/-- [v12] `users` names no creator -/
def ruleNoCreatorInUsers (c : Ctx) (new : PowerLevels) : Bool :=
  !new.users.any (fun kv => c.creators.contains kv.1)

def rulePowerLevels (d : Departures) (c : Ctx) (p : Provider) (sv : SpecVersion) (e : Event) : Bool :=
  ruleCommon d c p e                                                 -- 3, m.federate, 6, 8, 9
  && (match newPowerLevels d sv e with                               -- 10.1, 10.2 [v10+ integers]
      | none => false
      | some new =>
        let L := powerOf d c e.sender
        userKeysValid d new                                          -- 10.3
        && (!sv.creators || ruleNoCreatorInUsers c new)              -- [v12]
        && ((!d.d3_effectiveValues && c.plEvent.isNone)              -- 10.4 no previous power levels: allow (D3: compared with the defaults)
            || (ruleLevelChanges d L c e c.pl new                    -- 10.5–10.7
                && (!sv.notifications                                -- [v6+]; the sender's level incl. [v12] creators
                    || ruleNotifications d (powerOfWith sv.creators d c e.sender) c.pl new)
                && checkUserLevels L e.sender c.pl new)))            -- 10.8, 10.9

/-- the auth events hold a power-levels event the rules cannot read -/
def plUnusable (d : Departures) (p : Provider) : Bool :=
  match p.powerLevels with
  | some ev => plAuthEventUnusable d ev
  | none => false

/-! ## Rule 11: m.room.redaction -/

def ruleRedaction (d : Departures) (c : Ctx) (p : Provider) (e : Event) : Bool :=
  ruleCommon d c p e
  && (if d.d5_redactionByCreateContent then
        (match c.create.roomVersion with
         | some v => v != b!"1" && v != b!"2"                        -- [v3+] nothing more
         | none => false)
        || (match userOf e.sender, domainFromID e.redacts with
            | some u, some dom =>
              u.domain == dom                                        -- 11.2 (D5: the sender's domain)
              || decide (powerOf d c e.sender ≥ c.pl.redact)         -- 11.1
            | _, _ => !d.d17_redactsNeedsDomain && decide (powerOf d c e.sender ≥ c.pl.redact))   -- D17
      else
        !(e.ver == b!"1" || e.ver == b!"2")                          -- [v3+]
        || decide (powerOf d c e.sender ≥ c.pl.redact)               -- 11.1
        || (match domainFromID e.eventID, domainFromID e.redacts with   -- 11.2   -- unverified transcription
            | some a, some b => a == b
            | _, _ => false))

/-! ## Dispatch -/

/-- the rules that compare with the room's power levels: 5, 10, 11 and 6–9 / 12 -/
def rulesDecisionPL (d : Departures) (c : Ctx) (p : Provider) (sv : SpecVersion) (e : Event) (sig3pid : Bool) : Bool :=
  if e.type == b!"m.room.member" then ruleMember d c p sv e sig3pid                       -- 5
  else if e.type == b!"m.room.power_levels" then rulePowerLevels d c p sv e               -- 10
  else if e.type == b!"m.room.redaction" then ruleRedaction d c p e                       -- 11
  else ruleCommon d c p e                                                                 -- 6–9, 12

def rulesDecision (d : Departures) (c : Ctx) (p : Provider) (sv : SpecVersion) (e : Event) (sig3pid : Bool) : Bool :=
  if e.type == b!"m.room.create" then ruleCreate d sv e                                   -- 1
  else if e.type == b!"m.room.aliases" && aliasesRuleApplies d sv then ruleAliases d c e  -- 4
  -- every other rule compares with the room's power levels.  The defaults apply when the power-levels event is
  -- ABSENT; one that is present but unreadable licenses nothing
  else if plUnusable d p then false
  else rulesDecisionPL d c p sv e sig3pid

/-! ## The modelled domain -/

/-- Inputs the model (and this transcription) cover: a registered room version; a room ID the event constructors
    accept; identifiers without IPv6 literals wherever the rules look at them; no `mxid_mapping.signatures`; float
    levels within the exactly-representable range. -/
def inDomain (p : Provider) (e : Event) : Bool :=
  e.row.isSome
  && e.roomID != []
  && (parseUserID? e.sender).isSome
  && (if e.type == b!"m.room.create" then
        ((specVersion? e.ver).map (·.createRules) == some 3 || (domainFromID (e.roomID.drop 1)).isSome)
        && (match contentFields e.content with
            | some kvs => (decStringSlice (lookupExact kvs b!"additional_creators")).val.getD [] |>.all
                            (fun u => (parseUserID? u).isSome)
            | none => true)
      else if e.type == b!"m.room.aliases" then true
      else if e.type == b!"m.room.member" then
        !isUnmodelled (decodeMemberContent e.content)
        && !isUnmodelled (memberFromProvider p e.sender)
        && (match e.stateKey with
            | some t => !isUnmodelled (memberFromProvider p t)
            | none => true)
        && (match decodeMemberContent e.content with
            | .ok nm => (match nm.mxidMappingUserID with
                         | some uid => (parseUserID? uid).isSome
                         | none => true)
            | .error _ => true)
      else
        !isUnmodelled (memberFromProvider p e.sender)
        && (if e.type == b!"m.room.power_levels" then
              (match powerLevelsFromEvent e with
               | .ok pl => pl.users.all (fun kv => (parseUserID? kv.1).isSome)
               | .error v => !isUnmodelled (.error v : R Unit))
            else true))

/-! ## The rules -/

/-- Do the authorisation rules (with departures `d`) accept event `e` against the auth events `p`?
    `none`: outside the modelled domain.  Auth events from different rooms ⇒ refused. -/
def rulesAllow (d : Departures) (e : Event) (p : Provider) (sig3pid : Bool) : Option Bool :=
  if !p.valid then some false
  else match (({} : Ctx).update p) with
    | .error _ => none                     -- unmodelled identifier / level in the auth events
    | .ok c =>
      match specVersion? e.ver with
      | none => none                       -- unregistered room version
      | some sv => if inDomain p e then some (rulesDecision d c p sv e sig3pid) else none

def showVerdict : Option Bool → String
  | some true => "ok"
  | some false => "rej"
  | none => "unspecified:outside-domain"

end V.AuthRules
