/-
  VModel.Limits — the size / field-length decision an event goes through (C17):
    eventV1.go / eventV2.go / eventV3.go   newEventFromTrustedJSONVn (room-ID check at parse time),
                                           newEventFromUntrustedJSONVn (same check, then CheckFields),
    eventV2.go                             CheckFields, lenientByteLimitRoomVersions
    event.go                               checkID, maxIDLength, maxEventLength
    event_builder.go                       Build = marshal, hash, sign, NewEventFromTrustedJSON, CheckFields
  as a function of the sizes involved.  Everything else those functions do (JSON decoding, hashing,
  redaction of events whose content hash fails) is outside this model: the harness only submits
  canonical, correctly hashed events with non-nil auth/prev lists.  Core Lean only.
-/
import VModel.Ident
namespace V.Limits
open V.Ident

/-- outcome classes compared with the implementation -/
inductive Outcome where
  | ok
  | other                -- an error that is not EventValidationError (malformed ID, ...)
  | tooLarge             -- EventValidationError{Code: TooLarge, Persistable: false}
  | tooLargePersistable  -- EventValidationError{Code: TooLarge, Persistable: true}
  deriving DecidableEq, Repr

def Outcome.show : Outcome → String
  | .ok => "ok"
  | .other => "err:other"
  | .tooLarge => "err:toolarge"
  | .tooLargePersistable => "err:toolarge-persistable"

/-- the three classes the property distinguishes: accepted / refused / refused but persistable -/
inductive Class where
  | accepted
  | refused
  | persistable
  deriving DecidableEq, Repr

def Outcome.cls : Outcome → Class
  | .ok => .accepted
  | .other => .refused
  | .tooLarge => .refused
  | .tooLargePersistable => .persistable

def Class.show : Class → String
  | .accepted => "ok"
  | .refused => "refused"
  | .persistable => "persistable"

def Outcome.coarse (o : Outcome) : String := o.cls.show

/-- what is known about an identifier-valued field (sender, room_id) -/
structure IDSize where
  hasColon : Bool      -- domainFromID succeeds
  sigilOk : Bool       -- first byte is the expected sigil
  cp : Nat             -- utf8.RuneCountInString
  bytes : Nat          -- len
  deriving DecidableEq, Repr

/-- the sizes the decision depends on -/
structure Sizes where
  jsonLen : Nat
  typeCP : Nat
  typeBytes : Nat
  hasStateKey : Bool
  skCP : Nat
  skBytes : Nat
  sender : IDSize
  room : IDSize
  roomValid : Bool     -- spec.NewRoomID accepts the room ID (grammar incl. the 255-byte limit)
  create : Bool        -- type m.room.create with state key "" (eventV3.go checkRoomID treats such events apart)
  deriving DecidableEq, Repr

/-- which room-ID check the version's parse function applies (column newEventFromTrustedJSONFunc) -/
inductive RoomCheck where
  | checkID       -- newEventFromTrustedJSONV1 / V2: checkRoomIDField
  | prefixOnly    -- newEventFromTrustedJSONV3: checkRoomID = "starts with !", then spec.NewRoomID (non-create events);
                  -- create events: only the two length limits, on whatever room_id member is present
  deriving DecidableEq, Repr

/-- per-version parameters, all regenerated from the source (VGen) by the driver / the theorems -/
structure Params where
  maxID : Nat            -- maxIDLength
  maxEvent : Nat         -- maxEventLength
  lenient : Bool         -- version ∈ lenientByteLimitRoomVersions
  senderExempt : Bool    -- version is RoomVersionPseudoIDs (CheckFields skips the sender check)
  roomCheck : RoomCheck
  deriving DecidableEq, Repr

/-- `if err != nil { return err }` : the first failing check decides -/
def Outcome.andThen (a b : Outcome) : Outcome :=
  match a with
  | .ok => b
  | e => e

/-- checkID on sizes -/
def checkIDSize (maxID : Nat) (i : IDSize) : Outcome :=
  if !i.hasColon then .other
  else if !i.sigilOk then .other
  else if i.cp > maxID then .tooLarge
  else if i.bytes > maxID then .tooLargePersistable
  else .ok

/-- checkRoomIDField: checkID, whose persistable byte-limit error is turned into a NON-persistable one
    (no event is returned for it), then spec.NewRoomID -/
def checkRoomIDField (maxID : Nat) (room : IDSize) (roomValid : Bool) : Outcome :=
  match checkIDSize maxID room with
  | .ok => if roomValid then .ok else .other
  | .tooLargePersistable => .tooLarge
  | e => e

def soft (lenient : Bool) : Outcome := if lenient then .tooLargePersistable else .tooLarge

/-- CheckFields (auth / prev lists non-nil), /repo 591c527: JSON length; then ALL hard code-point limits
    (type, state key, sender: every version); then, except for RoomVersionPseudoIDs, the sender's shape
    (':' present, '@' sigil); then the byte limits (type, state key: Persistable = lenient table;
    sender: Persistable = true, every version) -/
def checkFields (p : Params) (s : Sizes) : Outcome :=
  if s.jsonLen > p.maxEvent then .tooLarge
  else if s.typeCP > p.maxID then .tooLarge
  else if s.hasStateKey && s.skCP > p.maxID then .tooLarge
  else if s.sender.cp > p.maxID then .tooLarge
  else if !p.senderExempt && !s.sender.hasColon then .other
  else if !p.senderExempt && !s.sender.sigilOk then .other
  else if s.typeBytes > p.maxID then soft p.lenient
  else if s.hasStateKey && s.skBytes > p.maxID then soft p.lenient
  else if s.sender.bytes > p.maxID then .tooLargePersistable
  else .ok

/-- the room-ID check of the parse functions.  `checkRoomID` of eventV3.go holds the room_id member of a CREATE event
    only to the two length limits (its room ID derives from the event ID; no event is returned on either overflow,
    so neither is persistable); `checkRoomIDField` makes no difference between event types. -/
def roomCheckOutcome (p : Params) (s : Sizes) : Outcome :=
  match p.roomCheck with
  | .checkID => checkRoomIDField p.maxID s.room s.roomValid
  | .prefixOnly =>
    if s.create then (if s.room.cp > p.maxID then .tooLarge else if s.room.bytes > p.maxID then .tooLarge else .ok)
    else if !s.room.sigilOk then .other else if s.roomValid then .ok else .other

/-- NewEventFromTrustedJSON followed by CheckFields (= the tail of EventBuilder.Build) -/
def verdict (p : Params) (s : Sizes) : Outcome :=
  (roomCheckOutcome p s).andThen (checkFields p s)

/-- NewEventFromUntrustedJSON (/repo 38b1ab6): room-ID check; the size limit on the canonical event AS
    RECEIVED, before the content hash is looked at; if the hash does not match the event is redacted
    (`checkedLen` = length of the redacted canonical JSON; type, state key, sender and room ID survive
    redaction) and CheckFields sees the redacted event; if it matches, `checkedLen = s.jsonLen`. -/
def verdictUntrusted (p : Params) (s : Sizes) (checkedLen : Nat) : Outcome :=
  (roomCheckOutcome p s).andThen
    (if s.jsonLen > p.maxEvent then .tooLarge else checkFields p { s with jsonLen := checkedLen })

/-- sizes of concrete fields (valid UTF-8) -/
def idSize (sigil : UInt8) (id : BS) : IDSize :=
  { hasColon := (domainFromID id).isSome, sigilOk := id.head? == some sigil, cp := runeCount id, bytes := id.length }

def sizesOf (jsonLen : Nat) (type : BS) (stateKey : Option BS) (sender room : BS) : Sizes :=
  { jsonLen := jsonLen, typeCP := runeCount type, typeBytes := type.length,
    hasStateKey := stateKey.isSome, skCP := runeCount (stateKey.getD []), skBytes := (stateKey.getD []).length,
    sender := idSize 0x40 sender, room := idSize 0x21 room, roomValid := (parseRoomID room).isSome,
    create := type == [0x6D, 0x2E, 0x72, 0x6F, 0x6F, 0x6D, 0x2E, 0x63, 0x72, 0x65, 0x61, 0x74, 0x65] && stateKey == some [] }

/-! ## SPECIFICATION (from the property text)

  "Events are refused on receipt and on build when their JSON exceeds 65 536 bytes or their type, state
   key, sender or room ID exceeds 255 code points, and are reported as too large but persistable when only
   the 255-byte limit is exceeded."

  For an event whose sender and room ID are well formed (sigil, ':'):
    hard  := json > 65536 bytes ∨ some of type / state_key / sender / room_id > 255 code points
    soft  := some of type / state_key / sender / room_id > 255 bytes
    refused (too large)            if hard
    too large but persistable      if soft ∧ ¬hard       ("only the 255-byte limit")
    accepted                       otherwise
  Events with a malformed sender / room ID (wrong sigil, no ':' where the version's IDs have one, or a
  room ID within the length limit that does not match the room-ID grammar) are outside this sentence
  (`none`); the classes are the three the sentence distinguishes (`Outcome.coarse`).
  In the room versions whose room IDs have no domain, the room of a CREATE event is named by its event ID:
  whatever `room_id` member such an event carries need not be a room ID (no well-formedness demanded), but
  it is a field of the event and the limits apply to it. -/
namespace Spec

def maxEventBytes : Nat := 65536
def maxFieldLen : Nat := 255

def hard (s : Sizes) : Bool :=
  s.jsonLen > maxEventBytes || s.typeCP > maxFieldLen || (s.hasStateKey && s.skCP > maxFieldLen) ||
  s.sender.cp > maxFieldLen || s.room.cp > maxFieldLen

def softOnly (s : Sizes) : Bool :=
  s.typeBytes > maxFieldLen || (s.hasStateKey && s.skBytes > maxFieldLen) ||
  s.sender.bytes > maxFieldLen || s.room.bytes > maxFieldLen

/-- `domainlessRoom`: the version's room IDs have no domain (room version 12 and its unstable twin);
    `pseudoSender`: the version's senders are pseudo-ID keys, not user IDs (org.matrix.msc4014). -/
def wellFormedIDs (domainlessRoom pseudoSender : Bool) (s : Sizes) : Bool :=
  (pseudoSender || (s.sender.hasColon && s.sender.sigilOk)) &&
  ((domainlessRoom && s.create) ||
   (s.room.sigilOk && (domainlessRoom || s.room.hasColon) && (s.roomValid || s.room.bytes > maxFieldLen)))

def verdict (domainlessRoom pseudoSender : Bool) (s : Sizes) : Option Outcome :=
  if !wellFormedIDs domainlessRoom pseudoSender s then none
  else if hard s then some .tooLarge
  else if softOnly s then some .tooLargePersistable
  else some .ok

end Spec
end V.Limits
