/-
  VModel.WellKnown — executable model of fclient/well_known.go: LookupWellKnown, from the HTTP reply
  on: status check, declared Content-Length check, cache lifetime (Expires, then Cache-Control
  max-age which overrides it), bounded read (limit + 1 bytes, refuse bodies over the limit), JSON
  decoding of `m.server`, non-empty check.  Core Lean only.

  Parameters (external calls, std-lib):
    * `expiresTime` : the result of time.Parse("Mon, 02 Jan 2006 15:04:05 MST", Expires).Unix()
    * `decode`      : json.Unmarshal of the body into a map and of its member `m.server` into a string
                      (`decodeDoc` on the parsed document: syntax is encoding/json's, trusted)
    * `now`         : time.Now().Unix()
-/
import VModel.Json
namespace V.WellKnown

abbrev Str := List Char

/-- WellKnownMaxSize (regenerated: VGen.fclientIntConsts) -/
def maxSize : Nat := 51200

structure Reply where
  status : Nat
  contentLength : Str      -- resp.Header.Get("Content-Length"), "" when absent
  cacheControl : List Str  -- resp.Header.Values("Cache-Control"): one entry per header line
  expires : Str            -- resp.Header.Get("Expires")
  body : Bytes             -- everything resp.Body yields
  deriving Repr

/-- json.Unmarshal(body, &document) -/
inductive Decoded where
  | error
  | ok (mServer : Bytes)
  deriving Repr, DecidableEq

inductive WKErr where
  | status        -- errNoWellKnown
  | size          -- declared or actual size over the limit
  | decode        -- json.Unmarshal failed
  | noServer      -- "No m.server key found"
  deriving Repr, DecidableEq

structure Result where
  newAddress : Bytes
  cacheExpiresAt : Int
  deriving Repr, DecidableEq

/-! ## strconv -/

def isDigit (c : Char) : Bool := 48 ≤ c.toNat && c.toNat ≤ 57
def natOfDigits (s : Str) : Nat := s.foldl (fun n c => n * 10 + (c.toNat - 48)) 0

/-- strconv.ParseInt(s, 10, 64) (= strconv.Atoi on a 64-bit platform): optional sign, at least one
    digit, digits only, value within int64. -/
def parseInt64 (s : Str) : Option Int :=
  let (neg, ds) : Bool × Str := match s with
    | '-' :: r => (true, r)
    | '+' :: r => (false, r)
    | r => (false, r)
  if ds.isEmpty || !ds.all isDigit then none
  else
    let n := natOfDigits ds
    if neg then (if n ≤ 9223372036854775808 then some (-(n : Int)) else none)
    else (if n ≤ 9223372036854775807 then some (n : Int) else none)

/-- int64 addition wraps -/
def wrap64 (x : Int) : Int := (x + 9223372036854775808) % 18446744073709551616 - 9223372036854775808

/-! ## strings -/

/-- strings.Split(s, ",") -/
def splitComma : Str → Str → List Str
  | [], cur => [cur.reverse]
  | c :: rest, cur => if c == ',' then cur.reverse :: splitComma rest [] else splitComma rest (c :: cur)

def dropSpaces : Str → Str
  | ' ' :: rest => dropSpaces rest
  | s => s

/-- strings.Trim(s, " ") -/
def trimSpaces (s : Str) : Str := (dropSpaces (dropSpaces s).reverse).reverse

/-- strings.SplitN(s, "=", 2): `none` when there is no '=' (one piece) -/
def splitEq : Str → Str → Option (Str × Str)
  | [], _ => none
  | c :: rest, acc => if c == '=' then some (acc.reverse, rest) else splitEq rest (c :: acc)

/-- strings.Join(lines, ",") -/
def joinComma : List Str → Str
  | [] => []
  | [l] => l
  | l :: rest => l ++ ',' :: joinComma rest

def lower (c : Char) : Char := if 65 ≤ c.toNat && c.toNat ≤ 90 then Char.ofNat (c.toNat + 32) else c

/-- strings.EqualFold(s, "max-age"): no character outside ASCII folds to a letter of "max-age" -/
def isMaxAge (s : Str) : Bool := s.map lower == "max-age".toList

/-! ## LookupWellKnown -/

/-- the Cache-Control loop: every well-formed max-age directive overwrites the expiry -/
def applyCacheControl (now : Int) : List Str → Int → Int
  | [], expiry => expiry
  | kv :: rest, expiry =>
    let kv := trimSpaces kv
    match splitEq kv [] with
    | some (k, v) =>
      if isMaxAge k then
        match parseInt64 v with
        | some age => applyCacheControl now rest (wrap64 (age + now))
        | none => applyCacheControl now rest expiry
      else applyCacheControl now rest expiry
    | none => applyCacheControl now rest expiry

/-- `cacheControlHeader := strings.Join(resp.Header.Values("Cache-Control"), ",")` -/
def expiryOf (r : Reply) (now : Int) (expiresTime : Option Int) : Int :=
  let e0 : Int := if !r.expires.isEmpty then (match expiresTime with | some t => t | none => 0) else 0
  let cc := joinComma r.cacheControl
  if !cc.isEmpty then applyCacheControl now (splitComma cc []) e0 else e0

/-- the key of the member a well-known document delegates with -/
def mServerKey : Bytes := [0x6D, 0x2E, 0x73, 0x65, 0x72, 0x76, 0x65, 0x72]    -- "m.server"

/-- the values of the members whose key is EXACTLY `m.server` (after unescaping), in document order; a key
    that merely folds to it (`M.SERVER`, `m.ſerver`) is another key -/
def mServerMembers (kvs : List (Bytes × Bytes × Json.PVal)) : List Json.PVal :=
  (kvs.filter (fun kv => kv.2.1 == mServerKey)).map (fun kv => kv.2.2)

/-- `json.Unmarshal(body, &document)` with `document map[string]json.RawMessage`, then
    `json.Unmarshal(document["m.server"], &newAddress)`, on a parsed body: a top-level `null` leaves the map
    nil; any other non-object is an error; of several members named `m.server` the map keeps the last; a
    string is stored, `null` leaves the address empty, anything else is an error. -/
def decodeLast : Option Json.PVal → Decoded
  | none => .ok []
  | some (.str _ dec) => .ok dec
  | some .null => .ok []
  | some _ => .error

def decodeDoc : Json.PVal → Decoded
  | .null => .ok []
  | .obj kvs => decodeLast (mServerMembers kvs).getLast?
  | _ => .error

/-- the decoder LookupWellKnown applies to the bytes it read, given encoding/json's syntax as `parse` -/
def decodeBody (parse : Bytes → Option Json.PVal) (body : Bytes) : Decoded :=
  match parse body with
  | none => .error
  | some p => decodeDoc p

def lookup (r : Reply) (now : Int) (expiresTime : Option Int) (decode : Bytes → Decoded) : Except WKErr Result :=
  if r.status != 200 then .error .status
  else
    -- if l, err := strconv.Atoi(contentLengthHeader); err == nil && l > WellKnownMaxSize
    let tooLong : Bool := match parseInt64 r.contentLength with
      | some l => decide (l > (maxSize : Int))
      | none => false
    if tooLong then .error .size
    else
      let expiry := expiryOf r now expiresTime
      -- io.ReadAll(&io.LimitedReader{R: resp.Body, N: WellKnownMaxSize + 1})
      let body := r.body.take (maxSize + 1)
      if body.length > maxSize then .error .size
      else
        match decode body with
        | .error => .error .decode
        | .ok addr => if addr.isEmpty then .error .noServer else .ok ⟨addr, expiry⟩

/-! ## Specification -/
namespace Spec

/-- a Cache-Control directive that is a well-formed max-age: `max-age=<int64>` (name case-insensitive,
    surrounding spaces ignored) -/
def maxAgeOf (directive : Str) : Option Int :=
  match splitEq (trimSpaces directive) [] with
  | some (k, v) => if isMaxAge k then parseInt64 v else none
  | none => none

/-- the max-age a Cache-Control header announces (the last well-formed one), if any -/
def maxAge (cacheControl : Str) : Option Int :=
  ((splitComma cacheControl []).filterMap maxAgeOf).getLast?

/-- the max-age a reply announces: the last well-formed max-age directive of its Cache-Control header
    lines taken together (several lines of a list-valued header are one list: RFC 9110 §5.3) -/
def maxAgeLines (lines : List Str) : Option Int :=
  ((lines.flatMap (fun l => splitComma l [])).filterMap maxAgeOf).getLast?

/-- C16: the cache lifetime is taken from max-age in preference to Expires (0 = no lifetime given) -/
def lifetime (r : Reply) (now : Int) (expiresTime : Option Int) : Int :=
  match maxAgeLines r.cacheControl with
  | some age => wrap64 (age + now)
  | none => if r.expires.isEmpty then 0 else expiresTime.getD 0

/-- C16: "names an m.server".  What a parsed document delegates to: `some addr` when it is an object with
    ONE member named exactly `m.server` whose value is a non-empty string; `none` when it names none.
    Documents with several members named `m.server` are outside the quantifier (`dupServer`): JSON leaves
    their meaning open. -/
def namesServer : Json.PVal → Option Bytes
  | .obj kvs =>
    match mServerMembers kvs with
    | [.str _ dec] => if dec.isEmpty then none else some dec
    | _ => none
  | _ => none

def dupServer : Json.PVal → Bool
  | .obj kvs => (mServerMembers kvs).length > 1
  | _ => false

end Spec

end V.WellKnown
