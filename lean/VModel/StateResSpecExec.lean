/-
  VModel.StateResSpecExec — an EXECUTABLE rendering of the definition in VModel/StateResSpec.lean, written directly
  from the definitions (sets by comprehension over the supplied events, reachability by saturation, the power order
  by repeatedly selecting the greatest free event, the mainline by its recursive description) and sharing no loop
  with the model `VModel/StateRes.lean`.  It lets the driver print a specification answer that is computed
  independently of the model (three-way comparison impl / model / spec).  Events are compared by event ID
  (the input is assumed well-formed: IDs identify events).  Core Lean only.
-/
import VModel.StateResSpec
namespace V.StateResSpec.Exec
open V Json GoJson Auth
open V.StateRes (ID isPLEvent isControlEvent PowerKey OtherKey powerLt otherLt)
open V.StateResSpec

def sameID (a b : Event) : Bool := a.eventID == b.eventID

def memID (l : List Event) (e : Event) : Bool := l.any (sameID e)

/-- distinct events (by ID), first occurrence kept -/
def distinct : List Event → List Event
  | [] => []
  | e :: es => e :: (distinct es).filter (fun x => !sameID e x)

/-! ## unconflicted / conflicted by definition -/

/-- every state set maps the key of `e` to `e` and to nothing else -/
def isUnconflicted (sets : List (List Event)) (e : Event) : Bool :=
  (keyOf e).isSome && !sets.isEmpty &&
  sets.all (fun S => memID S e && S.all (fun x => !(keyOf x == keyOf e) || sameID x e))

def stateEvents (sets : List (List Event)) : List Event := (distinct sets.flatten).filter (fun e => (keyOf e).isSome)

def unconflicted (sets : List (List Event)) : List Event := (stateEvents sets).filter (isUnconflicted sets)
def conflicted (sets : List (List Event)) : List Event := (stateEvents sets).filter (fun e => !isUnconflicted sets e)

/-! ## reachability by saturation -/

def parentsIn (m : List Event) (x : Event) : List Event := m.filter (fun y => x.authEventIDs.contains y.eventID)

/-- `saturate m n S`: add the parents (within `m`) of everything in `S` until nothing new appears (at most `n` times) -/
def saturate (m : List Event) : Nat → List Event → List Event
  | 0, S => S
  | n + 1, S =>
    let S' := distinct (S ++ (S.map (parentsIn m)).flatten)
    if S'.length == S.length then S else saturate m n S'

/-- events reachable from `x` by ≥ 1 auth step inside `m` (paths have at most |m| distinct inner nodes) -/
def reachPlus (m : List Event) (x : Event) : List Event := saturate m m.length (distinct (parentsIn m x))

/-- the reachability relation inside `m`, tabulated for the events `U` (by event ID) -/
abbrev ReachTable := List (ID × List ID)

def reachTable (m U : List Event) : ReachTable := U.map (fun x => (x.eventID, (reachPlus m x).map (·.eventID)))

def ReachTable.plus (t : ReachTable) (x y : Event) : Bool :=
  match t.find? (fun r => r.1 == x.eventID) with
  | some r => r.2.contains y.eventID
  | none => false

def ReachTable.star (t : ReachTable) (x y : Event) : Bool := sameID x y || t.plus x y

def inAuthChain (t : ReachTable) (S : List Event) (y : Event) : Bool := S.any (fun s => t.plus s y)

def authDifference (t : ReachTable) (m : List Event) (sets : List (List Event)) : List Event :=
  m.filter (fun y => sets.any (fun S => inAuthChain t S y) && !sets.all (fun S => inAuthChain t S y))

def subgraph (t : ReachTable) (m conf : List Event) (sets : List (List Event)) : List Event :=
  let U := distinct (sets.flatten ++ m)
  let confU := U.filter (memID conf)
  U.filter (fun x =>
    sets.any (fun S => S.any (fun o => memID conf o && t.star o x)) && confU.any (fun c => t.star x c))

def fullConflicted (algo : Nat) (t : ReachTable) (m : List Event) (sets : List (List Event)) : List Event :=
  distinct (conflicted sets ++ authDifference t m sets ++ (if algo == 3 then subgraph t m (conflicted sets) sets else []))

/-! ## control set -/

def controlRoots (full unconf : List Event) : List Event :=
  full.filter (fun r => !memID unconf r && isControlEvent r)

def controlSet (conf full unconf : List Event) : List Event :=
  let U := distinct (full ++ conf)
  let roots := controlRoots full unconf
  let t := reachTable conf roots
  U.filter (fun x => roots.any (fun r => t.star r x))

def otherSet (conf full unconf : List Event) : List Event :=
  let ctl := controlSet conf full unconf
  full.filter (fun x => !memID unconf x && !memID ctl x)

/-! ## power order: repeatedly take the greatest free event, building the order from its end -/

def isFree (U : List Event) (x : Event) : Bool := U.all (fun a => !a.authEventIDs.contains x.eventID)

def greatest (lt : Event → Event → Bool) : List Event → Option Event
  | [] => none
  | x :: xs => match greatest lt xs with
    | none => some x
    | some y => if lt y x then some x else some y

def powerOrderAux (lt : Event → Event → Bool) : Nat → List Event → List Event → List Event
  | 0, _, acc => acc
  | n + 1, U, acc =>
    match greatest lt (U.filter (isFree U)) with
    | none => acc          -- cyclic input: outside the definition
    | some x => powerOrderAux lt n (U.filter (fun y => !sameID x y)) (x :: acc)

def powerOrder (m : List Event) (createEv : Option Event) (input : List Event) : List Event :=
  let U := distinct input
  let keys := U.map (fun e => (e.eventID, powerKey m createEv e))
  let keyOf' := fun (e : Event) => ((keys.find? (fun k => k.1 == e.eventID)).map (·.2)).getD (powerKey m createEv e)
  powerOrderAux (fun a b => powerLt (keyOf' a) (keyOf' b)) U.length U []

/-! ## mainline -/

/-- the recursive description `MainlineOf`, with fuel for the DEPTH of the recursion only
    (an acyclic auth map has power-levels chains of at most |m| + 1 events) -/
def mainlineOf (m : List Event) : Nat → List Event → List Event
  | 0, _ => []
  | n + 1, ps => ps.foldr (fun p acc => acc ++ (mainlineOf m n (plParents m p) ++ [p])) []

def mainline (m : List Event) (pl : Option Event) : List Event :=
  match pl with
  | none => []
  | some e => mainlineOf m (m.length + 3) [e]

/-- one list of the recursive description `Walk`; `down` walks the power-levels auth events of an event -/
def walkList (m ml : List Event) (down : List Event → Nat × Nat → Nat × Nat) : List Event → Nat × Nat → Nat × Nat
  | [], st => st
  | p :: rest, st => match posOf ml p.eventID with
    | some pos => (pos, st.2)
    | none => walkList m ml down rest (down (plParents m p) (st.1, st.2 + 1))

def walk (m ml : List Event) : Nat → List Event → Nat × Nat → Nat × Nat
  | 0, _, st => st
  | n + 1, ps, st => walkList m ml (walk m ml n) ps st

def posSteps (m ml : List Event) (e : Event) : Nat × Nat :=
  walk m ml (m.length + 3) (plParents m e) (0, 0)

def insertSortedK (x : Event × OtherKey) : List (Event × OtherKey) → List (Event × OtherKey)
  | [] => [x]
  | y :: ys => if otherLt x.2 y.2 then x :: y :: ys else y :: insertSortedK x ys

def mainlineOrder (m ml : List Event) (input : List Event) : List Event :=
  ((input.map (fun e => (e, otherKeyOf e (posSteps m ml e)))).foldr insertSortedK []).map (·.1)

/-! ## partial state as an association list; iterative auth checks -/

abbrev AMap := List (Key × Event)

def AMap.get (s : AMap) (k : Key) : Option Event := (s.find? (fun x => x.1 == k)).map (·.2)
def AMap.set (s : AMap) (k : Key) (e : Event) : AMap := (s.filter (fun x => !(x.1 == k))) ++ [(k, e)]
def AMap.toSMap (s : AMap) : SMap := fun k => s.get k

def applyOneA (s : AMap) (e : Event) : AMap := match keyOf e with
  | none => s
  | some k => s.set k e

def authStepA (m : List Event) (rejected : List ID) (s : AMap) (e : Event) : AMap :=
  match allowedFresh e (Provider.ofEvents (providerEvents m rejected s.toSMap e)) false with
  | .ok => applyOneA s e
  | _ => s

/-- the first supplied event per ID -/
def authMap (auth : List Event) : List Event := distinct auth

/-- the whole definition, executed -/
def resolve (algo : Nat) (sets : List (List Event)) (auth : List Event) (rejected : List ID) : List ID :=
  let m := authMap auth
  let conf := conflicted sets
  let unconf := unconflicted sets
  let t := reachTable m (distinct (sets.flatten ++ m))
  let full := fullConflicted algo t m sets
  let ctl := controlSet conf full unconf
  let oth := otherSet conf full unconf
  let cre := roomCreate unconf auth conf
  let s1 : AMap := if algo == 2 then (powerOrder m cre unconf).foldl applyOneA [] else []
  let ctlOrder := powerOrder m (createFor s1.toSMap cre) ctl
  let s2 := ctlOrder.foldl (authStepA m rejected) s1
  let ml := mainline m (s2.get (b!"m.room.power_levels", []))
  let othOrder := mainlineOrder m ml oth
  let s3 := othOrder.foldl (authStepA m rejected) s2
  let s4 := unconf.foldl applyOneA s3
  s4.map (·.2.eventID)

/-! ## Version 1: the definition `V1Result` (VModel/StateResSpec.lean: `ConflictedV1`, `phaseBlocks`, `IsV1Order`,
    `AuthBlockRun`, `afterBlock`, `PhaseRun`, `registerAll`, `IsNormalWinner`, `V1Resolves`) executed clause by clause.
    It shares the registered-auth-events record `V1State` and the auth check `v1Allowed` with the definition (which is
    stated over them) and no loop with the model's `resolveV1` (its grouping, sorting and block functions are not used). -/

open V.StateRes (V1State v1Allowed v1Lt)

/-- some state set maps the key of `e` to another event -/
def isConflictedV1 (sets : List (List Event)) (e : Event) : Bool :=
  (keyOf e).isSome && sets.any (fun S => S.any (fun x => keyOf x == keyOf e && !sameID x e))

/-- `IsV1Order`: insert each candidate into the list ordered by (depth ascending, SHA-1 descending) -/
def insertV1 (sha : ID → Bytes) (x : Event) : List Event → List Event
  | [] => [x]
  | y :: ys => if v1Lt (v1Key sha x) (v1Key sha y) then x :: y :: ys else y :: insertV1 sha x ys

def v1Order (sha : ID → Bytes) (block : List Event) : List Event := block.foldr (insertV1 sha) []

/-- `AuthBlockRun`: (winner, registered events after the run) -/
def authBlockRun (valid : Bool) : V1State → Event → List Event → Event × V1State
  | s, w, [] => (w, s)
  | s, w, e :: more => if v1Allowed s valid e then authBlockRun valid (s.addAuthEvent e) e more else (w, s)

/-- `PhaseRun`: (registered events after the phase, winners) -/
def phaseRun (sha : ID → Bytes) (valid : Bool) : V1State → List (List Event) → V1State × List Event
  | s, [] => (s, [])
  | s, block :: blocks =>
    match v1Order sha block with
    | [] => phaseRun sha valid s blocks
    | c0 :: rest =>
      let r := authBlockRun valid (s.addAuthEvent c0) c0 rest
      let t := phaseRun sha valid (afterBlock s r.2 c0 r.1) blocks
      (t.1, r.1 :: t.2)

/-- `IsNormalWinner`: the last candidate after the first that passes the check, else the first -/
def normalWinner (valid : Bool) (s : V1State) : List Event → Option Event
  | [] => none
  | c0 :: rest => some (((rest.filter (fun e => v1Allowed s valid e)).getLast?).getD c0)

def sameRoom (auth : List Event) : Bool := auth.all (fun a => auth.all (fun b => a.roomID == b.roomID))

/-- `V1Resolves`, executed -/
def v1Resolve (sha : ID → Bytes) (conflicted auth : List Event) : List Event :=
  let valid := sameRoom auth
  let p0 := phaseRun sha valid (registerAll {} auth) (phaseBlocks conflicted 0)
  let p1 := phaseRun sha valid (registerAll p0.1 p0.2) (phaseBlocks conflicted 1)
  let p2 := phaseRun sha valid (registerAll p1.1 p1.2) (phaseBlocks conflicted 2)
  let p3 := phaseRun sha valid (registerAll p2.1 p2.2) (phaseBlocks conflicted 3)
  let p4 := phaseRun sha valid (registerAll p3.1 p3.2) (phaseBlocks conflicted 4)
  let r6 := (phaseBlocks conflicted 5).filterMap (fun b => normalWinner valid (registerAll p4.1 p4.2) (v1Order sha b))
  p0.2 ++ p1.2 ++ p2.2 ++ p3.2 ++ p4.2 ++ r6

/-- `V1Result`, executed: the version-1 entry point -/
def v1Result (sha : ID → Bytes) (sets : List (List Event)) (auth : List Event) : List ID :=
  let st := stateEvents sets
  (v1Resolve sha (st.filter (isConflictedV1 sets)) auth ++ st.filter (fun e => !isConflictedV1 sets e)).map (·.eventID)

end V.StateResSpec.Exec
