/-
  GoSem — the target of the statement-by-statement translator `tools/extract/trans.go`.

  The translator reads whitelisted small pure functions from /repo's CURRENT source and prints each as a Lean
  definition in `VGen/Trans*.lean` using only the vocabulary below; `VProps/Trans*.lean` then proves, for ALL inputs,
  that the translated definition equals the corresponding definition of the hand-written model.  A semantic edit
  of such a Go function therefore breaks a kernel-checked theorem (not merely a syntactic pin), while a harmless
  rewrite that stays inside the translatable subset re-proves.

  Go semantics assumed by the translation (this list is part of the trusted base, DESIGN.md §14):
  * `int`, `int64`, `uint64`, `rune`, `spec.Timestamp` values that are only COMPARED are mathematical integers (`Int`);
    integer arithmetic on them (`i+1`, `i-2` as slice indexes) is unbounded — an `int` index near 2^63 cannot occur
    for a slice that fits in memory.
  * `uint32` arithmetic wraps modulo 2^32 (`u32add`, `u32sub`); `&`, `|`, `>>` are the bitwise operations on the
    value (`Nat.land`, `Nat.lor`, `Nat.shiftRight`), which stay below 2^32.
  * `s[i]` on a `[]byte` / `string` panics unless `0 ≤ i < len(s)`: `idx` returns `none` (= panic).
  * `&&` / `||` evaluate their right operand only when needed (`andM` / `orM` when the operand can panic).
  * `strings.Compare` / `bytes.Compare` compare byte-wise lexicographically and return -1, 0 or 1.
  * a `map[string]int64` is an association list read with `mapGet` (`v, ok := m[k]`: `v` is the zero value when absent);
    string constants are the lists of their UTF-8 bytes.
  * `strconv.Atoi` is `atoi` below (sign, ASCII decimal digits, int64 range; `err != nil` is `isNone`).
  * `binary.BigEndian.Uint32(b)` panics unless `len(b) ≥ 4` and reads the first four bytes, most significant first.
-/
namespace GoSem

abbrev Bytes := List UInt8

/-- `len(s)` -/
def len (s : Bytes) : Int := Int.ofNat s.length

/-- `s[i]`; `none` is a run-time panic (index out of range). -/
def idx (s : Bytes) (i : Int) : Option UInt8 :=
  if 0 ≤ i then s[i.toNat]? else none

/-- `a && b` where `b` may panic: `b` is evaluated only if `a` holds. -/
def andM (a : Option Bool) (b : Option Bool) : Option Bool :=
  match a with
  | none => none
  | some false => some false
  | some true => b

/-- `a || b` where `b` may panic. -/
def orM (a : Option Bool) (b : Option Bool) : Option Bool :=
  match a with
  | none => none
  | some true => some true
  | some false => b

/-- byte-wise lexicographic three-way comparison (`strings.Compare`, `bytes.Compare`) -/
def compareBytes : Bytes → Bytes → Int
  | [], [] => 0
  | [], _ :: _ => -1
  | _ :: _, [] => 1
  | x :: xs, y :: ys => if x < y then -1 else if y < x then 1 else compareBytes xs ys

/-- `v, ok := m[k]` on a `map[string]int64` (keys are unique in a Go map): `some v` iff present -/
def mapGet (m : List (Bytes × Int)) (k : Bytes) : Option Int :=
  (m.find? (fun kv => kv.1 == k)).map (·.2)

/-- `strconv.Atoi` (Go `int` = int64): optional sign, at least one digit, ASCII decimal digits only (no underscores,
    no base prefixes), value within int64; anything else is an error (`none`). -/
def atoiDigits : List UInt8 → Nat → Option Nat
  | [], acc => some acc
  | b :: rest, acc =>
    if 48 ≤ b.toNat ∧ b.toNat ≤ 57 then atoiDigits rest (acc * 10 + (b.toNat - 48)) else none

def atoi (s : Bytes) : Option Int :=
  match s with
  | [] => none
  | c :: rest =>
    let neg := c == 45
    let ds := if c == 45 || c == 43 then rest else s
    match ds with
    | [] => none
    | _ :: _ =>
      match atoiDigits ds 0 with
      | none => none
      | some n =>
        let v : Int := if neg then -(n : Int) else (n : Int)
        if -9223372036854775808 ≤ v ∧ v ≤ 9223372036854775807 then some v else none

def u32mod : Nat := 4294967296

def u32add (x y : Nat) : Nat := (x + y) % u32mod
def u32sub (x y : Nat) : Nat := (x + u32mod - y % u32mod) % u32mod

/-- `binary.BigEndian.Uint32(b)` -/
def beUint32 (b : Bytes) : Option Nat :=
  match b with
  | a :: b :: c :: d :: _ => some (((a.toNat * 256 + b.toNat) * 256 + c.toNat) * 256 + d.toNat)
  | _ => none

/-- `for i := 0; i < len(s); i++ { c := s[i]; body }` where `body` either `continue`s (`none`) or returns
    (`some r`): the first return, if any. -/
def forBytes {ρ} (s : Bytes) (body : UInt8 → Option ρ) : Option ρ :=
  match s with
  | [] => none
  | c :: rest => match body c with
    | some r => some r
    | none => forBytes rest body

/-- the statements after a loop run only if the loop did not return -/
def afterLoop {ρ} (o : Option ρ) (k : ρ) : ρ :=
  match o with
  | some r => r
  | none => k

/-- a loop whose body refuses exactly the bytes failing `p` computes `all p` -/
theorem forBytes_pred (s : Bytes) (body : UInt8 → Option Bool) (p : UInt8 → Bool)
    (h : ∀ c, body c = if p c then none else some false) :
    afterLoop (forBytes s body) true = s.all p := by
  induction s with
  | nil => simp [forBytes, afterLoop]
  | cons c rest ih =>
    simp only [forBytes, List.all_cons, h c]
    cases hp : p c
    · simp [afterLoop]
    · simpa using ih

/-- a statement about every byte follows from its 256 instances -/
theorem forall_uint8 {p : UInt8 → Prop} (h : ∀ i : Fin 256, p (UInt8.ofNat i.val)) : ∀ c, p c := by
  intro c
  have := h ⟨c.toNat, c.toNat_lt⟩
  simpa using this

end GoSem
