/-
  VModel.AuthQuerier — `Allowed(event, authEvents, q)` for the querier that answers `(nil, nil)` for a sender that is
  not a user ID (`Auth.nilQuerier`): the dispatch of `allowerContext.allowed` with the two sender lookups that had no
  nil guard (`Ctx.createEventAllowedQ`, `Ctx.aliasEventAllowedQ`: defect P2 of the second audit round).  Core Lean only.

  The other eight lookups of a `spec.UserIDForSender` (lean/VModel/PanicSites.md §7) test `sender == nil` right after
  `err != nil` and refuse the event with `errorf(…)` at the point where the standard querier's error is returned; the
  model keeps `Ctx.allowed`'s answer for those event classes — `err` where the Go code now answers `NotAllowed`.  The
  correspondence stream compares accepted / refused (`Verdict.coarse`), for which the two are the same.
-/
import VModel.Auth
namespace V.Auth

/-- the dispatch by event type of `allowerContext.allowed` with the querier `nilQuerier` -/
def Ctx.dispatchNilQ (a : Ctx) (e : Event) (sig3pid : Bool := false) : R Unit :=
  if e.type == b!"m.room.create" then a.createEventAllowedQ nilQuerier e
  else if e.type == b!"m.room.aliases" then a.aliasEventAllowedQ nilQuerier e
  else match a.plErr with
    | some v => .error v
    | none => a.dispatchPL e sig3pid

def Ctx.allowedNilQ (a : Ctx) (e : Event) (sig3pid : Bool := false) : R Unit :=
  if !a.provider.valid then notAllowed else a.dispatchNilQ e sig3pid

/-- `Allowed(event, authEvents, nilQuerier)` -/
def allowedFreshNilQ (e : Event) (p : Provider) (sig3pid : Bool := false) : Verdict :=
  if !p.valid then .notAllowed
  else match (({} : Ctx).update p) with
    | .error v => v
    | .ok ctx => match ctx.allowedNilQ e sig3pid with
      | .ok () => .ok
      | .error v => v

end V.Auth
