/-
  VModel.B64 — executable model of spec/base64.go (spec.Base64Bytes) for C17:
    Encode        = base64.RawStdEncoding.EncodeToString
    Decode(str)   = if strings.ContainsAny(str, "-_") then RawURLEncoding.DecodeString(str)
                    else RawStdEncoding.DecodeString(str)
    MarshalJSON   = json.Marshal(Encode())           UnmarshalJSON = json.Unmarshal into a string, then Decode
  Go's encoding/base64 (unpadded, non-strict) is modelled from its source (decodeQuantum):
    * '\r' and '\n' are skipped wherever they occur;
    * any other byte outside the alphabet (including '=': the Raw encodings have no padding character) is an error;
    * a final quantum of 1 character is an error, of 2 / 3 characters yields 1 / 2 bytes and the unused low
      bits are NOT checked (non-strict encodings);
    * on error the bytes decoded so far are dropped here (Base64Bytes.Decode returns the error; callers test it).
  Core Lean only.  The specification (bit-string reading of RFC 4648 §5 / §3.2) is in `V.B64.Spec`.
-/
namespace V.B64

abbrev BS := List UInt8

/-- RFC 4648 table 1 ("A–Z a–z 0–9 + /") as Go's `encodeStd` -/
def stdAlphabet : List UInt8 := [
  0x41, 0x42, 0x43, 0x44, 0x45, 0x46, 0x47, 0x48, 0x49, 0x4A, 0x4B, 0x4C, 0x4D, 0x4E, 0x4F, 0x50,
  0x51, 0x52, 0x53, 0x54, 0x55, 0x56, 0x57, 0x58, 0x59, 0x5A, 0x61, 0x62, 0x63, 0x64, 0x65, 0x66,
  0x67, 0x68, 0x69, 0x6A, 0x6B, 0x6C, 0x6D, 0x6E, 0x6F, 0x70, 0x71, 0x72, 0x73, 0x74, 0x75, 0x76,
  0x77, 0x78, 0x79, 0x7A, 0x30, 0x31, 0x32, 0x33, 0x34, 0x35, 0x36, 0x37, 0x38, 0x39, 0x2B, 0x2F]

/-- RFC 4648 table 2 ("A–Z a–z 0–9 - _") as Go's `encodeURL` -/
def urlAlphabet : List UInt8 := [
  0x41, 0x42, 0x43, 0x44, 0x45, 0x46, 0x47, 0x48, 0x49, 0x4A, 0x4B, 0x4C, 0x4D, 0x4E, 0x4F, 0x50,
  0x51, 0x52, 0x53, 0x54, 0x55, 0x56, 0x57, 0x58, 0x59, 0x5A, 0x61, 0x62, 0x63, 0x64, 0x65, 0x66,
  0x67, 0x68, 0x69, 0x6A, 0x6B, 0x6C, 0x6D, 0x6E, 0x6F, 0x70, 0x71, 0x72, 0x73, 0x74, 0x75, 0x76,
  0x77, 0x78, 0x79, 0x7A, 0x30, 0x31, 0x32, 0x33, 0x34, 0x35, 0x36, 0x37, 0x38, 0x39, 0x2D, 0x5F]

/-- `enc.encode[i]` (a [64]byte array indexed by a 6-bit value: statically in range, no panic site) -/
def encChar (alpha : List UInt8) (i : Nat) : UInt8 := alpha.getD i 0

/-- first index of `c` in `alpha` -/
def indexIn (c : UInt8) : List UInt8 → Option Nat
  | [] => none
  | a :: as => if a == c then some 0 else (indexIn c as).map (· + 1)

/-- `enc.decodeMap[c]` : 0xff (here `none`) for bytes outside the alphabet -/
def decChar (alpha : List UInt8) (c : UInt8) : Option Nat := indexIn c alpha

/-- Encoding.Encode without padding: whole 3-byte groups, then the 1- or 2-byte remainder. -/
def encodeWith (alpha : List UInt8) : BS → BS
  | [] => []
  | [a] => [encChar alpha (a.toNat / 4), encChar alpha (a.toNat % 4 * 16)]
  | [a, b] => [encChar alpha (a.toNat / 4), encChar alpha (a.toNat % 4 * 16 + b.toNat / 16), encChar alpha (b.toNat % 16 * 4)]
  | a :: b :: c :: rest =>
    encChar alpha (a.toNat / 4) :: encChar alpha (a.toNat % 4 * 16 + b.toNat / 16)
      :: encChar alpha (b.toNat % 16 * 4 + c.toNat / 64) :: encChar alpha (c.toNat % 64) :: encodeWith alpha rest

/-- the three bytes of a full quantum `a b c d` (6-bit values) -/
def quantum3 (a b c d : Nat) : BS :=
  let v := ((a * 64 + b) * 64 + c) * 64 + d
  [UInt8.ofNat (v / 65536 % 256), UInt8.ofNat (v / 256 % 256), UInt8.ofNat (v % 256)]

/-- Decode / decodeQuantum: `acc` holds the 6-bit values of the current quantum (j = acc.length < 4). -/
def decodeLoop (alpha : List UInt8) : BS → List Nat → Option BS
  | [], acc =>
    match acc with
    | [] => some []
    | [a, b] => some [UInt8.ofNat ((a * 64 + b) / 16 % 256)]
    | [a, b, c] =>
      let v := (a * 64 + b) * 64 + c
      some [UInt8.ofNat (v / 1024 % 256), UInt8.ofNat (v / 4 % 256)]
    | _ => none                                   -- j == 1: CorruptInputError
  | ch :: rest, acc =>
    match decChar alpha ch with
    | some v =>
      match acc with
      | [a, b, c] =>
        match decodeLoop alpha rest [] with
        | some t => some (quantum3 a b c v ++ t)
        | none => none
      | _ => decodeLoop alpha rest (acc ++ [v])
    | none =>
      if ch == 0x0A || ch == 0x0D then decodeLoop alpha rest acc   -- newlines are skipped
      else none                                                       -- CorruptInputError

def decodeWith (alpha : List UInt8) (s : BS) : Option BS := decodeLoop alpha s []

/-- Base64Bytes.Encode -/
def encode (b : BS) : BS := encodeWith stdAlphabet b

/-- Base64Bytes.Decode: URL-safe decoder iff the text contains '-' or '_' -/
def decode (s : BS) : Option BS :=
  if s.any (fun c => c == 0x2D || c == 0x5F) then decodeWith urlAlphabet s else decodeWith stdAlphabet s

/-! ## JSON forms -/

/-- MarshalJSON: `json.Marshal(string)`; the standard alphabet has no character json.Marshal escapes. -/
def marshalJSON (b : BS) : BS := 0x22 :: encode b ++ [0x22]

def isWs (c : UInt8) : Bool := c == 0x20 || c == 0x09 || c == 0x0A || c == 0x0D

def skipWs : BS → BS
  | [] => []
  | c :: cs => if isWs c then skipWs cs else c :: cs

def hexDigit? (c : UInt8) : Option Nat :=
  if 0x30 ≤ c && c ≤ 0x39 then some (c.toNat - 0x30)
  else if 0x61 ≤ c && c ≤ 0x66 then some (c.toNat - 0x61 + 10)
  else if 0x41 ≤ c && c ≤ 0x46 then some (c.toNat - 0x41 + 10)
  else none

/-- The body of a JSON string literal as encoding/json scans and unquotes it: returns the decoded bytes
    and what follows the closing quote.  ABSTRACTION: a `\uXXXX` escape of a non-ASCII code point is
    rendered as the single byte 0xFF, and raw bytes ≥ 0x80 are kept as they are (encoding/json would
    replace invalid UTF-8 by U+FFFD): the result is only ever fed to `decode`, for which every byte ≥ 0x80
    is the same "not in the alphabet" error. -/
def jsonStringBody : BS → Option (BS × BS)
  | [] => none                                      -- unterminated
  | c :: cs =>
    if c == 0x22 then some ([], cs)
    else if c < 0x20 then none                      -- control character in string literal
    else if c == 0x5C then
      match cs with
      | [] => none
      | e :: cs1 =>
        let simple (b : UInt8) : Option (BS × BS) :=
          match jsonStringBody cs1 with
          | some (d, r) => some (b :: d, r)
          | none => none
        if e == 0x22 then simple 0x22
        else if e == 0x5C then simple 0x5C
        else if e == 0x2F then simple 0x2F
        else if e == 0x62 then simple 0x08
        else if e == 0x66 then simple 0x0C
        else if e == 0x6E then simple 0x0A
        else if e == 0x72 then simple 0x0D
        else if e == 0x74 then simple 0x09
        else if e == 0x75 then
          match cs1 with
          | h1 :: h2 :: h3 :: h4 :: cs2 =>
            match hexDigit? h1, hexDigit? h2, hexDigit? h3, hexDigit? h4 with
            | some a, some b, some c, some d =>
              let v := ((a * 16 + b) * 16 + c) * 16 + d
              match jsonStringBody cs2 with
              | some (dd, r) => some ((if v < 0x80 then UInt8.ofNat v else 0xFF) :: dd, r)
              | none => none
            | _, _, _, _ => none
          | _ => none
        else none                                   -- invalid escape
    else
      match jsonStringBody cs with
      | some (d, r) => some (c :: d, r)
      | none => none

/-- `json.Unmarshal(raw, &str)` for a Go string target: a JSON string gives its value, `null` leaves the
    empty string, everything else (other JSON types, invalid JSON, trailing data) is an error. -/
def unmarshalString (raw : BS) : Option BS :=
  match skipWs raw with
  | 0x22 :: cs =>
    match jsonStringBody cs with
    | some (d, r) => if (skipWs r).isEmpty then some d else none
    | none => none
  | 0x6E :: 0x75 :: 0x6C :: 0x6C :: r => if (skipWs r).isEmpty then some [] else none
  | _ => none

/-- Base64Bytes.UnmarshalJSON -/
def unmarshalJSON (raw : BS) : Option BS :=
  match unmarshalString raw with
  | some s => decode s
  | none => none

/-! ## SPECIFICATION (RFC 4648 read as a bit string; written independently of the quantum arithmetic above)

  "base64 values decode from the standard and URL-safe unpadded alphabets and re-encode to the same value".
  A text over ONE of the two alphabets, whose length is not ≡ 1 (mod 4), denotes the bytes obtained by
  concatenating the 6-bit values of its characters and cutting the bit string into octets (an incomplete
  last octet is dropped).  Texts with other characters (padding, whitespace) are outside the property. -/
namespace Spec

/-- `w` bits of `n`, most significant first -/
def bitsOf : Nat → Nat → List Bool
  | 0, _ => []
  | w + 1, n => (n / 2 ^ w % 2 == 1) :: bitsOf w n

def natOfBits (bs : List Bool) : Nat := bs.foldl (fun n b => 2 * n + (if b then 1 else 0)) 0

/-- cut into groups of `k` (k > 0), dropping an incomplete last group -/
def groups (k : Nat) (fuel : Nat) (bs : List Bool) : List (List Bool) :=
  match fuel with
  | 0 => []
  | fuel + 1 => if bs.length < k then [] else bs.take k :: groups k fuel (bs.drop k)

def inAlphabet (alpha : List UInt8) (s : BS) : Bool := s.all (alpha.contains ·)

def decodeBits (alpha : List UInt8) (s : BS) : Option BS :=
  if !inAlphabet alpha s || s.length % 4 == 1 then none
  else
    let bits := s.flatMap (fun c => bitsOf 6 (alpha.idxOf c))
    some ((groups 8 s.length bits).map (fun g => UInt8.ofNat (natOfBits g)))

/-- what the property assigns to a text: `none` = outside the quantifier -/
def decode (s : BS) : Option BS :=
  if inAlphabet stdAlphabet s then decodeBits stdAlphabet s
  else if inAlphabet urlAlphabet s then decodeBits urlAlphabet s
  else none

def specified (s : BS) : Bool := (inAlphabet stdAlphabet s || inAlphabet urlAlphabet s) && s.length % 4 != 1

/-- unpadded encoding: bits of the bytes, zero-filled to a multiple of 6, six at a time -/
def encodeBits (alpha : List UInt8) (b : BS) : BS :=
  let bits := b.flatMap (fun x => bitsOf 8 x.toNat)
  let pad := (6 - bits.length % 6) % 6
  (groups 6 (b.length * 2 + 1) (bits ++ List.replicate pad false)).map (fun g => alpha.getD (natOfBits g) 0)

end Spec
end V.B64
