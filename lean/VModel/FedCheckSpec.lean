/-
  VModel.FedCheckSpec — the INDEPENDENT specification C14 is stated against (what the property's
  prose demands), written without loops over mutable maps.  Core Lean only.  The theorems in
  VProps/C14.lean relate the executable model (VModel.FedCheck) to these definitions.

  Provider contract (`ProvOK`): asked for one ID the caller's EventProvider answers with an error,
  with nothing, or with exactly the requested event ("returns the requested list of events").

  Written from the property text: events are judged one by one (`good`), an event at a state by the WHOLE
  state (`atState`), an auth chain over every event the provider supplies (`Reach`).  What the code computed
  before the repairs of findings R1 and R3 is kept under `atStateCited` / `…ByID` for the record.
-/
import VModel.FedCheck
namespace V.FedCheck.Spec
open V V.FedCheck

/-- the provider contract for single-ID requests, as a decidable check on the IDs in play -/
def provOKOn (prov : Option EventProvider) (ids : List Bytes) : Bool :=
  match prov with
  | none => true
  | some p => ids.all (fun id =>
      match p [id] with
      | .error => true
      | .events [] => true
      | .events [e] => e.eventID == id
      | .events _ => false)

/-- what the caller's provider supplies for one ID: a state event with that ID, or nothing -/
def provided (prov : Option EventProvider) (id : Bytes) : Option Event :=
  match prov with
  | none => none
  | some p =>
    match p [id] with
    | .events [e] => if e.stateKey.isSome then some e else none
    | _ => none

/-- the last event of `all` carrying `id` -/
def lastWithID (all : List Event) (id : Bytes) : Option Event :=
  all.reverse.find? (fun e => e.eventID == id)

/-- an event "arrived with verified signatures" under `id`: the last event of the response that carries this
    ID and passed its signature check.  (Two events of one response can share an event ID: in room versions 1
    and 2 the ID is a member of the event, in the later ones the reference hash does not cover the signatures.) -/
def verified {P} (O : Oracles P) (all : List Event) (id : Bytes) : Option Event :=
  all.reverse.find? (fun e => e.eventID == id && O.sigOk e)

/-- verified-or-provided -/
def resolve (base : Bytes → Option Event) (prov : Option EventProvider) (id : Bytes) : Option Event :=
  match base id with
  | some e => some e
  | none => provided prov id

/-- the auth provider built from the resolvable auth events of `e`, in the order of `auth_events` -/
def authOf {P} (O : Oracles P) (res : Bytes → Option Event) (e : Event) : P :=
  e.authEventIDs.foldl (fun p id => match res id with
    | some a => O.add p a
    | none => p) O.empty

/-- C14's two checks for an event of a /state or /send_join response -/
def good {P} (O : Oracles P) (prov : Option EventProvider) (all : List Event) (e : Event) : Bool :=
  O.sigOk e && O.allowedBy e (authOf O (resolve (verified O all) prov) e)

def nodupB {α} [BEq α] : List α → Bool
  | [] => true
  | x :: xs => !xs.contains x && nodupB xs

def tupleOf (e : Event) : Bytes × Bytes := (e.type, e.stateKey.getD [])

/-- "duplicate state keys and non-state events make the whole response fail" -/
def responseMalformed (A S : List Event) : Bool :=
  A.any (fun e => e.stateKey.isNone) || S.any (fun e => e.stateKey.isNone) || !nodupB (S.map tupleOf)

/-- the answer C14 demands of CheckStateResponse: `none` = the whole response fails; otherwise EXACTLY the
    events failing one of the two checks are dropped — each event on its own account, not on account of
    another event that happens to carry the same ID -/
def stateResponse {P} (O : Oracles P) (prov : Option EventProvider) (A S : List Event) :
    Option (List Event × List Event) :=
  if responseMalformed A S then none
  else
    let all := A ++ S
    some (A.filter (good O prov all), S.filter (good O prov all))

/-- `AddEvent` of every returned state event -/
def stateProviderOf {P} (O : Oracles P) (S : List Event) : P := S.foldl O.add O.empty

/-- the answer C14 demands of CheckSendJoinResponse: accepted iff the state response is, and the join
    event is allowed by its (returned-or-provided) auth events AND by the returned state -/
def sendJoin {P} (O : Oracles P) (prov : Option EventProvider) (A S : List Event) (join : Event) :
    Option (List Event × List Event) :=
  match stateResponse O prov A S with
  | none => none
  | some (A', S') =>
    if O.allowedBy join (authOf O (resolve (lastWithID (A' ++ S')) prov) join)
       && O.allowedBy join (stateProviderOf O S') then some (A', S') else none

/-! ### What CheckStateResponse computed before the repair of finding R3 (failures keyed by event ID) -/

/-- no event of the response with this ID failed its signature check -/
def verifiedByID {P} (O : Oracles P) (all : List Event) (id : Bytes) : Option Event :=
  if all.any (fun e => e.eventID == id && !O.sigOk e) then none else lastWithID all id

def goodByID {P} (O : Oracles P) (prov : Option EventProvider) (all : List Event) (e : Event) : Bool :=
  O.sigOk e && O.allowedBy e (authOf O (resolve (verifiedByID O all) prov) e)

/-- events were dropped by ID: a good event went with a bad twin -/
def droppedByID {P} (O : Oracles P) (prov : Option EventProvider) (all : List Event) (id : Bytes) : Bool :=
  all.any (fun e => e.eventID == id && !goodByID O prov all e)

def stateResponseByID {P} (O : Oracles P) (prov : Option EventProvider) (A S : List Event) :
    Option (List Event × List Event) :=
  if responseMalformed A S then none
  else
    let all := A ++ S
    some (A.filter (fun e => !droppedByID O prov all e.eventID), S.filter (fun e => !droppedByID O prov all e.eventID))

def sendJoinByID {P} (O : Oracles P) (prov : Option EventProvider) (A S : List Event) (join : Event) :
    Option (List Event × List Event) :=
  match stateResponseByID O prov A S with
  | none => none
  | some (A', S') =>
    if O.allowedBy join (authOf O (resolve (lastWithID (A' ++ S')) prov) join)
       && O.allowedBy join (stateProviderOf O S') then some (A', S') else none

/-! ### VerifyAuthRulesAtState -/

/-- lookup in the returned state map (distinct keys) -/
def stateLookup (kvs : List (Bytes × Event)) (id : Bytes) : Option Event :=
  (kvs.find? (fun kv => kv.1 == id)).map (·.2)

/-- Do the events the provider returned form a room state?  Every one is a state event, and no
    (type, state_key) is held by two different events (the same event listed twice is one event). -/
def formsState (S : List Event) : Bool :=
  S.all (fun a => a.stateKey.isSome) &&
  !S.any (fun a => S.any (fun b => (b.type == a.type && b.stateKey == a.stateKey) && !sameEvent a b))

/-- C14: accepted exactly when (validation permitted and every auth event ID is in the state before
    the event) or the event is allowed by THE STATE before it: every event of the state the provider
    returned takes part, whether or not the event chose to cite it in its `auth_events` (an event
    that leaves the power levels, the join rules, a ban out of its `auth_events` is still judged by
    them).  A "state" containing an event without a state key, or two different events for one
    (type, state_key) — the answer of a remote /state request may be anything —, is no state: nothing is
    allowed by it (as for CheckStateResponse: "duplicate state keys and non-state events make the whole
    response fail"), and in particular the answer does not depend on the order in which the events are looked at.
    `none` = a provider call failed. -/
def atState {P} (O : Oracles P) (sp : StateProvider) (e : Event) (allowValidation : Bool) : Option Bool :=
  match sp.ids e with
  | none => none
  | some ids =>
    if allowValidation && e.authEventIDs.all (fun a => ids.contains a) then some true
    else match sp.state e ids with
      | none => none
      | some kvs =>
        if !formsState (kvs.map (·.2)) then some false
        else some (O.allowedBy e (stateProviderOf O (kvs.map (·.2))))

/-- an auth event ID of `e` is bound, in the returned state, to an event without a state key -/
def citesNonState (kvs : List (Bytes × Event)) (e : Event) : Bool :=
  e.authEventIDs.any (fun id => match stateLookup kvs id with
    | some a => a.stateKey.isNone
    | none => false)

/-- What VerifyAuthRulesAtState computed before the repair of finding R1 (kept for the record and for the
    lemma `atStateCited_eq` in VProps/C14.lean): the event judged by those of ITS OWN auth events that
    are found in the state — so an event that omits the power levels from its `auth_events` was judged
    without them. -/
def atStateCited {P} (O : Oracles P) (sp : StateProvider) (e : Event) (allowValidation : Bool) : Option Bool :=
  match sp.ids e with
  | none => none
  | some ids =>
    if allowValidation && e.authEventIDs.all (fun a => ids.contains a) then some true
    else match sp.state e ids with
      | none => none
      | some kvs =>
        -- an auth event ID bound to a non-state event makes AddEvent fail: refused
        if citesNonState kvs e then some false
        else some (O.allowedBy e (authOf O (stateLookup kvs) e))

/-! ### VerifyEventAuthChain

  Contract for batch requests: the provider is a table — `table id` is the event it holds for `id`
  (with that ID), `errs id` says that asking for `id` makes the whole call fail. -/

def tableProvider (table : Bytes → Option Event) (errs : Bytes → Bool) : EventProvider :=
  fun ids => if ids.any errs then .error else .events (ids.filterMap table)

/-- how an auth event ID of the chain of `root` resolves: the root itself, or the provider's event -/
def chainResolve (root : Event) (table : Bytes → Option Event) (id : Bytes) : Option Event :=
  if id == root.eventID then some root else table id

/-- the events of the auth chain of `root` as far as the provider supplies them -/
inductive Reach (root : Event) (table : Bytes → Option Event) : Event → Prop where
  | root : Reach root table root
  | step {e a : Event} {id : Bytes} : Reach root table e → id ∈ e.authEventIDs →
      chainResolve root table id = some a → Reach root table a

/-- one event of the chain passes: no needed ID makes the provider fail, every resolved auth event is a
    state event, and the event is allowed by them -/
def chainGood {P} (O : Oracles P) (root : Event) (table : Bytes → Option Event) (errs : Bytes → Bool) (e : Event) : Bool :=
  e.authEventIDs.all (fun id => id == root.eventID || !errs id)
  && e.authEventIDs.all (fun id => match chainResolve root table id with
      | some a => a.stateKey.isSome
      | none => true)
  && O.allowedBy e (authOf O (chainResolve root table) e)

/-- executable closure of the auth chain (worklist over `chainResolve`, set-based): `none` = fuel exhausted -/
def reachList (root : Event) (table : Bytes → Option Event) : Nat → List Event → List Event → Option (List Event)
  | 0, _, _ => none
  | _ + 1, [], done => some done
  | n + 1, e :: todo, done =>
    if done.any (fun d => d.eventID == e.eventID) then reachList root table n todo done
    else reachList root table n (e.authEventIDs.filterMap (chainResolve root table) ++ todo) (e :: done)

/-- C14's demand on VerifyEventAuthChain: accepted exactly when the event and, recursively, every fetched
    auth event passes -/
def chainAccepts {P} (O : Oracles P) (root : Event) (table : Bytes → Option Event) (errs : Bytes → Bool) (fuel : Nat) : Option Bool :=
  (reachList root table fuel [root] []).map (fun es => es.all (chainGood O root table errs))

/-- the class C14 demands of LoadAndVerify for one parsed event: the first failing check -/
def loadClass {P} (O : Oracles P) (table : Bytes → Option Event) (errs : Bytes → Bool) (sp : StateProvider) (fuel : Nat)
    (e : Event) : Option LoadClass :=
  if !O.sigOk e then some .signatureErr
  else match chainAccepts O e table errs fuel with
    | none => none
    | some false => some .authChainErr
    | some true =>
      match atState O sp e true with
      | some true => some .ok
      | _ => some .authRulesErr

/-! ### RequestBackfill

  C14's title — only events that pass the checks leave federation verification — read for RequestBackfill,
  with the one exception the code documents: an event that fails the SIGNATURE check is still handed on
  ("the signature of the event might not be valid anymore", backfill.go) — and, LoadAndVerify classifying by
  the FIRST failing check, such an event was never auth-checked.  So: every returned event is a cleanly
  parsed PDU of some server's answer; it either fails its signature check or passes the auth-chain check
  (step 4) and the state-at-event check (step 5); and no event ID is returned twice. -/

/-- steps 4 and 5 of the per-event pipeline for one event; `none` = fuel exhausted -/
def authPasses {P} (O : Oracles P) (table : Bytes → Option Event) (errs : Bytes → Bool) (sp : StateProvider) (fuel : Nat)
    (e : Event) : Option Bool :=
  match chainAccepts O e table errs fuel with
  | none => none
  | some false => some false
  | some true =>
    match atState O sp e true with
    | some true => some true
    | _ => some false

inductive BackfillVerdict where
  | fine
  | notFromResponse
  | failsAuth
  deriving DecidableEq, Repr

def backfillEventOK {P} (O : Oracles P) (table : Bytes → Option Event) (errs : Bytes → Bool) (sp : StateProvider) (fuel : Nat)
    (inAnswers : Event → Bool) (e : Event) : Option BackfillVerdict :=
  if !inAnswers e then some .notFromResponse
  else if !O.sigOk e then some .fine
  else (authPasses O table errs sp fuel e).map (fun b => if b then .fine else .failsAuth)

/-- the first event whose ID occurs again later in the list -/
def firstRepeatedID : List Event → Option Event
  | [] => none
  | e :: es => if es.any (fun x => x.eventID == e.eventID) then some e else firstRepeatedID es

end V.FedCheck.Spec
