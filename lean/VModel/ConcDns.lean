/-
  VModel.ConcDns — small-step interleaving model of fclient/dnscache.go (C19).

  One `step` = one atomic region of the Go code, as delimited by `c.mutex.Lock()/Unlock()` and the
  unlocked resolver call:

    DNSCache.lookup(name)
      region 1  (Lock … Unlock)   entry present and `now < expires` → return (entry, true)
                                  entry present and stale           → delete it
      resolver  (no lock held)    c.resolver.LookupIPAddr(name); error → return (nil, false)
                                  `if c.size <= 0 { return &entry{addrs, now+duration}, false }` — a cache without capacity
                                  stores nothing (/repo bcd0619; before it the loop below spun forever for size ≤ 0)
      Lock()                      (taken for the rest of the function: `defer Unlock`)
      loop head (lock held)       `for len(entries) >= size { pick; delete }` — ONE ITERATION PER STEP, because
                                  the loop need not terminate (see `V.C19.evict_spins_*`); other threads cannot
                                  observe the intermediate states, they are blocked on the mutex
      store     (lock held)       entries[name] = {addrs, now+duration}; Unlock; return (entry, false)

    DialContext's `delete(c.entries, host)` under the mutex is the op `del`.

  Time is a parameter: every move carries the value `time.Now()` returns in that step; a move is only
  enabled if the clock does not go backwards.  The resolver is an oracle `name → selector → answer`
  (the selector is part of the op, so the theorems quantify over all fault sequences).  Go's map
  iteration order in the eviction scan is the move's `k` (iteration starts at entry `k mod len`:
  every entry a scan could pick first is picked first for some `k`).

  Every access to the shared map is reported by `accesses` together with the lock set the thread
  holds at that point (computed from the state, not written by hand).
  Core Lean only.
-/
namespace V.Conc

/-- locks of the modelled code -/
inductive Lock where
  | dnsMutex | resultsMutex | transportsMutex
  deriving DecidableEq, Repr

/-- shared variables of the modelled code -/
inductive Var where
  | dnsEntries | fetchResults | transports | eventIDRaw
  deriving DecidableEq, Repr

/-- one access of a thread to a shared variable, with the locks the thread holds at that moment -/
structure Access where
  tid : Nat
  var : Var
  write : Bool
  held : List Lock
  deriving DecidableEq, Repr

/-- the lock that protects a variable; none for `EventIDRaw`: it is written once while the event is constructed (before it
    is shared) and only read afterwards, so its discipline is "no write after construction" -/
def guardOf : Var → Option Lock
  | .dnsEntries => some .dnsMutex
  | .fetchResults => some .resultsMutex
  | .transports => some .transportsMutex
  | .eventIDRaw => none

/-- lockset discipline for one access: the guarding lock is held; a variable without a lock may only be read -/
def Access.disciplined (a : Access) : Bool :=
  match guardOf a.var with
  | some l => a.held.contains l
  | none => !a.write

namespace Dns

abbrev Name := String
abbrev Addrs := List Nat

structure Entry where
  addrs : Addrs
  expires : Int
  deriving DecidableEq, Repr

/-! ### the map `entries` as an association list -/

abbrev EMap := List (Name × Entry)

def get? (n : Name) (l : EMap) : Option Entry := (l.find? (fun p => p.1 == n)).map (·.2)
def erase (n : Name) (l : EMap) : EMap := l.filter (fun p => p.1 != n)
def put (n : Name) (e : Entry) (l : EMap) : EMap := erase n l ++ [(n, e)]

/-- the scan of the eviction loop body:
    `name, ts := "", now+duration; for n, e := range entries { if e.expires.Before(ts) { ts, name = e.expires, n } }` -/
def scan (l : EMap) (ts0 : Int) : Name × Int :=
  l.foldl (fun acc p => if p.2.expires < acc.2 then (p.1, p.2.expires) else acc) ("", ts0)

/-- Go map iteration order: start anywhere (randomised start bucket) -/
def iterOrder (l : EMap) (k : Nat) : EMap := l.rotateLeft (k % (l.length + 1))

/-! ### configuration, threads, state -/

structure Cfg where
  size : Int                               -- Go `int`: may be ≤ 0
  dur : Int                                -- duration, may be negative
  resolver : Name → Nat → Option Addrs     -- LookupIPAddr: name, fault selector ↦ answer / error

inductive Op where
  | lookup (n : Name) (sel : Nat)          -- DNSCache.lookup(n); `sel` selects the resolver's behaviour for this call
  | del (n : Name)                         -- Lock; delete(entries, n); Unlock   (DialContext after all addresses failed)
  deriving DecidableEq, Repr

/-- what a finished op returned -/
inductive Ret where
  | hit (n : Name) (e : Entry)             -- (entry, true)
  | miss (n : Name) (e : Entry)            -- (entry, false): freshly resolved and stored
  | fail (n : Name)                        -- (nil, false)
  | deleted (n : Name)
  deriving DecidableEq, Repr

inductive Pc where
  | idle                                   -- between ops
  | resolve (n : Name) (sel : Nat)         -- region 1 done, about to call the resolver (no lock)
  | store (n : Name) (a : Addrs)           -- resolver answered, about to Lock()
  | evict (n : Name) (a : Addrs)           -- holds the mutex, at the head of the eviction loop
  deriving DecidableEq, Repr

structure Thread where
  pc : Pc
  todo : List Op
  rets : List Ret                          -- most recent first
  deriving DecidableEq, Repr

structure State where
  entries : EMap
  mutex : Option Nat                       -- owner of c.mutex between steps
  now : Int                                -- last value read from the clock
  threads : List Thread
  deriving DecidableEq, Repr

structure Move where
  tid : Nat
  t : Int                                  -- what time.Now() returns in this step
  k : Nat                                  -- map iteration start of this step's scan
  deriving DecidableEq, Repr

def init (todos : List (List Op)) (t0 : Int) : State :=
  { entries := [], mutex := none, now := t0, threads := todos.map (fun ops => ⟨.idle, ops, []⟩) }

def setThread (s : State) (i : Nat) (th : Thread) : State := { s with threads := s.threads.set i th }

/-- one atomic region of thread `m.tid`; `none` = the move is not enabled in `s` -/
def step (c : Cfg) (s : State) (m : Move) : Option State :=
  if m.t < s.now then none else
  match s.threads[m.tid]? with
  | none => none
  | some th =>
    match th.pc with
    | .idle =>
      match th.todo with
      | [] => none
      | .lookup n sel :: rest =>
        -- region 1: c.mutex.Lock() … Unlock()
        if s.mutex.isSome then none else
        match get? n s.entries with
        | some e =>
          if m.t < e.expires then
            some { s with now := m.t, threads := s.threads.set m.tid ⟨.idle, rest, .hit n e :: th.rets⟩ }
          else
            some { s with now := m.t, entries := erase n s.entries,
                          threads := s.threads.set m.tid ⟨.resolve n sel, rest, th.rets⟩ }
        | none =>
          some { s with now := m.t, threads := s.threads.set m.tid ⟨.resolve n sel, rest, th.rets⟩ }
      | .del n :: rest =>
        if s.mutex.isSome then none else
        some { s with now := m.t, entries := erase n s.entries,
                      threads := s.threads.set m.tid ⟨.idle, rest, .deleted n :: th.rets⟩ }
    | .resolve n sel =>
      match c.resolver n sel with
      | none => some { s with now := m.t, threads := s.threads.set m.tid ⟨.idle, th.todo, .fail n :: th.rets⟩ }
      | some a =>
        if c.size ≤ 0 then
          -- cache disabled: resolve every time, store nothing
          some { s with now := m.t, threads := s.threads.set m.tid ⟨.idle, th.todo, .miss n ⟨a, m.t + c.dur⟩ :: th.rets⟩ }
        else
          some { s with now := m.t, threads := s.threads.set m.tid ⟨.store n a, th.todo, th.rets⟩ }
    | .store n a =>
      -- c.mutex.Lock()
      if s.mutex.isSome then none else
      some { s with now := m.t, mutex := some m.tid, threads := s.threads.set m.tid ⟨.evict n a, th.todo, th.rets⟩ }
    | .evict n a =>
      if s.mutex != some m.tid then none else
      if (s.entries.length : Int) ≥ c.size then
        -- one iteration of `for len(c.entries) >= c.size`
        let victim := (scan (iterOrder s.entries m.k) (m.t + c.dur)).1
        some { s with now := m.t, entries := erase victim s.entries }
      else
        let e : Entry := ⟨a, m.t + c.dur⟩
        some { s with now := m.t, entries := put n e s.entries, mutex := none,
                      threads := s.threads.set m.tid ⟨.idle, th.todo, .miss n e :: th.rets⟩ }

/-- run a schedule; `none` if some move is not enabled -/
def run (c : Cfg) : State → List Move → Option State
  | s, [] => some s
  | s, m :: ms => match step c s m with
    | none => none
    | some s' => run c s' ms

/-- locks held by thread `i` in state `s` -/
def heldBy (s : State) (i : Nat) : List Lock := if s.mutex = some i then [.dnsMutex] else []

/-- the shared-variable accesses the step `m` performs in `s` (same case structure as `step`), each tagged with the lock
    set held when it happens.  Regions that take and release the mutex inside the step are evaluated in the intermediate
    state `{ s with mutex := some tid }`. -/
def accesses (c : Cfg) (s : State) (m : Move) : List Access :=
  match s.threads[m.tid]? with
  | none => []
  | some th =>
    match th.pc with
    | .idle =>
      match th.todo with
      | [] => []
      | .lookup n _ :: _ =>
        if s.mutex.isSome then [] else
        let locked : State := { s with mutex := some m.tid }
        let h := heldBy locked m.tid
        match get? n s.entries with
        | some e => if m.t < e.expires then [⟨m.tid, .dnsEntries, false, h⟩]
                    else [⟨m.tid, .dnsEntries, false, h⟩, ⟨m.tid, .dnsEntries, true, h⟩]
        | none => [⟨m.tid, .dnsEntries, false, h⟩]
      | .del _ :: _ =>
        if s.mutex.isSome then [] else
        let locked : State := { s with mutex := some m.tid }
        [⟨m.tid, .dnsEntries, true, heldBy locked m.tid⟩]
    | .resolve _ _ => []
    | .store _ _ => []
    | .evict _ _ =>
      if s.mutex != some m.tid then [] else
      let h := heldBy s m.tid
      let _ := c
      [⟨m.tid, .dnsEntries, false, h⟩, ⟨m.tid, .dnsEntries, true, h⟩]

/-- states reachable from `init` by any schedule of enabled moves -/
inductive Reachable (c : Cfg) (todos : List (List Op)) (t0 : Int) : State → Prop where
  | init : Reachable c todos t0 (init todos t0)
  | step {s s' : State} (m : Move) : Reachable c todos t0 s → step c s m = some s' → Reachable c todos t0 s'

/-! ### sequential specification of one op's result (what "the result a sequential execution would give" means here)

A cache in front of a resolver whose successful answers are `ans name`: a lookup of `n` answers `ans n` (from the
cache or freshly resolved), or fails — and it may fail only if the resolver call made FOR THAT lookup failed; a delete
answers nothing. -/
namespace Spec

def okRet (c : Cfg) (ans : Name → Addrs) : Op → Ret → Prop
  | .lookup n _, .hit n' e => n' = n ∧ e.addrs = ans n
  | .lookup n _, .miss n' e => n' = n ∧ e.addrs = ans n
  | .lookup n sel, .fail n' => n' = n ∧ c.resolver n sel = none
  | .del n, .deleted n' => n' = n
  | _, _ => False

/-- `ops` (most recent first) explain the results `rets` (most recent first) one by one -/
inductive Explained (c : Cfg) (ans : Name → Addrs) : List Op → List Ret → Prop where
  | nil : Explained c ans [] []
  | cons {op : Op} {r : Ret} {ops : List Op} {rs : List Ret} :
      okRet c ans op r → Explained c ans ops rs → Explained c ans (op :: ops) (r :: rs)

end Spec

/-! ### harness-granularity replay (what the driver runs)

A harness move "poke goroutine g" runs g until it blocks in the resolver or returns:
  * g idle with an op left: region 1 (or the delete);
  * g blocked in the resolver: resolver returns, Lock, eviction iterations, store;
  * g has nothing left: no-op.
The eviction loop is run with explicit fuel: running out of fuel is the outcome `hang`. -/

inductive Obs where
  | ret (g : Nat) (r : Ret)
  | blocked (g : Nat) (n : Name)
  | noop
  | hang (g : Nat)
  | stuck                                   -- a step that must be enabled at harness granularity was not
  deriving DecidableEq, Repr

def lastRet (s : State) (g : Nat) : Obs :=
  match s.threads[g]? with
  | some th => match th.rets with
    | r :: _ => .ret g r
    | [] => .stuck
  | none => .stuck

/-- iterate the eviction loop of thread `g` (all iterations read the same clock value `t`) -/
def evictLoop (c : Cfg) (g : Nat) (t : Int) : Nat → State → Option State
  | 0, _ => none
  | fuel + 1, s =>
    match s.threads[g]? with
    | some th =>
      match th.pc with
      | .evict _ _ => match step c s ⟨g, t, 0⟩ with
        | some s' => evictLoop c g t fuel s'
        | none => none
      | _ => some s
    | none => none

def poke (c : Cfg) (fuel : Nat) (s : State) (g : Nat) (t : Int) : State × Obs :=
  match s.threads[g]? with
  | none => (s, .noop)
  | some th =>
    match th.pc with
    | .idle =>
      match th.todo with
      | [] => (s, .noop)
      | _ :: _ =>
        match step c s ⟨g, t, 0⟩ with
        | none => (s, .stuck)
        | some s' =>
          match s'.threads[g]? with
          | some th' => match th'.pc with
            | .resolve n _ => (s', .blocked g n)
            | _ => (s', lastRet s' g)
          | none => (s', .stuck)
    | .resolve _ _ =>
      match step c s ⟨g, t, 0⟩ with
      | none => (s, .stuck)
      | some s1 =>
        match s1.threads[g]? with
        | some th1 => match th1.pc with
          | .store _ _ =>
            match step c s1 ⟨g, t, 0⟩ with
            | none => (s1, .stuck)
            | some s2 => match evictLoop c g t fuel s2 with
              | some s3 => (s3, lastRet s3 g)
              | none => (s2, .hang g)
          | _ => (s1, lastRet s1 g)
        | none => (s1, .stuck)
    | _ => (s, .stuck)

end Dns
end V.Conc
