/-
  VModel.EventParse — executable model of the event constructors and of the PDU methods that
  C03–C05 talk about: eventV1.go / eventV2.go / eventV3.go (`newEventFromUntrustedJSONV1/V2/V3`,
  `newEventFromTrustedJSONV1/V2/V3`, `newEventFromTrustedJSONWithEventIDV1/V2/V3`, `Redact`,
  `SetUnsigned`, `ToHeaderedJSON`, accessors), eventversion.go (`NewEventFromHeaderedJSON`),
  eventcrypto.go (`checkEventContentHash`, `referenceOfEventForVersion`), event.go (`checkID`,
  `checkRoomIDField`), eventV2.go (`CheckFields`).  Core Lean only.

  Level of the model.  Events are JSON *values* (`JVal`) plus the bytes `JSON()` returns.
  Modelled rather than verified (trusted base, validated by the correspondence ops of area `event`):
  * encoding/json struct decoding (case-folded matching, members decoded in document order into the
    same field, `null` handling per Go type, type errors) — `decodeFields`;
  * `sjson.DeleteBytes(json, key)` = removal of the first top-level member with that key;
    `gjson.GetBytes(json, "_*")` = some top-level key starts with `_`;
    `gjson.GetBytes(json, "hashes.sha256").Str` = the string at that path (first occurrences);
  * `CanonicalJSONAssumeValid` / `CanonicalJSON ∘ json.Marshal` = `encodeCanon` on values without
    duplicate keys (C01 proves this for the byte-level model of json.go);
  * SHA-256 is a parameter `H`;
  * `duplicateJSONKey` of event.go (one pass over the text) = `JVal.noDupKeys` of the value the text denotes, and
    `strings.EqualFold` against the ASCII field names = equality of `foldBytes` (texts with ill-formed Unicode are
    outside the model).
-/
import VModel.Redact
import VModel.Event
import VModel.Hash
import VModel.B64
import VGen.Consts
import VGen.C17
namespace V
namespace EventParse
open Json GoJson Redact

abbrev Obj := List (Bytes × JVal)

def errOther : Err := .other "other"
def errTooLarge : Err := .other "toolarge"
def errTooLargePersistable : Err := .other "toolarge-persistable"

/-- integer constant of the root package, from the regenerated table (0 when it has disappeared:
    every size check then fails and the correspondence breaks) -/
def constNat (name : String) : Nat :=
  match VGen.rootIntConsts.find? (fun x => x.1 == name) with
  | some (_, v) => v.toNat
  | none => 0

def maxIDLength : Nat := constNat "maxIDLength"
def maxEventLength : Nat := constNat "maxEventLength"

/-! ## gjson / sjson on top-level members -/

/-- `sjson.DeleteBytes(json, key)`: the first member with that key disappears -/
def deleteFirst (k : Bytes) : Obj → Obj
  | [] => []
  | kv :: rest => if kv.1 == k then rest else kv :: deleteFirst k rest

def deleteKeys (ks : List Bytes) (kvs : Obj) : Obj := ks.foldl (fun acc k => deleteFirst k acc) kvs

/-- first member with that key (gjson path lookup) -/
def getFirst (kvs : Obj) (k : Bytes) : Option JVal := (kvs.find? (fun kv => kv.1 == k)).map (·.2)

/-- `gjson.GetBytes(json, "_*").Exists()` -/
def hasUnderscoreKey : JVal → Bool
  | .obj kvs => kvs.any (fun kv => match kv.1 with
    | c :: _ => c == 0x5F
    | [] => false)
  | _ => false

/-! ## Struct decoding (eventFields + eventV1 / eventV2) -/

inductive Fmt where
  | v1 | v2 | v3
  deriving DecidableEq, Repr, Inhabited

/-- the struct a constructor function fills in, from the function's name in the version table -/
def fmtOfName (fn : String) : Option Fmt :=
  if ["newEventFromUntrustedJSONV1", "newEventFromTrustedJSONV1", "newEventFromTrustedJSONWithEventIDV1"].contains fn then some .v1
  else if ["newEventFromUntrustedJSONV2", "newEventFromTrustedJSONV2", "newEventFromTrustedJSONWithEventIDV2"].contains fn then some .v2
  else if ["newEventFromUntrustedJSONV3", "newEventFromTrustedJSONV3", "newEventFromTrustedJSONWithEventIDV3"].contains fn then some .v3
  else none

structure Fields where
  roomID : Bytes := []
  sender : Bytes := []
  type : Bytes := []
  stateKey : Option Bytes := none
  content : Option JVal := none        -- spec.RawJSON: none = nil
  redacts : Bytes := []
  depth : Int := 0
  unsigned : Option JVal := none
  originServerTS : Nat := 0
  eventIDRaw : Bytes := []
  prevEvents : Option (List Bytes) := none   -- none = nil slice
  authEvents : Option (List Bytes) := none
  deriving Repr, Inhabited

/-- values of the members matching a field, in document order -/
def members (kvs : Obj) (name : Bytes) : List JVal :=
  (kvs.filter (fun kv => matchesField kv.1 name)).map (·.2)

def seqString (vs : List JVal) : Dec Bytes :=
  vs.foldl (fun acc v => match v with
    | .str s => ⟨s, acc.err⟩
    | .null => acc
    | _ => ⟨acc.val, true⟩) ⟨[], false⟩

def seqStringPtr (vs : List JVal) : Dec (Option Bytes) :=
  vs.foldl (fun acc v => match v with
    | .str s => ⟨some s, acc.err⟩
    | .null => ⟨none, acc.err⟩
    | _ => ⟨acc.val, true⟩) ⟨none, false⟩

def seqInt64 (vs : List JVal) : Dec Int :=
  vs.foldl (fun acc v => match v with
    | .num lit => match parseInt64 lit with
      | some n => ⟨n, acc.err⟩
      | none => ⟨acc.val, true⟩
    | .null => acc
    | _ => ⟨acc.val, true⟩) ⟨0, false⟩

def seqUint64 (vs : List JVal) : Dec Nat :=
  vs.foldl (fun acc v => match v with
    | .num lit => match parseUint64 lit with
      | some n => ⟨n, acc.err⟩
      | none => ⟨acc.val, true⟩
    | .null => acc
    | _ => ⟨acc.val, true⟩) ⟨0, false⟩

/-- `spec.RawJSON`: the last member, `null` included -/
def seqRaw (vs : List JVal) : Option JVal := vs.getLast?

/-- `struct{ duration_ms int64 }`: only whether decoding reports an error matters here -/
def stickyErr (vs : List JVal) : Bool :=
  vs.any (fun v => match v with
    | .null => false
    | .obj m => (seqInt64 (members m b!"duration_ms")).err
    | _ => true)

/-- `spec.Base64Bytes.UnmarshalJSON` fails (`V.B64.decode` is the model of `Base64Bytes.Decode`) -/
def b64FieldErr (v : JVal) : Bool :=
  match v with
  | .str s => (B64.decode s).isNone
  | .null => false
  | _ => true

/-- `eventReference.UnmarshalJSON`: the event ID, or `none` when it returns an error -/
def decRef (v : JVal) : Option Bytes :=
  match v with
  | .arr [a, b] =>
    let id : Option Bytes := match a with
      | .str s => some s
      | .null => some []
      | _ => none
    let hashErr : Bool := match b with
      | .null => false
      | .obj m => (members m b!"sha256").any b64FieldErr
      | _ => true
    if hashErr then none else id
  | _ => none

structure SliceDec where
  val : Option (List Bytes) := none
  err : Bool := false
  unmodelled : Bool := false
  deriving Repr

/-- `[]string` / `[]eventReference` (IDs only).  A second member for the same field would be
    decoded into the slice the first one left (stale elements): not modelled. -/
def decSlice (fmt : Fmt) (vs : List JVal) : SliceDec :=
  match vs with
  | [] => {}
  | [.null] => {}
  | [.arr xs] =>
    if fmt == .v1 then
      let ds := xs.map decRef
      { val := some (ds.map (fun d => d.getD [])), err := ds.any (fun d => d.isNone) }
    else
      let ds := xs.map (fun x => seqString [x])
      { val := some (ds.map (·.val)), err := ds.any (·.err) }
  | [_] => { err := true }
  | _ => { unmodelled := true }

structure Decoded where
  f : Fields
  err : Bool
  unmodelled : Bool
  deriving Repr

/-- `json.Unmarshal(text, &eventV1{} / &eventV2{} / &eventV3{})` for a text denoting an object -/
def decodeFields (fmt : Fmt) (kvs : Obj) : Decoded :=
  let roomID := seqString (members kvs b!"room_id")
  let sender := seqString (members kvs b!"sender")
  let type := seqString (members kvs b!"type")
  let stateKey := seqStringPtr (members kvs b!"state_key")
  let redacts := seqString (members kvs b!"redacts")
  let depth := seqInt64 (members kvs b!"depth")
  let ts := seqUint64 (members kvs b!"origin_server_ts")
  let eid := seqString (members kvs b!"event_id")
  let prev := decSlice fmt (members kvs b!"prev_events")
  let auth := decSlice fmt (members kvs b!"auth_events")
  { f := { roomID := roomID.val, sender := sender.val, type := type.val, stateKey := stateKey.val,
           content := seqRaw (members kvs b!"content"), redacts := redacts.val, depth := depth.val,
           unsigned := seqRaw (members kvs b!"unsigned"), originServerTS := ts.val, eventIDRaw := eid.val,
           prevEvents := prev.val, authEvents := auth.val },
    err := roomID.err || sender.err || type.err || stateKey.err || redacts.err || depth.err || ts.err || eid.err ||
           prev.err || auth.err || stickyErr (members kvs b!"msc4354_sticky") || stickyErr (members kvs b!"sticky"),
    unmodelled := prev.unmodelled || auth.unmodelled }

/-! ## Identifier checks -/

/-- `utf8.RuneCountInString` on valid UTF-8 -/
def runeCount (s : Bytes) : Nat := (s.filter (fun c => !(0x80 ≤ c && c < 0xC0))).length

def isB64UrlChar (c : UInt8) : Bool :=
  (0x41 ≤ c && c ≤ 0x5A) || (0x61 ≤ c && c ≤ 0x7A) || (0x30 ≤ c && c ≤ 0x39) || c == 0x2D || c == 0x5F

/-- `spec.NewRoomID(id)` succeeds.  `none` = not modelled (bracketed IPv6 literal as domain). -/
def roomIDValid? (id : Bytes) : Option Bool :=
  if id.length < 4 || id.length > 255 then some false else
  match id with
  | 0x21 :: rest =>
    if !id.contains 0x3A then some (rest.length == 43 && rest.all isB64UrlChar)
    else match cutAt 0x3A rest with
      | some (opq, domain) =>
        match serverNameValid? domain with
        | none => none
        | some v => some (v && !opq.isEmpty)
      | none => some false
  | _ => some false

/-- `checkID(id, kind, sigil)` -/
def checkID (id : Bytes) (sigil : UInt8) : Except Err Unit :=
  if !id.contains 0x3A then .error errOther else
  match id with
  | [] => .error errOther
  | c :: _ =>
    if c != sigil then .error errOther
    else if runeCount id > maxIDLength then .error errTooLarge
    else if id.length > maxIDLength then .error errTooLargePersistable
    else .ok ()

/-- `checkRoomIDField` -/
def checkRoomIDField (id : Bytes) : Except Err Unit :=
  match checkID id 0x21 with
  | .error e => if e == errTooLargePersistable then .error errTooLarge else .error e
  | .ok () =>
    match roomIDValid? id with
    | none => .error (unmodelled "room ID with IPv6 literal")
    | some true => .ok ()
    | some false => .error errOther

def isCreateF (f : Fields) : Bool := f.type == b!"m.room.create" && f.stateKey == some []

/-- `checkRoomID` of eventV3.go.  The room ID of a create event derives from its event ID; a `room_id` member that
    is present anyway is held to the two length limits (an `EventValidationError`, never persistable: no event is
    returned), and to nothing else. -/
def checkRoomIDV3 (f : Fields) : Except Err Unit :=
  if isCreateF f then
    (if runeCount f.roomID > maxIDLength then .error errTooLarge
     else if f.roomID.length > maxIDLength then .error errTooLarge
     else .ok ())
  else match f.roomID with
    | 0x21 :: _ =>
      match roomIDValid? f.roomID with
      | none => .error (unmodelled "room ID with IPv6 literal")
      | some true => .ok ()
      | some false => .error errOther
    | _ => .error errOther

def checkRoom (fmt : Fmt) (f : Fields) : Except Err Unit :=
  if fmt == .v3 then checkRoomIDV3 f else checkRoomIDField f.roomID

/-! ## Events -/

structure PDU where
  ver : Bytes
  fmt : Fmt
  redacted : Bool
  /-- what `JSON()` returns -/
  json : Bytes
  /-- the members of the value `json` denotes (up to member order) -/
  obj : Obj
  f : Fields
  deriving Repr, Inhabited

def enforces (row : VGen.VersionRow) : Option Bool :=
  if row.canonicalJSONCheck == "verifyEnforcedCanonicalJSON" then some true
  else if row.canonicalJSONCheck == "noVerifyCanonicalJSON" then some false
  else none

mutual
/-- `verifyEnforcedCanonicalJSON` on a value -/
def jNumbersOk : JVal → Bool
  | .num lit => numOk lit
  | .arr xs => jNumbersOkList xs
  | .obj kvs => jNumbersOkMembers kvs
  | _ => true
def jNumbersOkList : List JVal → Bool
  | [] => true
  | x :: xs => jNumbersOk x && jNumbersOkList xs
def jNumbersOkMembers : List (Bytes × JVal) → Bool
  | [] => true
  | (_, v) :: kvs => jNumbersOk v && jNumbersOkMembers kvs
end

/-! ### Reference hash and event ID (`referenceOfEventForVersion`) -/

def stripSigs (kvs : Obj) : Obj := kvs.filter (fun kv => !(kv.1 == b!"signatures" || kv.1 == b!"unsigned"))

/-- the bytes whose SHA-256 is the reference hash: the redacted event without `signatures` and `unsigned` -/
def referenceBytes (ver : Bytes) (j : JVal) : Except Err Bytes :=
  match redactJSON ver j with
  | .error e => .error e
  | .ok (.obj r) => .ok (encodeCanon (.obj (stripSigs r)))
  | .ok _ => .error errOther

/-- `referenceOfEventForVersion(json, ver).EventID` -/
def referenceID (H : Bytes → Bytes) (row : VGen.VersionRow) (ver : Bytes) (j : JVal) : Except Err Bytes :=
  match redactJSON ver j with
  | .error e => .error e
  | .ok (.obj r) =>
    let digest := H (encodeCanon (.obj (stripSigs r)))
    if row.eventFormat == 1 then
      match GoJson.lookupExact r b!"event_id" with
      | some (.str s) => .ok s
      | some .null => .ok []
      | _ => .error errOther
    else if row.eventFormat == 2 then
      if row.eventIDFormat == 2 then .ok (0x24 :: B64.encodeWith B64.stdAlphabet digest)
      else if row.eventIDFormat == 3 then .ok (0x24 :: B64.encodeWith B64.urlAlphabet digest)
      else .error errOther
    else .error errOther
  | .ok _ => .error errOther

/-- `populateEventID` (eventV2 / eventV3 constructors) -/
def populateEventID (H : Bytes → Bytes) (row : VGen.VersionRow) (e : PDU) : Except Err PDU :=
  if e.fmt == .v1 then .ok e
  else if !e.f.eventIDRaw.isEmpty then .ok e
  else match referenceID H row e.ver (.obj e.obj) with
    | .error (.other w) => .error (.other w)
    | .error x => .error x
    | .ok id => .ok { e with f := { e.f with eventIDRaw := id } }

/-! ### Accessors -/

def isCreate (e : PDU) : Bool := isCreateF e.f

/-- `EventID()`; eventV2 falls back to computing the reference when the stored ID is empty
    (only reachable through `NewEventFromTrustedJSONWithEventID("")`) and panics if that fails. -/
def eventID (H : Bytes → Bytes) (e : PDU) : Except Err Bytes :=
  if e.fmt == .v1 || !e.f.eventIDRaw.isEmpty then .ok e.f.eventIDRaw
  else match rowOf e.ver with
    | none => .error (unmodelled "version")
    | some row =>
      match referenceID H row e.ver (.obj e.obj) with
      | .ok id => .ok id
      | .error (.other w) => if w.startsWith "unmodelled" then .error (.other w) else .error (.panic "eventV2.go:EventID failed to generate reference")
      | .error x => .error x

def newRoomIDOrPanic (id : Bytes) : Except Err Bytes :=
  match roomIDValid? id with
  | none => .error (unmodelled "room ID with IPv6 literal")
  | some true => .ok id
  | some false => .error (.panic "RoomID is invalid")

/-- `RoomID().String()` -/
def roomID (H : Bytes → Bytes) (e : PDU) : Except Err Bytes :=
  if e.fmt == .v3 && isCreate e then
    match eventID H e with
    | .error x => .error x
    | .ok [] => .error (.panic "eventV3.go:RoomID EventID()[1:]")
    | .ok (_ :: rest) => newRoomIDOrPanic (0x21 :: rest)
  else newRoomIDOrPanic e.f.roomID

/-- `PrevEventIDs()`: `none` = nil -/
def prevEventIDs (e : PDU) : Option (List Bytes) :=
  if e.fmt == .v1 then some (e.f.prevEvents.getD []) else e.f.prevEvents

/-- `AuthEventIDs()` -/
def authEventIDs (e : PDU) : Except Err (Option (List Bytes)) :=
  match e.fmt with
  | .v1 => .ok (some (e.f.authEvents.getD []))
  | .v2 => .ok e.f.authEvents
  | .v3 =>
    if isCreate e then .ok (some [])
    else match e.f.roomID with
      | [] => .error (.panic "eventV3.go:AuthEventIDs RoomID[1:]")
      | _ :: rest => .ok (some ((0x24 :: rest) :: e.f.authEvents.getD []))

/-- versions of `lenientByteLimitRoomVersions` (eventV2.go), from the regenerated facts -/
def lenientVersions : List Bytes := VGen.lenientByteLimitRoomVersions.map sb

/-- the versions `CheckFields` exempts from the sender well-formedness check (case labels of its switch) -/
def senderExempt (ver : Bytes) : Bool := VGen.senderCheckExempt.any (fun v => sb v == ver)

def byteLimitErr (ver : Bytes) : Err := if lenientVersions.contains ver then errTooLargePersistable else errTooLarge

/-- `CheckFields`: nil reference lists, total size, the code-point limits (type, state key,
    sender), sender well-formedness (not for the pseudo-ID version), then the byte limits -/
def checkFields (e : PDU) : Except Err Unit :=
  match authEventIDs e with
  | .error x => .error x
  | .ok a =>
    if a.isNone || (prevEventIDs e).isNone then .error errOther
    else if e.json.length > maxEventLength then .error errTooLarge
    else if runeCount e.f.type > maxIDLength then .error errTooLarge
    else if (match e.f.stateKey with
      | some sk => decide (runeCount sk > maxIDLength)
      | none => false) then .error errTooLarge
    else if runeCount e.f.sender > maxIDLength then .error errTooLarge
    else if !senderExempt e.ver && !e.f.sender.contains 0x3A then .error errOther
    else if !senderExempt e.ver && e.f.sender.head? != some 0x40 then .error errOther
    else if e.f.type.length > maxIDLength then .error (byteLimitErr e.ver)
    else if (match e.f.stateKey with
      | some sk => decide (sk.length > maxIDLength)
      | none => false) then .error (byteLimitErr e.ver)
    else if e.f.sender.length > maxIDLength then .error errTooLargePersistable
    else .ok ()

/-! ### Constructors -/

/-- the decode + room-ID check shared by every constructor; `text`/`kvs` is what `JSON()` will hold -/
def construct (fmt : Fmt) (ver : Bytes) (redacted : Bool) (text : Bytes) (j : JVal) : Except Err PDU :=
  match j with
  | .obj kvs =>
    let d := decodeFields fmt kvs
    if d.err then .error errOther
    else if d.unmodelled then .error (unmodelled "struct decoding (repeated slice member)")
    else match checkRoom fmt d.f with
      | .error x => .error x
      | .ok () => .ok { ver := ver, fmt := fmt, redacted := redacted, json := text, obj := kvs, f := d.f }
  | .null =>
    -- JSON null leaves the zero struct; the room-ID check then refuses it
    match checkRoom fmt {} with
    | .error x => .error x
    | .ok () => .ok { ver := ver, fmt := fmt, redacted := redacted, json := text, obj := [], f := {} }
  | _ => .error errOther

/-- The ID of the later formats is computed, never read: the struct decoding fills the field from an `event_id`
    member (the untrusted constructors strip the exact key, but a case variant would survive; trusted JSON may carry
    the member itself), so the V2 / V3 constructors that compute the ID reset the field first. -/
def resetID (fmt : Fmt) (e0 : PDU) : PDU :=
  if fmt == .v1 then e0 else { e0 with f := { e0.f with eventIDRaw := [] } }

/-- `newEventFromTrustedJSONV1/V2/V3` on the value `j` that `text` denotes -/
def trustedCore (H : Bytes → Bytes) (row : VGen.VersionRow) (ver : Bytes) (redacted : Bool) (text : Bytes) (j : JVal) : Except Err PDU :=
  match fmtOfName row.newEventFromTrustedJSONFunc with
  | none => .error (unmodelled "constructor")
  | some fmt =>
    match construct fmt ver redacted text j with
    | .error x => .error x
    | .ok e => populateEventID H row (resetID fmt e)

def parseTrusted (H : Bytes → Bytes) (ver : Bytes) (redacted : Bool) (text : Bytes) : Except Err PDU :=
  match rowOf ver with
  | none => .error (unmodelled "version")
  | some row =>
    match parse text with
    | none => .error (.other "invalid-json")
    | some p => trustedCore H row ver redacted text p.toJVal

/-- `newEventFromTrustedJSONWithEventIDV1/V2/V3` -/
def trustedWithIDCore (row : VGen.VersionRow) (ver : Bytes) (id : Bytes) (redacted : Bool) (text : Bytes) (j : JVal) : Except Err PDU :=
  match fmtOfName row.newEventFromTrustedJSONWithEventIDFunc with
  | none => .error (unmodelled "constructor")
  | some fmt =>
    match construct fmt ver redacted text j with
    | .error x => .error x
    | .ok e => .ok { e with f := { e.f with eventIDRaw := id } }

def parseTrustedWithID (ver : Bytes) (id : Bytes) (redacted : Bool) (text : Bytes) : Except Err PDU :=
  match rowOf ver with
  | none => .error (unmodelled "version")
  | some row =>
    match parse text with
    | none => .error (.other "invalid-json")
    | some p => trustedWithIDCore row ver id redacted text p.toJVal

/-- keys removed on receipt (the V1 constructor keeps `event_id`) -/
def stripKeys (fmt : Fmt) : List Bytes :=
  if fmt == .v1 then [b!"outlier", b!"destinations", b!"age_ts", b!"unsigned"]
  else [b!"outlier", b!"destinations", b!"age_ts", b!"unsigned", b!"event_id"]

/-- the string `gjson.GetBytes(json, "hashes.sha256").Str` -/
def claimedHash (kvs : Obj) : Bytes :=
  match getFirst kvs b!"hashes" with
  | some (.obj m) =>
    match getFirst m b!"sha256" with
    | some (.str s) => s
    | _ => []
  | _ => []

def hashedBytes (kvs : Obj) : Bytes :=
  encodeCanon (.obj (deleteKeys [b!"signatures", b!"unsigned", b!"hashes"] kvs))

/-- `checkEventContentHash(json) == nil` -/
def contentHashOk (H : Bytes → Bytes) (kvs : Obj) : Bool :=
  match B64.decode (claimedHash kvs) with
  | none => false
  | some d => d == H (hashedBytes kvs)

/-- `populateEventID` followed by `CheckFields` -/
def idAndChecks (H : Bytes → Bytes) (row : VGen.VersionRow) (e : PDU) : Except Err PDU :=
  match populateEventID H row e with
  | .error x => .error x
  | .ok e' =>
    match checkFields e' with
    | .error x => .error x
    | .ok () => .ok e'

/-- The V1 constructor requires an accepted event to be redactable; the later formats redact anyway
    to compute the event ID. -/
def redactableV1 (fmt : Fmt) (ver : Bytes) (e : PDU) : Except Err Unit :=
  if fmt == .v1 then
    match redactJSON ver (.obj e.obj) with
    | .ok _ => .ok ()
    | .error (.other w) => if w.startsWith "unmodelled" then .error (.other w) else .error errOther
    | .error x => .error x
  else .ok ()

/-- the keep struct re-emits a case variant of `event_id` under its proper name: the later
    formats drop it from the redacted JSON -/
def dropEventID (fmt : Fmt) (r0 : JVal) : JVal :=
  if fmt == .v1 then r0 else
  match r0 with
  | .obj rk => .obj (deleteFirst b!"event_id" rk)
  | v => v

/-- the content hash does not match: what is returned is the redacted event -/
def onMismatch (H : Bytes → Bytes) (row : VGen.VersionRow) (fmt : Fmt) (ver : Bytes) (text' : Bytes) (e : PDU) : Except Err PDU :=
  match redactJSON ver (.obj e.obj) with
  | .error (.other w) => if w.startsWith "unmodelled" then .error (.other w) else .error errOther
  | .error x => .error x
  | .ok r0 =>
    let r := dropEventID fmt r0
    if encodeCanon r != text' then
      match trustedCore H row ver true (encodeCanon r) r with
      | .error x => .error x
      | .ok e' =>
        match checkFields e' with
        | .error x => .error x
        | .ok () => .ok e'
    else idAndChecks H row { e with redacted := true }

/-- everything after the struct decoding and the room-ID check: `text'` is the canonical JSON of
    the stripped event, `e` the decoded event -/
def finishUntrusted (H : Bytes → Bytes) (row : VGen.VersionRow) (fmt : Fmt) (ver : Bytes) (text' : Bytes) (e : PDU) : Except Err PDU :=
  -- the size limit applies to the event as received (canonical, local keys stripped)
  if text'.length > maxEventLength then .error errTooLarge else
  if contentHashOk H e.obj then
    match redactableV1 fmt ver e with
    | .error x => .error x
    | .ok () => idAndChecks H row e
  else onMismatch H row fmt ver text' e

/-- the value after the receiver's stripping -/
def stripped (fmt : Fmt) (j : JVal) : JVal :=
  match j with
  | .obj kvs => .obj (deleteKeys (stripKeys fmt) kvs)
  | v => v

/-- the JSON names of the fields that decoding event JSON fills in (`eventJSONFieldNames` of event.go: the struct
    tags of `eventV2`, which embeds `eventV1`, which embeds `eventFields`) -/
def structFieldNames : List Bytes := [b!"room_id", b!"sender", b!"type", b!"state_key", b!"content", b!"redacts", b!"depth",
  b!"unsigned", b!"origin_server_ts", b!"event_id", b!"prev_events", b!"auth_events", b!"msc4354_sticky", b!"sticky"]

/-- `checkUntrustedEventJSON`, second check: a top-level member whose name equals a field name under Unicode case
    folding (`strings.EqualFold`) without being that name -/
def hasFieldVariant : JVal → Bool
  | .obj kvs => kvs.any (fun kv => structFieldNames.any (fun n => kv.1 != n && foldBytes kv.1 == foldBytes n))
  | _ => false

/-- `newEventFromUntrustedJSONV1/V2/V3` -/
def parseUntrusted (H : Bytes → Bytes) (ver : Bytes) (text : Bytes) : Except Err PDU :=
  match rowOf ver with
  | none => .error (unmodelled "version")
  | some row =>
    match fmtOfName row.newEventFromUntrustedJSONFunc, enforces row with
    | some fmt, some enf =>
      match parse text with
      | none => .error (.other "invalid-json")
      | some p =>
        if hasUnderscoreKey p.toJVal then .error errOther
        else if enf && !p.numbersOk then .error .badJSON
        -- checkUntrustedEventJSON: a repeated member name in any object, a case variant of a struct field name
        else if !p.toJVal.noDupKeys then .error .badJSON
        else if hasFieldVariant p.toJVal then .error .badJSON
        else
          match construct fmt ver false (encodeCanon (stripped fmt p.toJVal)) (stripped fmt p.toJVal) with
          | .error x => .error x
          | .ok e0 => finishUntrusted H row fmt ver (encodeCanon (stripped fmt p.toJVal)) (resetID fmt e0)
    | _, _ => .error (unmodelled "constructor / canonical check function")

/-! ### Headered form -/

/-- `gjson.Get(json, key).String()` for a string or absent / null member; `none` = not modelled -/
def gjsonString (kvs : Obj) (k : Bytes) : Option Bytes :=
  match getFirst kvs k with
  | none => some []
  | some .null => some []
  | some (.str s) => some s
  | some _ => none

/-- `NewEventFromHeaderedJSON` -/
def parseHeadered (redacted : Bool) (text : Bytes) : Except Err PDU :=
  match parse text with
  | none => .error (.other "invalid-json")
  | some p =>
    match p.toJVal with
    | .obj kvs =>
      match gjsonString kvs b!"_event_id", gjsonString kvs b!"_room_version" with
      | some id, some ver =>
        match rowOf ver with
        | none => .error errOther
        | some row =>
          let kvs' := deleteFirst b!"_room_version" (deleteFirst b!"_event_id" kvs)
          -- JSON() holds sjson's output: the same value, spelling not modelled
          trustedWithIDCore row ver id redacted (encodeCanon (.obj kvs')) (.obj kvs')
      | _, _ => .error (unmodelled "non-string header member")
    | _ => .error (unmodelled "headered text that is not an object")

/-- sjson.SetBytes(json, key, string): replaces the first member with that key, else appends -/
def setFirst (k : Bytes) (v : JVal) : Obj → Obj
  | [] => [(k, v)]
  | kv :: rest => if kv.1 == k then (k, v) :: rest else kv :: setFirst k v rest

/-- `ToHeaderedJSON` as a value -/
def toHeadered (H : Bytes → Bytes) (e : PDU) : Except Err JVal :=
  match eventID H e with
  | .error x => .error x
  | .ok id => .ok (.obj (setFirst b!"_event_id" (.str id) (setFirst b!"_room_version" (.str e.ver) e.obj)))

/-! ### Redact(), SetUnsigned -/

/-- `EnforcedCanonicalJSON(json.Marshal(v), ver)` succeeds -/
def enforcedOkVal (row : VGen.VersionRow) (v : JVal) : Option Bool :=
  match enforces row with
  | none => none
  | some enf => some (!enf || jNumbersOk v)

/-- `PDU.Redact()` (eventV1.Redact / eventV2.Redact; eventV3 inherits eventV2's) -/
def redact (e : PDU) : Except Err PDU :=
  if e.redacted then .ok e else
  match rowOf e.ver with
  | none => .error (.panic "Redact: GetRoomVersion")
  | some row =>
    match redactJSON e.ver (.obj e.obj) with
    | .error (.other w) => if w.startsWith "unmodelled" then .error (.other w) else .error (.panic "Redact: RedactEventJSON")
    | .error x => .error x
    | .ok r =>
      match enforcedOkVal row r with
      | none => .error (unmodelled "canonical check function")
      | some false => .error (.panic "Redact: EnforcedCanonicalJSON")
      | some true =>
        match r with
        | .obj rk =>
          let sfmt := if e.fmt == .v1 then Fmt.v1 else Fmt.v2
          let d := decodeFields sfmt rk
          if d.err then .error (.panic "Redact: json.Unmarshal")
          else if d.unmodelled then .error (unmodelled "struct decoding")
          else
            let idRaw := if e.fmt == .v1 then d.f.eventIDRaw
              else if d.f.eventIDRaw.isEmpty then e.f.eventIDRaw else d.f.eventIDRaw
            .ok { e with redacted := true, json := encodeCanon r, obj := rk, f := { d.f with eventIDRaw := idRaw } }
        | _ => .error (.panic "Redact: json.Unmarshal")

/-- `SetUnsigned(u)` with `u` already a JSON value -/
def setUnsigned (e : PDU) (u : JVal) : Except Err PDU :=
  match rowOf e.ver with
  | none => .error errOther
  | some row =>
    let kvs := setFirst b!"unsigned" u (dedupLast e.obj)
    match enforcedOkVal row (.obj kvs) with
    | none => .error (unmodelled "canonical check function")
    | some false => .error .badJSON
    | some true => .ok { e with json := encodeCanon (.obj kvs), obj := kvs, f := { e.f with unsigned := some u } }

/-- `SetUnsignedField(k, v)` for a key `k` without gjson path syntax (no `.`, `*`, `?`, `#`, `|`, `:`, `@`, `\\`) and a
    value already given as JSON: `sjson.SetBytes(json, "unsigned." ++ k, v)` creates the `unsigned` object when the
    member is absent and replaces / appends the member `k` when it is an object; the event is changed IN PLACE
    (only `JSON()` and `Unsigned()` change).  Another kind of `unsigned` member: not modelled. -/
def setUnsignedField (e : PDU) (k : Bytes) (v : JVal) : Except Err PDU :=
  let nu : Option JVal := match getFirst e.obj b!"unsigned" with
    | none => some (.obj [(k, v)])
    | some (.obj m) => some (.obj (setFirst k v m))
    | some _ => none
  match nu with
  | none => .error (unmodelled "SetUnsignedField on an unsigned member that is not an object")
  | some u =>
    let kvs := setFirst b!"unsigned" u e.obj
    .ok { e with json := encodeCanon (.obj kvs), obj := kvs, f := { e.f with unsigned := some u } }

/-! ### Signing -/

/-- What a server signs and what `VerifyEventSignatures` checks a signature against: the
    canonical JSON of the redacted event without `signatures` and `unsigned` (`signEvent` →
    `SignJSON`, `VerifyEventSignatures` → `VerifyJSON`).  The same bytes as the reference hash input. -/
def signingPayload (ver : Bytes) (j : JVal) : Except Err Bytes := referenceBytes ver j

/-- the `signatures` member a verifier reads: that of the redacted event -/
def signaturesOf (ver : Bytes) (j : JVal) : Except Err (Option JVal) :=
  match redactJSON ver j with
  | .error e => .error e
  | .ok (.obj r) => .ok (GoJson.lookupExact r b!"signatures")
  | .ok _ => .error errOther

/-- `signatures[name][kid] := sig` on a signatures object (absent = empty) -/
def addSignature (sigs : Option JVal) (name kid : Bytes) (sig : Bytes) : Option JVal :=
  match sigs with
  | none => some (.obj [(name, .obj [(kid, .str sig)])])
  | some (.obj m) =>
    match mapGet m name with
    | none => some (.obj (m ++ [(name, .obj [(kid, .str sig)])]))
    | some (.obj km) => some (.obj (setKey m name (.obj (setKey km kid (.str sig)))))
    | some _ => none
  | some _ => none

/-- `PDU.Sign(name, kid, sk)` given the signature (unpadded base64 text) ed25519 produces for the
    signing payload.  Panics of the Go method: redaction or the canonical check failing. -/
def signWith (e : PDU) (name kid : Bytes) (sig : Bytes) : Except Err PDU :=
  match rowOf e.ver with
  | none => .error (.panic "Sign: GetRoomVersion")
  | some row =>
    match signaturesOf e.ver (.obj e.obj) with
    | .error (.other w) => if w.startsWith "unmodelled" then .error (.other w) else .error (.panic "Sign: signEvent")
    | .error x => .error x
    | .ok sigs =>
      match addSignature sigs name kid sig with
      | none => .error (unmodelled "existing signatures member is not an object of objects")
      | some ns =>
        let kvs := setFirst b!"signatures" ns (dedupLast e.obj)
        match enforcedOkVal row (.obj kvs) with
        | none => .error (unmodelled "canonical check function")
        | some false => .error (.panic "Sign: EnforcedCanonicalJSON")
        | some true => .ok { e with json := encodeCanon (.obj kvs), obj := kvs }

end EventParse
end V
