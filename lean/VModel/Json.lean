/-
  VModel.Json — executable model of json.go (CompactJSON, SortJSON, CanonicalJSON,
  verifyEnforcedCanonicalJSON) together with the independent specification
  (`JVal`, `encode`, `parse`).  Core Lean only.

  Two layers:
  * byte level, mirroring the Go code statement by statement: `compact`, `sortJSON`
    (over the gjson view `PVal`), `canonical`, `enforcedOk`;
  * value level (the specification C01 is stated against): `JVal`, `encode`, `PVal.toJVal`.
-/
namespace V

abbrev Bytes := List UInt8

/-- Errors of modelled functions.  `panic` is kept apart from ordinary errors (C18). -/
inductive Err where
  | badJSON
  | other (what : String)
  | panic (site : String)
  deriving Repr, DecidableEq, Inhabited

namespace Json

/-! ## Values -/

/-- JSON values as the specification sees them.  Strings are their decoded UTF-8 bytes;
    numbers keep their literal (the library never re-renders numbers when canonicalising). -/
inductive JVal where
  | null
  | bool (b : Bool)
  | num (lit : Bytes)
  | str (s : Bytes)
  | arr (xs : List JVal)
  | obj (kvs : List (Bytes × JVal))
  deriving Repr, Inhabited

/-- The gjson view of a parsed text: like `JVal` but every string also carries its raw
    (still escaped) spelling, which is what `sortJSONObject` re-emits. -/
inductive PVal where
  | null
  | bool (b : Bool)
  | num (raw : Bytes)
  | str (raw dec : Bytes)
  | arr (xs : List PVal)
  | obj (kvs : List (Bytes × Bytes × PVal))   -- raw key, decoded key, value
  deriving Repr, Inhabited

mutual
def PVal.toJVal : PVal → JVal
  | .null => .null
  | .bool b => .bool b
  | .num r => .num r
  | .str _ d => .str d
  | .arr xs => .arr (toJVals xs)
  | .obj kvs => .obj (toJMembers kvs)
def toJVals : List PVal → List JVal
  | [] => []
  | x :: xs => x.toJVal :: toJVals xs
def toJMembers : List (Bytes × Bytes × PVal) → List (Bytes × JVal)
  | [] => []
  | (_, d, v) :: kvs => (d, v.toJVal) :: toJMembers kvs
end

/-! ## Byte helpers -/

def bytesLt : Bytes → Bytes → Bool
  | [], [] => false
  | [], _ :: _ => true
  | _ :: _, [] => false
  | a :: as, b :: bs => if a < b then true else if b < a then false else bytesLt as bs

def bytesLe (a b : Bytes) : Bool := !bytesLt b a

def isHex (c : UInt8) : Bool :=
  (0x30 ≤ c && c ≤ 0x39) || (0x61 ≤ c && c ≤ 0x66) || (0x41 ≤ c && c ≤ 0x46)

def hexVal (c : UInt8) : Nat :=
  if 0x30 ≤ c && c ≤ 0x39 then (c - 0x30).toNat
  else if 0x61 ≤ c && c ≤ 0x66 then (c - 0x61).toNat + 10
  else if 0x41 ≤ c && c ≤ 0x46 then (c - 0x41).toNat + 10
  else 0

def hex4 (a b c d : UInt8) : Nat := ((hexVal a * 16 + hexVal b) * 16 + hexVal c) * 16 + hexVal d

def hexDigitLower (n : Nat) : UInt8 :=
  if n < 10 then UInt8.ofNat (0x30 + n) else UInt8.ofNat (0x61 + (n - 10))

/-- UTF-8 encoding of a code point, as Go's `utf8.EncodeRune` (surrogates and values above
    U+10FFFF become U+FFFD). -/
def utf8Encode (c : Nat) : Bytes :=
  if c < 0x80 then [UInt8.ofNat c]
  else if c < 0x800 then [UInt8.ofNat (0xC0 + c / 64), UInt8.ofNat (0x80 + c % 64)]
  else if (0xD800 ≤ c && c < 0xE000) || c > 0x10FFFF then [0xEF, 0xBF, 0xBD]
  else if c < 0x10000 then
    [UInt8.ofNat (0xE0 + c / 4096), UInt8.ofNat (0x80 + (c / 64) % 64), UInt8.ofNat (0x80 + c % 64)]
  else
    [UInt8.ofNat (0xF0 + c / 262144), UInt8.ofNat (0x80 + (c / 4096) % 64),
     UInt8.ofNat (0x80 + (c / 64) % 64), UInt8.ofNat (0x80 + c % 64)]

def isSurrogate (c : Nat) : Bool := 0xD800 ≤ c && c < 0xE000

/-- Go's `utf16.DecodeRune`. -/
def decodeSurrogates (hi lo : Nat) : Nat :=
  if 0xD800 ≤ hi && hi < 0xDC00 && 0xDC00 ≤ lo && lo < 0xE000 then
    (hi - 0xD800) * 1024 + (lo - 0xDC00) + 0x10000
  else 0xFFFD

/-! ## The byte-level model of `CompactJSON` (json.go) -/

/-- `ESCAPES` of compactUnicodeEscape: the escape letter for each C0 control. -/
def escapeLetter (c : Nat) : UInt8 :=
  if c == 8 then 0x62 else if c == 9 then 0x74 else if c == 10 then 0x6E
  else if c == 12 then 0x66 else if c == 13 then 0x72 else 0x75

/-- `compactUnicodeEscape`: `rest` is the input just after `\u`.  Returns the bytes appended
    and the remaining input.  Mirrors the early returns of the Go code. -/
def compactUnicodeEscape (rest : Bytes) : Except Err (Bytes × Bytes) :=
  match rest with
  | a :: b :: c :: d :: rest' =>
    let cp := hex4 a b c d   -- readHexDigits; equal on hex digits (VProps.C01.readHexDigits_correct)
    if cp < 0x20 then
      let e := escapeLetter cp
      if e == 0x75 then
        .ok ([0x5C, e, 0x30, 0x30, UInt8.ofNat (0x30 + cp / 16), hexDigitLower (cp % 16)], rest')
      else .ok ([0x5C, e], rest')
    else if cp == 0x5C || cp == 0x22 then .ok ([0x5C, UInt8.ofNat cp], rest')
    else if isSurrogate cp then
      match rest' with
      | [] => .error (.panic "json.go:compactUnicodeEscape input[index]")
      | [x] => if x != 0x5C then .ok ([], rest') else .error (.panic "json.go:compactUnicodeEscape input[index+1]")
      | x :: y :: rest'' =>
        if x != 0x5C || y != 0x75 then .ok ([], rest')
        else match rest'' with
          | a2 :: b2 :: c2 :: d2 :: rest3 =>
            .ok (utf8Encode (decodeSurrogates cp (hex4 a2 b2 c2 d2)), rest3)
          | _ => .ok ([], rest'')
    else .ok (utf8Encode cp, rest')
  | _ => .ok ([], [])

/-- Inside a string: copy up to and including the closing quote.  Returns output and rest. -/
def compactString : Nat → Bytes → Bytes → Except Err (Bytes × Bytes)
  | 0, _, acc => .ok (acc, [])
  | _, [], acc => .ok (acc, [])
  | fuel + 1, c :: rest, acc =>
    if c == 0x5C then
      match rest with
      | [] => .error (.panic "json.go:CompactJSON escape := input[i]")
      | e :: rest' =>
        if e == 0x75 then
          match compactUnicodeEscape rest' with
          | .error err => .error err
          | .ok (out, rest'') =>
            -- guard the fuel: the rest never grows
            compactString fuel rest'' (acc ++ out)
        else if e == 0x2F then compactString fuel rest' (acc ++ [e])
        else compactString fuel rest' (acc ++ [0x5C, e])
    else if c == 0x22 then .ok (acc ++ [c], rest)
    else compactString fuel rest (acc ++ [c])

/-- Is the `-` just consumed the sign of the literal `-0`?  Mirrors the guard in CompactJSON:
    the next byte is `0`, the byte after that does not continue the number (`.`, `e`, `E`), and the
    byte before the `-` is not an exponent marker.  `prev` is the input byte before the `-`. -/
def isNegZero (prev : Option UInt8) (rest : Bytes) : Bool :=
  match rest with
  | [] => false
  | z :: rest' =>
    if z != 0x30 then false
    else
      let cont := match rest' with
        | [] => false
        | n :: _ => n == 0x2E || n == 0x65 || n == 0x45
      let afterE := match prev with
        | some p => p == 0x65 || p == 0x45
        | none => false
      !cont && !afterE

def compactGo : Nat → Option UInt8 → Bytes → Bytes → Except Err Bytes
  | 0, _, _, acc => .ok acc
  | _, _, [], acc => .ok acc
  | fuel + 1, prev, c :: rest, acc =>
    if c ≤ 0x20 then compactGo fuel (some c) rest acc
    else if c == 0x2D && isNegZero prev rest then compactGo fuel (some c) rest acc
    else if c == 0x22 then
      match compactString fuel rest (acc ++ [c]) with
      | .error e => .error e
      | .ok (acc', rest') => compactGo fuel (some 0x22) rest' acc'
    else compactGo fuel (some c) rest (acc ++ [c])

/-- Model of `CompactJSON(input, nil)`. -/
def compact (input : Bytes) : Except Err Bytes := compactGo (input.length + 1) none input []

/-! ## Parser: model of `gjson.Valid` and of the gjson view used by SortJSON -/

def isWs (c : UInt8) : Bool := c == 0x20 || c == 0x09 || c == 0x0A || c == 0x0D

def skipWs : Bytes → Bytes
  | [] => []
  | c :: rest => if isWs c then skipWs rest else c :: rest

def isDigit (c : UInt8) : Bool := 0x30 ≤ c && c ≤ 0x39

def takeDigits : Bytes → Bytes × Bytes
  | [] => ([], [])
  | c :: rest => if isDigit c then let (d, r) := takeDigits rest; (c :: d, r) else ([], c :: rest)

/-- Integer part: `0` alone, or a non-empty digit run not starting with `0`. -/
def parseInt (s : Bytes) : Option (Bytes × Bytes) :=
  match s with
  | [] => none
  | c :: r =>
    if c == 0x30 then some ([c], r)
    else if isDigit c then some (takeDigits (c :: r))
    else none

/-- Optional fraction: `.` followed by at least one digit. -/
def parseFrac (s : Bytes) : Option (Bytes × Bytes) :=
  match s with
  | [] => some ([], [])
  | c :: r =>
    if c == 0x2E then
      let dr := takeDigits r
      if dr.1.isEmpty then none else some (c :: dr.1, dr.2)
    else some ([], c :: r)

/-- Optional sign of an exponent. -/
def parseExpSign (r : Bytes) : Bytes × Bytes :=
  match r with
  | [] => ([], [])
  | g :: r1 => if g == 0x2B || g == 0x2D then ([g], r1) else ([], g :: r1)

/-- Optional exponent: `e`/`E`, optional sign, at least one digit. -/
def parseExp (s : Bytes) : Option (Bytes × Bytes) :=
  match s with
  | [] => some ([], [])
  | e :: r =>
    if e == 0x65 || e == 0x45 then
      let sr := parseExpSign r
      let dr := takeDigits sr.2
      if dr.1.isEmpty then none else some (e :: sr.1 ++ dr.1, dr.2)
    else some ([], e :: r)

/-- Optional leading `-`. -/
def parseSign (s : Bytes) : Bytes × Bytes :=
  match s with
  | [] => ([], [])
  | c :: r => if c == 0x2D then ([c], r) else ([], c :: r)

/-- Number literal of the JSON grammar at the head of the input. -/
def parseNumber (s : Bytes) : Option (Bytes × Bytes) :=
  let ss := parseSign s
  match parseInt ss.2 with
  | none => none
  | some (ip, s2) =>
    match parseFrac s2 with
    | none => none
    | some (fp, s3) =>
      match parseExp s3 with
      | none => none
      | some (ep, s4) => some (ss.1 ++ ip ++ fp ++ ep, s4)

/-- The two-character escapes `\" \\ \/ \b \f \n \r \t`: the byte each one denotes. -/
def simpleEscape (e : UInt8) : Option UInt8 :=
  if e == 0x22 then some 0x22
  else if e == 0x5C then some 0x5C
  else if e == 0x2F then some 0x2F
  else if e == 0x62 then some 0x08
  else if e == 0x66 then some 0x0C
  else if e == 0x6E then some 0x0A
  else if e == 0x72 then some 0x0D
  else if e == 0x74 then some 0x09
  else none

/-- A `\u` escape; the input is what follows `\u`.  Returns (raw bytes consumed, decoded bytes, rest).
    A surrogate directly followed by another `\uXXXX` is joined with it (`utf16.DecodeRune`: U+FFFD
    unless they form a proper pair); a surrogate followed by anything else decodes to U+FFFD. -/
def parseUEscape (s : Bytes) : Option (Bytes × Bytes × Bytes) :=
  match s with
  | a :: b :: c2 :: d :: rest'' =>
    if isHex a && isHex b && isHex c2 && isHex d then
      if isSurrogate (hex4 a b c2 d) then
        match rest'' with
        | x :: y :: a2 :: b2 :: c3 :: d2 :: rest3 =>
          if x == 0x5C && y == 0x75 then
            if isHex a2 && isHex b2 && isHex c3 && isHex d2 then
              some ([a, b, c2, d, x, y, a2, b2, c3, d2],
                    utf8Encode (decodeSurrogates (hex4 a b c2 d) (hex4 a2 b2 c3 d2)), rest3)
            else none
          else some ([a, b, c2, d], utf8Encode (hex4 a b c2 d), rest'')
        | _ => some ([a, b, c2, d], utf8Encode (hex4 a b c2 d), rest'')
      else some ([a, b, c2, d], utf8Encode (hex4 a b c2 d), rest'')
    else none
  | _ => none

/-- String body after the opening quote: returns (raw, decoded, rest after closing quote).
    Accepts what `gjson.Valid` accepts (bytes < 0x20 refused, escapes `"\/bfnrtu`). Decoding as
    gjson's `unescape` (surrogate pairs joined, lone surrogates become U+FFFD). -/
def parseString : Nat → Bytes → Bytes → Bytes → Option (Bytes × Bytes × Bytes)
  | 0, _, _, _ => none
  | _, [], _, _ => none
  | fuel + 1, c :: rest, raw, dec =>
    if c == 0x22 then some (raw, dec, rest)
    else if c < 0x20 then none
    else if c == 0x5C then
      match rest with
      | [] => none
      | e :: rest' =>
        match simpleEscape e with
        | some x => parseString fuel rest' (raw ++ [c, e]) (dec ++ [x])
        | none =>
          if e == 0x75 then
            match parseUEscape rest' with
            | some (ru, du, rest'') => parseString fuel rest'' (raw ++ c :: e :: ru) (dec ++ du)
            | none => none
          else none
    else parseString fuel rest (raw ++ [c]) (dec ++ [c])

mutual
/-- Parse one value (leading whitespace allowed). -/
def parseValue : Nat → Bytes → Option (PVal × Bytes)
  | 0, _ => none
  | fuel + 1, s =>
    match skipWs s with
    | [] => none
    | c :: rest =>
      if c == 0x7B then -- {
        match skipWs rest with
        | [] => none
        | c2 :: rest' => if c2 == 0x7D then some (.obj [], rest') else parseMembers fuel (c2 :: rest') []
      else if c == 0x5B then -- [
        match skipWs rest with
        | [] => none
        | c2 :: rest' => if c2 == 0x5D then some (.arr [], rest') else parseElems fuel (c2 :: rest') []
      else if c == 0x22 then
        match parseString (rest.length + 1) rest [] [] with
        | some (raw, dec, rest') => some (.str raw dec, rest')
        | none => none
      else if c == 0x74 then -- true
        match rest with
        | r :: u :: e :: rest' => if r == 0x72 && u == 0x75 && e == 0x65 then some (.bool true, rest') else none
        | _ => none
      else if c == 0x66 then -- false
        match rest with
        | a :: l :: s' :: e :: rest' =>
          if a == 0x61 && l == 0x6C && s' == 0x73 && e == 0x65 then some (.bool false, rest') else none
        | _ => none
      else if c == 0x6E then -- null
        match rest with
        | u :: l :: l' :: rest' => if u == 0x75 && l == 0x6C && l' == 0x6C then some (.null, rest') else none
        | _ => none
      else if c == 0x2D || isDigit c then
        match parseNumber (c :: rest) with
        | some (lit, rest') => some (.num lit, rest')
        | none => none
      else none
/-- Elements of a non-empty array, after `[` and whitespace. -/
def parseElems : Nat → Bytes → List PVal → Option (PVal × Bytes)
  | 0, _, _ => none
  | fuel + 1, s, acc =>
    match parseValue fuel s with
    | none => none
    | some (v, rest) =>
      match skipWs rest with
      | [] => none
      | d :: rest' =>
        if d == 0x2C then parseElems fuel rest' (acc ++ [v])
        else if d == 0x5D then some (.arr (acc ++ [v]), rest')
        else none
/-- Members of a non-empty object, after `{` and whitespace. -/
def parseMembers : Nat → Bytes → List (Bytes × Bytes × PVal) → Option (PVal × Bytes)
  | 0, _, _ => none
  | fuel + 1, s, acc =>
    match skipWs s with
    | [] => none
    | q :: rest =>
      if q == 0x22 then
        match parseString (rest.length + 1) rest [] [] with
        | none => none
        | some (raw, dec, rest1) =>
          match skipWs rest1 with
          | [] => none
          | col :: rest2 =>
            if col == 0x3A then
              match parseValue fuel rest2 with
              | none => none
              | some (v, rest3) =>
                match skipWs rest3 with
                | [] => none
                | d :: rest4 =>
                  if d == 0x2C then parseMembers fuel rest4 (acc ++ [(raw, dec, v)])
                  else if d == 0x7D then some (.obj (acc ++ [(raw, dec, v)]), rest4)
                  else none
            else none
      else none
end

/-- Parse a complete text (surrounding whitespace allowed, nothing else may follow). -/
def parse (s : Bytes) : Option PVal :=
  match parseValue (s.length + 1) s with
  | some (v, rest) => if (skipWs rest).isEmpty then some v else none
  | none => none

/-- Model of `gjson.Valid`. -/
def valid (s : Bytes) : Bool := (parse s).isSome

/-! ## SortJSON -/

/-- Insertion into a list sorted by key (strictly-before test `bytesLt`).  For distinct keys
    the result is the unique sorted arrangement, independent of the sorting algorithm. -/
def insertByKey {α : Type} (m : Bytes × α) : List (Bytes × α) → List (Bytes × α)
  | [] => [m]
  | x :: xs => if bytesLt m.1 x.1 then m :: x :: xs else x :: insertByKey m xs

def sortByKey {α : Type} : List (Bytes × α) → List (Bytes × α)
  | [] => []
  | m :: ms => insertByKey m (sortByKey ms)

def joinWith (sep : UInt8) : List Bytes → Bytes
  | [] => []
  | [x] => x
  | x :: xs => x ++ sep :: joinWith sep xs

mutual
/-- `sortJSONValue`: re-emit with object members ordered by their *decoded* key, each key written
    in its raw spelling, leaves written raw. -/
def sortEmit : PVal → Bytes
  | .null => [0x6E, 0x75, 0x6C, 0x6C]
  | .bool true => [0x74, 0x72, 0x75, 0x65]
  | .bool false => [0x66, 0x61, 0x6C, 0x73, 0x65]
  | .num raw => raw
  | .str raw _ => 0x22 :: raw ++ [0x22]
  | .arr xs => 0x5B :: joinWith 0x2C (sortEmitList xs) ++ [0x5D]
  | .obj kvs => 0x7B :: joinWith 0x2C ((sortByKey (sortEmitMembers kvs)).map (·.2)) ++ [0x7D]
def sortEmitList : List PVal → List Bytes
  | [] => []
  | x :: xs => sortEmit x :: sortEmitList xs
/-- (decoded key, emitted member) for each member, in the text's order -/
def sortEmitMembers : List (Bytes × Bytes × PVal) → List (Bytes × Bytes)
  | [] => []
  | (raw, dec, v) :: kvs => (dec, 0x22 :: raw ++ [0x22, 0x3A] ++ sortEmit v) :: sortEmitMembers kvs
end

mutual
def PVal.noDupKeys : PVal → Bool
  | .arr xs => noDupKeysList xs
  | .obj kvs => noDupIn (kvs.map (·.2.1)) && noDupKeysMembers kvs
  | _ => true
def noDupKeysList : List PVal → Bool
  | [] => true
  | x :: xs => x.noDupKeys && noDupKeysList xs
def noDupKeysMembers : List (Bytes × Bytes × PVal) → Bool
  | [] => true
  | (_, _, v) :: kvs => v.noDupKeys && noDupKeysMembers kvs
def noDupIn : List Bytes → Bool
  | [] => true
  | k :: ks => !ks.contains k && noDupIn ks
end

/-! ### Well-formed Unicode (the domain C01 quantifies over) -/

/-- UTF-8 validity (RFC 3629: no overlongs, no surrogates, ≤ U+10FFFF). -/
def utf8Valid : Bytes → Bool
  | [] => true
  | a :: rest =>
    if a < 0x80 then utf8Valid rest
    else if a < 0xC2 then false
    else if a < 0xE0 then
      match rest with
      | b :: r => (0x80 ≤ b && b < 0xC0) && utf8Valid r
      | _ => false
    else if a < 0xF0 then
      match rest with
      | b :: c :: r =>
        (0x80 ≤ b && b < 0xC0) && (0x80 ≤ c && c < 0xC0) &&
        !(a == 0xE0 && b < 0xA0) && !(a == 0xED && b ≥ 0xA0) && utf8Valid r
      | _ => false
    else if a < 0xF5 then
      match rest with
      | b :: c :: d :: r =>
        (0x80 ≤ b && b < 0xC0) && (0x80 ≤ c && c < 0xC0) && (0x80 ≤ d && d < 0xC0) &&
        !(a == 0xF0 && b < 0x90) && !(a == 0xF4 && b ≥ 0x90) && utf8Valid r
      | _ => false
    else false

/-- No lone surrogate escape in the raw spelling of a (grammatically valid) string: every high
    surrogate escape is directly followed by a low surrogate escape, and no low surrogate stands alone. -/
def surrogatesPaired : Bytes → Bool
  | [] => true
  | c :: rest =>
    if c == 0x5C then
      match rest with
      | [] => true
      | e :: rest1 =>
        if e == 0x75 then
          match rest1 with
          | a :: b :: c2 :: d :: rest2 =>
            if 0xD800 ≤ hex4 a b c2 d && hex4 a b c2 d < 0xDC00 then
              match rest2 with
              | x :: y :: a2 :: b2 :: c3 :: d2 :: rest3 =>
                x == 0x5C && y == 0x75 && (0xDC00 ≤ hex4 a2 b2 c3 d2 && hex4 a2 b2 c3 d2 < 0xE000)
                  && surrogatesPaired rest3
              | _ => false
            else if 0xDC00 ≤ hex4 a b c2 d && hex4 a b c2 d < 0xE000 then false
            else surrogatesPaired rest2
          | _ => true   -- truncated escape: not a grammatical string
        else surrogatesPaired rest1
    else surrogatesPaired rest

/-- The weaker condition the equivalence model = specification actually needs: every surrogate
    escape `\uXXXX` is directly followed by another `\uYYYY` escape (whatever its value).  A surrogate
    escape followed by anything else is *dropped* by `CompactJSON` but decoded as U+FFFD by gjson. -/
def noLoneSurr : Bytes → Bool
  | [] => true
  | c :: rest =>
    if c == 0x5C then
      match rest with
      | [] => true
      | e :: rest1 =>
        if e == 0x75 then
          match rest1 with
          | a :: b :: c2 :: d :: rest2 =>
            if isSurrogate (hex4 a b c2 d) then
              match rest2 with
              | x :: y :: _ :: _ :: _ :: _ :: rest3 => x == 0x5C && y == 0x75 && noLoneSurr rest3
              | _ => false
            else noLoneSurr rest2
          | _ => true   -- truncated escape: not a grammatical string
        else noLoneSurr rest1
    else noLoneSurr rest

def rawStringWellFormed (raw : Bytes) : Bool := utf8Valid raw && surrogatesPaired raw

mutual
/-- Every string and key of the parsed text is free of lone surrogate escapes. -/
def PVal.surrogatesOk : PVal → Bool
  | .str raw _ => noLoneSurr raw
  | .arr xs => surrogatesOkList xs
  | .obj kvs => surrogatesOkMembers kvs
  | _ => true
def surrogatesOkList : List PVal → Bool
  | [] => true
  | x :: xs => x.surrogatesOk && surrogatesOkList xs
def surrogatesOkMembers : List (Bytes × Bytes × PVal) → Bool
  | [] => true
  | (raw, _, v) :: kvs => noLoneSurr raw && v.surrogatesOk && surrogatesOkMembers kvs
end

mutual
def PVal.wellFormed : PVal → Bool
  | .str raw _ => rawStringWellFormed raw
  | .arr xs => wellFormedList xs
  | .obj kvs => wellFormedMembers kvs
  | _ => true
def wellFormedList : List PVal → Bool
  | [] => true
  | x :: xs => x.wellFormed && wellFormedList xs
def wellFormedMembers : List (Bytes × Bytes × PVal) → Bool
  | [] => true
  | (raw, _, v) :: kvs => rawStringWellFormed raw && v.wellFormed && wellFormedMembers kvs
end

/-- Model of `SortJSON` on (compact, valid) input.  `none` when the input does not parse
    (the Go function's behaviour on invalid input is unspecified and not modelled). -/
def sortJSON (s : Bytes) : Option Bytes := (parse s).map sortEmit

/-- Model of `CanonicalJSONAssumeValid`. -/
def canonicalAssumeValid (s : Bytes) : Except Err (Option Bytes) :=
  match compact s with
  | .error e => .error e
  | .ok c => .ok (sortJSON c)

/-- Model of `CanonicalJSON`. -/
def canonical (s : Bytes) : Except Err Bytes :=
  if !valid s then .error .badJSON
  else match compact s with
    | .error e => .error e
    | .ok c => match sortJSON c with
      | some out => .ok out
      | none => .error (.other "unmodelled: compact output does not parse")

/-! ## verifyEnforcedCanonicalJSON -/

def natOfDigits (ds : Bytes) : Nat := ds.foldl (fun n d => n * 10 + (d - 0x30).toNat) 0

def maxSafeInt : Nat := 9007199254740991

def stripSign : Bytes → Bytes
  | 0x2D :: r => r
  | r => r

/-- A number literal passes the enforced check iff it is an integer literal (no `.`, `e`, `E`),
    is not `-0`, and its magnitude is at most 2^53-1. -/
def numOk (raw : Bytes) : Bool :=
  if raw.any (fun c => c == 0x2E || c == 0x65 || c == 0x45) then false
  else if raw == [0x2D, 0x30] then false
  else natOfDigits (stripSign raw) ≤ maxSafeInt

mutual
def PVal.numbersOk : PVal → Bool
  | .num raw => numOk raw
  | .arr xs => numbersOkList xs
  | .obj kvs => numbersOkMembers kvs
  | _ => true
def numbersOkList : List PVal → Bool
  | [] => true
  | x :: xs => x.numbersOk && numbersOkList xs
def numbersOkMembers : List (Bytes × Bytes × PVal) → Bool
  | [] => true
  | (_, _, v) :: kvs => v.numbersOk && numbersOkMembers kvs
end

/-- Model of `verifyEnforcedCanonicalJSON(input) == nil` for input that `gjson.Valid` accepts.
    On invalid input gjson's lenient parser is not modelled (`none`). -/
def enforcedOk (s : Bytes) : Option Bool := (parse s).map PVal.numbersOk

/-! ## The specification side: canonical encoding of a value -/

def encodeStringBody : Bytes → Bytes
  | [] => []
  | c :: rest =>
    (if c == 0x22 then [0x5C, 0x22]
     else if c == 0x5C then [0x5C, 0x5C]
     else if c == 0x08 then [0x5C, 0x62]
     else if c == 0x09 then [0x5C, 0x74]
     else if c == 0x0A then [0x5C, 0x6E]
     else if c == 0x0C then [0x5C, 0x66]
     else if c == 0x0D then [0x5C, 0x72]
     else if c < 0x20 then [0x5C, 0x75, 0x30, 0x30, UInt8.ofNat (0x30 + c.toNat / 16), hexDigitLower (c.toNat % 16)]
     else [c]) ++ encodeStringBody rest

def encodeNum (lit : Bytes) : Bytes := if lit == [0x2D, 0x30] then [0x30] else lit

mutual
/-- The Matrix canonical encoding: keys sorted by code point (= byte order of UTF-8), no
    whitespace, shortest escapes, `-0` as `0`. -/
def encode : JVal → Bytes
  | .null => [0x6E, 0x75, 0x6C, 0x6C]
  | .bool true => [0x74, 0x72, 0x75, 0x65]
  | .bool false => [0x66, 0x61, 0x6C, 0x73, 0x65]
  | .num lit => encodeNum lit
  | .str s => 0x22 :: encodeStringBody s ++ [0x22]
  | .arr xs => 0x5B :: joinWith 0x2C (encodeList xs) ++ [0x5D]
  | .obj kvs => 0x7B :: joinWith 0x2C (encodeMembers kvs) ++ [0x7D]
def encodeList : List JVal → List Bytes
  | [] => []
  | x :: xs => encode x :: encodeList xs
/-- members are emitted in the order given; `encodeCanon` sorts first -/
def encodeMembers : List (Bytes × JVal) → List Bytes
  | [] => []
  | (k, v) :: kvs => (0x22 :: encodeStringBody k ++ [0x22, 0x3A] ++ encode v) :: encodeMembers kvs
end

mutual
/-- Normal form of a value: members of every object sorted by key. -/
def JVal.sorted : JVal → JVal
  | .arr xs => .arr (sortedList xs)
  | .obj kvs => .obj (sortByKey (sortedMembers kvs))
  | v => v
def sortedList : List JVal → List JVal
  | [] => []
  | x :: xs => x.sorted :: sortedList xs
def sortedMembers : List (Bytes × JVal) → List (Bytes × JVal)
  | [] => []
  | (k, v) :: kvs => (k, v.sorted) :: sortedMembers kvs
end

/-- Canonical bytes of a value. -/
def encodeCanon (v : JVal) : Bytes := encode v.sorted

mutual
/-- The value with every number literal `-0` replaced by `0` (the only number normalisation of the
    canonical form). -/
def JVal.normNums : JVal → JVal
  | .num lit => .num (encodeNum lit)
  | .arr xs => .arr (normNumsList xs)
  | .obj kvs => .obj (normNumsMembers kvs)
  | v => v
def normNumsList : List JVal → List JVal
  | [] => []
  | x :: xs => x.normNums :: normNumsList xs
def normNumsMembers : List (Bytes × JVal) → List (Bytes × JVal)
  | [] => []
  | (k, v) :: kvs => (k, v.normNums) :: normNumsMembers kvs
end

/-- A number literal of the JSON grammar (exactly what `parseNumber` consumes completely). -/
def isNumLit (lit : Bytes) : Bool := parseNumber lit == some (lit, [])

mutual
/-- Every number of the value is a literal of the JSON grammar. -/
def JVal.numsOk : JVal → Bool
  | .num lit => isNumLit lit
  | .arr xs => numsOkList xs
  | .obj kvs => numsOkMembers kvs
  | _ => true
def numsOkList : List JVal → Bool
  | [] => true
  | x :: xs => x.numsOk && numsOkList xs
def numsOkMembers : List (Bytes × JVal) → Bool
  | [] => true
  | (_, v) :: kvs => v.numsOk && numsOkMembers kvs
end

mutual
/-- No object of the value has two members with the same key. -/
def JVal.noDupKeys : JVal → Bool
  | .arr xs => jNoDupList xs
  | .obj kvs => noDupIn (kvs.map (·.1)) && jNoDupMembers kvs
  | _ => true
def jNoDupList : List JVal → Bool
  | [] => true
  | x :: xs => x.noDupKeys && jNoDupList xs
def jNoDupMembers : List (Bytes × JVal) → Bool
  | [] => true
  | (_, v) :: kvs => v.noDupKeys && jNoDupMembers kvs
end

mutual
/-- All number literals of a parsed text, in text order. -/
def PVal.numbers : PVal → List Bytes
  | .num raw => [raw]
  | .arr xs => numbersList xs
  | .obj kvs => numbersMembers kvs
  | _ => []
def numbersList : List PVal → List Bytes
  | [] => []
  | x :: xs => x.numbers ++ numbersList xs
def numbersMembers : List (Bytes × Bytes × PVal) → List Bytes
  | [] => []
  | (_, _, v) :: kvs => v.numbers ++ numbersMembers kvs
end

/-- The specification of canonicalisation on texts: parse, forget the spelling, re-encode. -/
def canonicalSpec (s : Bytes) : Option Bytes := (parse s).map (fun p => encodeCanon p.toJVal)

end Json
end V
