/-
  VModel.StateResSpec — the DEFINITION side of property C10: what "the state the room version's
  algorithm defines" means, stage by stage, written as Prop-level definitions over the same inputs
  as the model (`sets : List (List Event)`, `auth : List Event`, `rejected : List ID`) and
  independently of the loops of stateresolution*.go (no fuel, no work lists, no in-degree tables).

  The library's refinements R1–R9 of DESIGN.md §6.2 are part of the definition; each one is marked
  where it enters.  The theorems that the executable model `VModel/StateRes.lean` computes what is
  defined here are in `VProofs/StateResSpec*.lean` and are collected in `VProps/C10.lean`.

  Sets of events are predicates `Event → Prop`; the ordered stages are relations between an input
  list (used only as a set) and an output list, each proved to determine its output uniquely.
  Core Lean only.
-/
import VModel.StateRes
namespace V.StateResSpec
open V Json GoJson Auth
open V.StateRes (ID isPLEvent isControlEvent PowerKey OtherKey powerLt otherLt creatorsOrNone stateNeeded
  V1Key v1Lt)

/-! ## Inputs -/

abbrev Key := Bytes × Bytes

/-- the (type, state_key) slot of a state event; `none` for an event without a state key -/
def keyOf (e : Event) : Option Key := e.stateKey.map (fun k => (e.type, k))

/-- event IDs identify events within `U` -/
def IDsIdentify (U : Event → Prop) : Prop := ∀ a b, U a → U b → a.eventID = b.eventID → a = b

/-- a state set is a state MAP: no event listed twice and at most one event per (type, state_key) -/
def IsStateMap (S : List Event) : Prop :=
  S.Nodup ∧ ∀ a ∈ S, ∀ b ∈ S, keyOf a ≠ none → keyOf a = keyOf b → a = b

/-- Well-formed input (DESIGN §5 C10 "Reading"): event IDs identify events throughout the input and every
    state set is a state map. -/
structure WF (sets : List (List Event)) (auth : List Event) : Prop where
  ids : IDsIdentify (fun e => e ∈ sets.flatten ++ auth)
  maps : ∀ S ∈ sets, IsStateMap S

/-- The auth graph of the supplied events is acyclic: some rank on event IDs makes every auth event strictly older
    than the event citing it (in a real room: the depth). -/
def Ranked (evs : List Event) : Prop := ∃ rk : ID → Nat, ∀ e ∈ evs, ∀ p ∈ e.authEventIDs, rk p < rk e.eventID

/-- the state map of a state set, as a relation -/
def MapsTo (S : List Event) (k : Key) (e : Event) : Prop := e ∈ S ∧ keyOf e = some k

def InSomeSet (sets : List (List Event)) (e : Event) : Prop := ∃ S ∈ sets, e ∈ S

/-! ## Unconflicted / conflicted (v2, v2.1): by definition over the state maps -/

/-- key `k` is unconflicted with value `e`: EVERY state set maps `k` to `e` and to nothing else -/
def UnconflictedAt (sets : List (List Event)) (k : Key) (e : Event) : Prop :=
  ∀ S ∈ sets, ∀ x, MapsTo S k x ↔ x = e

def Unconflicted (sets : List (List Event)) (e : Event) : Prop :=
  InSomeSet sets e ∧ ∃ k, UnconflictedAt sets k e

/-- every other state event of the state sets is conflicted -/
def Conflicted (sets : List (List Event)) (e : Event) : Prop :=
  InSomeSet sets e ∧ keyOf e ≠ none ∧ ¬ Unconflicted sets e

/-! ### Version 1 (R2): a key with a single candidate event overall is unconflicted -/

def UnconflictedV1 (sets : List (List Event)) (e : Event) : Prop :=
  InSomeSet sets e ∧ ∃ k, keyOf e = some k ∧ ∀ S ∈ sets, ∀ x, MapsTo S k x → x = e

def ConflictedV1 (sets : List (List Event)) (e : Event) : Prop :=
  InSomeSet sets e ∧ ∃ k, keyOf e = some k ∧ ∃ S ∈ sets, ∃ x, MapsTo S k x ∧ x ≠ e

/-! ## The auth graph inside a set of supplied events -/

/-- `AuthEdge P x y`: `y` is an auth event of `x` found among the supplied events `P`
    (auth events that were not supplied are skipped, by the code and by the definition) -/
def AuthEdge (P : Event → Prop) (x y : Event) : Prop := P y ∧ y.eventID ∈ x.authEventIDs

/-- one or more auth steps -/
inductive ReachPlus (P : Event → Prop) : Event → Event → Prop
  | edge {x y : Event} : AuthEdge P x y → ReachPlus P x y
  | step {x y z : Event} : AuthEdge P x y → ReachPlus P y z → ReachPlus P x z

/-- zero or more auth steps -/
def Reach (P : Event → Prop) (x y : Event) : Prop := x = y ∨ ReachPlus P x y

def Acyclic (P : Event → Prop) : Prop := ∀ x, ¬ ReachPlus P x x

/-- the full auth chain of a state set: everything reachable by ≥ 1 auth step from one of its events -/
def InAuthChain (P : Event → Prop) (S : List Event) (y : Event) : Prop := ∃ s ∈ S, ReachPlus P s y

/-- auth difference = ⋃ chains \ ⋂ chains -/
def AuthDifference (P : Event → Prop) (sets : List (List Event)) (y : Event) : Prop :=
  (∃ S ∈ sets, InAuthChain P S y) ∧ ∃ S ∈ sets, ¬ InAuthChain P S y

/-- v2.1 conflicted subgraph: `x` lies on an auth path from a conflicted event `o` of some state set to a
    conflicted event `c` (both ends inclusive).  "Conflicted" is decided by event ID, as the library's sets are. -/
def ConflictedSubgraph (P : Event → Prop) (C : Event → Prop) (sets : List (List Event)) (x : Event) : Prop :=
  ∃ S ∈ sets, ∃ o ∈ S, (∃ c, C c ∧ c.eventID = o.eventID) ∧ Reach P o x ∧
    ∃ c, (∃ c', C c' ∧ c'.eventID = c.eventID) ∧ Reach P x c

/-- the full conflicted set: algorithm 2 = conflicted ∪ auth difference; algorithm 3 (v2.1) adds the subgraph -/
def FullConflicted (algo : Nat) (P : Event → Prop) (sets : List (List Event)) (x : Event) : Prop :=
  Conflicted sets x ∨ AuthDifference P sets x ∨ (algo = 3 ∧ ConflictedSubgraph P (Conflicted sets) sets x)

/-! ## Control events and the control closure (R3) -/

/-- a root of the control set: a control ("power") event of the full conflicted set that is not unconflicted -/
def ControlRoot (full unconf : Event → Prop) (r : Event) : Prop :=
  full r ∧ ¬ (∃ u, unconf u ∧ u.eventID = r.eventID) ∧ isControlEvent r = true

/-- R3: the roots, closed under "auth event that is itself in the CONFLICTED set" (not the auth difference) -/
def ControlSet (conf full unconf : Event → Prop) (x : Event) : Prop :=
  ∃ r, ControlRoot full unconf r ∧ Reach conf r x

/-- everything else of the full conflicted set -/
def OtherSet (conf full unconf : Event → Prop) (x : Event) : Prop :=
  full x ∧ ¬ (∃ u, unconf u ∧ u.eventID = x.eventID) ∧ ¬ ControlSet conf full unconf x

/-! ## Reverse topological power ordering (Kahn, with the library's tie-breaking: backward greedy) -/

/-- `x` is free in `U`: none of its children (events that list it as a parent) is in `U` -/
def Free {α : Type} (child : α → α → Prop) (U : List α) (x : α) : Prop := ∀ a ∈ U, ¬ child a x

/-- `IsPowerOrder lt child input out` (`child a x` = "`a` lists `x` among its parents"):
    `out` enumerates the distinct input; reading `out` from its END, every element `x` is free among the
    elements not yet read (so every event comes after its ancestors present in the input), and it is the
    `lt`-greatest of the free ones (R8 aside: for acyclic input there are no strays). -/
structure IsPowerOrder {α : Type} (lt : α → α → Prop) (child : α → α → Prop) (input out : List α) : Prop where
  nodup : out.Nodup
  mem : ∀ x, x ∈ out ↔ x ∈ input
  free : ∀ pre x post, out = pre ++ x :: post → Free child (pre ++ [x]) x
  greatest : ∀ pre x post, out = pre ++ x :: post → ∀ y ∈ pre, Free child (pre ++ [x]) y → lt y x

/-- the events the auth map holds for `e`'s `auth_events`, in the order `e` lists them -/
def lookup (m : List Event) (id : ID) : Option Event := m.find? (fun e => e.eventID == id)

def authEventsOf (m : List Event) (e : Event) : List Event := e.authEventIDs.filterMap (lookup m)

/-- R4: sender power for the ordering: creators of a privileged-creators room (v12) have 2^53; otherwise
    `users[sender]` / `users_default` of the first power-levels event among the event's own auth events,
    0 if there is none or it does not parse -/
def senderPower (m : List Event) (createEv : Option Event) (e : Event) : Int :=
  let priv := (e.row.map (·.privilegedCreators)).getD false
  let isCreator := priv && (match createEv with
    | some ce => (creatorsOrNone ce).contains e.sender
    | none => false)
  if isCreator then creatorPowerLevel
  else match (authEventsOf m e).find? isPLEvent with
    | none => 0
    | some pe => match powerLevelsFromEvent pe with
      | .ok pl => pl.userLevel e.sender
      | .error _ => 0

def powerKey (m : List Event) (createEv : Option Event) (e : Event) : PowerKey :=
  { power := senderPower m createEv e, ts := e.originServerTS, id := e.eventID }

/-- "greater power first, then earlier timestamp, then smaller event ID" -/
def PowerLt (m : List Event) (createEv : Option Event) (a b : Event) : Prop :=
  powerLt (powerKey m createEv a) (powerKey m createEv b) = true

def AuthChild (a x : Event) : Prop := x.eventID ∈ a.authEventIDs

def IsReverseTopoPowerOrder (m : List Event) (createEv : Option Event) (input out : List Event) : Prop :=
  IsPowerOrder (PowerLt m createEv) AuthChild input out

/-! ## Mainline (R5) -/

def plParents (m : List Event) (e : Event) : List Event := (authEventsOf m e).filter isPLEvent

/-- The recursive description of `createPowerLevelMainline`: `MainlineOf m ps l` — visiting the events `ps`
    in order, each event is put in front of what has been collected so far and then its power-levels auth
    events are visited (first to last) in the same way.  `l` is what has been collected after `ps`. -/
inductive MainlineOf (m : List Event) : List Event → List Event → Prop
  | nil : MainlineOf m [] []
  | cons {p : Event} {ps lp l : List Event} :
      MainlineOf m (plParents m p) lp → MainlineOf m ps l → MainlineOf m (p :: ps) (l ++ (lp ++ [p]))

/-- the mainline of the resolved power-levels event (none resolved: empty) -/
def IsMainline (m : List Event) (resolvedPL : Option Event) (l : List Event) : Prop :=
  match resolvedPL with
  | none => l = []
  | some pl => MainlineOf m [pl] l

/-- the normal case: every event has at most one power-levels auth event; the chain of power-levels
    ancestors `e, parent e, parent (parent e), …` -/
inductive PLChain (m : List Event) : Event → List Event → Prop
  | root {e : Event} : plParents m e = [] → PLChain m e [e]
  | step {e p : Event} {c : List Event} : plParents m e = [p] → PLChain m p c → PLChain m e (e :: c)

/-- position map of the mainline: index of the LAST entry with that ID -/
def posOf (ml : List Event) (id : ID) : Option Nat :=
  ((ml.zipIdx.filter (fun x => x.1.eventID == id)).getLast?).map (·.2)

/-- The recursive description of `getFirstPowerLevelMainlineEvent`: walking the power-levels auth events `ps`
    of an event in order with (position, steps) so far: one that is on the mainline fixes the position and ends
    THIS walk; one that is not costs a step, its own power-levels auth events are walked, and the walk goes on. -/
inductive Walk (m ml : List Event) : List Event → Nat × Nat → Nat × Nat → Prop
  | nil {st : Nat × Nat} : Walk m ml [] st st
  | hit {p : Event} {rest : List Event} {st : Nat × Nat} {pos : Nat} :
      posOf ml p.eventID = some pos → Walk m ml (p :: rest) st (pos, st.2)
  | miss {p : Event} {rest : List Event} {st st' st'' : Nat × Nat} :
      posOf ml p.eventID = none → Walk m ml (plParents m p) (st.1, st.2 + 1) st' → Walk m ml rest st' st'' →
      Walk m ml (p :: rest) st st''

/-- R5: (mainline position, steps) of an event; position 0 when no mainline ancestor is found -/
def MainlinePosSteps (m ml : List Event) (e : Event) (r : Nat × Nat) : Prop := Walk m ml (plParents m e) (0, 0) r

/-- the normal case (at most one power-levels auth event each): follow the chain of power-levels ancestors of
    `e`; the first one on the mainline gives the position, the number of ancestors passed before it the steps -/
inductive ChainWalk (m ml : List Event) : Event → Nat → Nat × Nat → Prop
  | none {e : Event} {n : Nat} : plParents m e = [] → ChainWalk m ml e n (0, n)
  | hit {e p : Event} {n pos : Nat} : plParents m e = [p] → posOf ml p.eventID = some pos → ChainWalk m ml e n (pos, n)
  | miss {e p : Event} {n : Nat} {r : Nat × Nat} : plParents m e = [p] → posOf ml p.eventID = none →
      ChainWalk m ml p (n + 1) r → ChainWalk m ml e n r

def otherKeyOf (e : Event) (r : Nat × Nat) : OtherKey := { pos := r.1, steps := r.2, ts := e.originServerTS, id := e.eventID }

/-- `l` is sorted by a strict comparator on keys -/
def IsSortedBy {α κ : Type} (lt : κ → κ → Bool) (key : α → κ) (l : List α) : Prop :=
  l.Pairwise (fun a b => lt (key b) (key a) = false)

/-- mainline ordering = THE arrangement of the input sorted by (position, steps, timestamp, ID) -/
def IsMainlineOrder (m ml : List Event) (input out : List Event) : Prop :=
  out.Perm input ∧ ∃ key : Event → OtherKey,
    (∀ e ∈ input, ∃ r, MainlinePosSteps m ml e r ∧ key e = otherKeyOf e r) ∧ IsSortedBy otherLt key out

/-! ## Partial state, iterative auth checks (R7) -/

/-- the partial state: a map from (type, state_key) to the event occupying that slot -/
abbrev SMap := Key → Option Event

def SMap.empty : SMap := fun _ => none

def SMap.set (f : SMap) (k : Key) (e : Event) : SMap := fun k' => if k' = k then some e else f k'

/-- a state event overwrites its slot; other events change nothing -/
def applyOne (f : SMap) (e : Event) : SMap :=
  match keyOf e with
  | none => f
  | some k => f.set k e

def applyAll (f : SMap) (evs : List Event) : SMap := evs.foldl applyOne f

/-- the (type, state_key) slots the auth rules read for `e`, in the order the provider is filled -/
def neededKeys (e : Event) : List Key :=
  let n := stateNeeded e
  (if n.create then [(b!"m.room.create", [])] else []) ++
  (if n.joinRules then [(b!"m.room.join_rules", [])] else []) ++
  (if n.powerLevels then [(b!"m.room.power_levels", [])] else []) ++
  n.member.map (fun u => (b!"m.room.member", u)) ++
  n.thirdPartyInvite.map (fun t => (b!"m.room.third_party_invite", t))

/-- what the partial state offers for a needed slot (a member / third-party-invite slot with an empty
    state key is never offered: the library keeps such events among "others") -/
def partialLookup (f : SMap) (k : Key) : Option Event :=
  if (k.1 == b!"m.room.member" || k.1 == b!"m.room.third_party_invite") && k.2.isEmpty then none else f k

/-- R7 fallback: the event's own non-rejected auth events (found in the auth map) for that slot, in the order the
    event lists them.  All of them are handed to the auth check: the last one occupies the slot (`Provider.ofEvents`),
    and every one's room counts when the check asks whether its auth events belong to one room. -/
def fallback (m : List Event) (rejected : List ID) (e : Event) (k : Key) : List Event :=
  ((e.authEventIDs.filter (fun id => !rejected.contains id)).filterMap (lookup m)).filter
    (fun a => a.type == k.1 && a.stateKeyEquals k.2)

/-- the auth events an event is checked against: per needed slot the partial state, else the fallback -/
def providerEvents (m : List Event) (rejected : List ID) (f : SMap) (e : Event) : List Event :=
  (neededKeys e).flatMap (fun k => match partialLookup f k with
    | some r => [r]
    | none => fallback m rejected e k)

/-- one iterative-auth step: the event is applied iff the auth rules allow it against those events — the verdict of the
    standalone `Allowed`, which refuses auth events from different rooms (`Valid()`) -/
def authStep (m : List Event) (rejected : List ID) (f : SMap) (e : Event) : SMap :=
  match allowedFresh e (Provider.ofEvents (providerEvents m rejected f e)) false with
  | .ok => applyOne f e
  | _ => f

/-- iterative auth checks = left fold -/
def iterAuth (m : List Event) (rejected : List ID) (f : SMap) (evs : List Event) : SMap :=
  evs.foldl (authStep m rejected) f

/-! ## Final assembly (R6) -/

def isCreateEv (e : Event) : Prop := e.isCreate = true

/-- the create event used to decide who the creators are when the partial state has none yet:
    the first create event among the unconflicted events, else among the auth events, else among the conflicted -/
def firstCreate (l : List Event) : Option Event := l.find? (fun e => e.isCreate)

def roomCreate (unconf auth conf : List Event) : Option Event :=
  match firstCreate unconf with
  | some c => some c
  | none => match firstCreate auth with
    | some c => some c
    | none => firstCreate conf

def createFor (f : SMap) (fallbackCreate : Option Event) : Option Event :=
  match f (b!"m.room.create", []) with
  | some c => some c
  | none => fallbackCreate

/-- `Resolves algo sets auth rejected result`: algorithm 2 (room versions 2–11) / 3 (v2.1, room version 12).
    `m` is the auth map (first supplied event per ID).  The lists `conf`, `unconf`, `ctl`, `oth` enumerate the sets
    defined above; the two orderings and the folds are as prescribed. -/
structure Resolves (algo : Nat) (sets : List (List Event)) (m : List Event) (auth : List Event) (rejected : List ID)
    (result : SMap) : Prop where
  stages : ∃ (conf unconf ctl oth unconfOrder ctlOrder othOrder mainline : List Event),
    (∀ x, x ∈ conf ↔ Conflicted sets x) ∧
    (∀ x, x ∈ unconf ↔ Unconflicted sets x) ∧
    (∀ x, x ∈ ctl ↔ ControlSet (Conflicted sets) (FullConflicted algo (· ∈ m) sets) (Unconflicted sets) x) ∧
    (∀ x, x ∈ oth ↔ OtherSet (Conflicted sets) (FullConflicted algo (· ∈ m) sets) (Unconflicted sets) x) ∧ oth.Nodup ∧
    -- R6: algorithm 2 applies the unconflicted state first, in reverse topological power order, without auth checks;
    --     algorithm 3 starts from the empty state
    IsReverseTopoPowerOrder m (roomCreate unconf auth conf) unconf unconfOrder ∧
    (let s1 : SMap := if algo = 2 then applyAll SMap.empty unconfOrder else SMap.empty
     -- power events: reverse topological power ordering, then iterative auth checks
     IsReverseTopoPowerOrder m (createFor s1 (roomCreate unconf auth conf)) ctl ctlOrder ∧
     (let s2 := iterAuth m rejected s1 ctlOrder
      -- the rest: mainline ordering w.r.t. the resolved power-levels event, then iterative auth checks
      IsMainline m (s2 (b!"m.room.power_levels", [])) mainline ∧
      IsMainlineOrder m mainline oth othOrder ∧
      -- finally the unconflicted state is re-applied
      result = applyAll (iterAuth m rejected s2 othOrder) unconf))

/-! ## Version 1 (R1, R2)

  The auth checks of version 1 run against "the resolver seen as an auth event provider"; the auth rules are an
  opaque function of (event, provider), so the definition uses the model's record of registered auth events
  (`V1State`: one slot each for create / power_levels / join_rules, one per state key for member and
  third_party_invite) with its `addAuthEvent` / `removeAuthEvent` / `provider`, and describes WHAT is tried against
  WHICH registered events, in WHICH order. -/

open V.StateRes (V1State v1Allowed)

/-- the candidates of a conflicted key -/
def candidates (conflicted : List Event) (k : Key) : List Event := conflicted.filter (fun e => decide (keyOf e = some k))

/-- the conflicted keys, in the order they are first seen -/
def conflictedKeys (conflicted : List Event) : List Key := (conflicted.filterMap keyOf).eraseDups

/-- R1: the phases in which the conflicted keys are resolved:
    0 create, 1 power_levels, 2 join_rules, 3 third_party_invite (per key), 4 member (per key), 5 the rest -/
def v1Phase (k : Key) : Nat :=
  if k == (b!"m.room.create", []) then 0
  else if k == (b!"m.room.power_levels", []) then 1
  else if k == (b!"m.room.join_rules", []) then 2
  else if k.1 == b!"m.room.third_party_invite" then 3
  else if k.1 == b!"m.room.member" then 4
  else 5

/-- the blocks of a phase: the candidate lists of its keys -/
def phaseBlocks (conflicted : List Event) (p : Nat) : List (List Event) :=
  ((conflictedKeys conflicted).filter (fun k => v1Phase k == p)).map (candidates conflicted)

/-- R1: candidates are tried by depth ascending, then SHA-1(event ID) descending (the SHA-1 is an abstract function) -/
def v1Key (sha : ID → Bytes) (e : Event) : V1Key := { depth := e.depth, sha1 := sha e.eventID }

def IsV1Order (sha : ID → Bytes) (block out : List Event) : Prop :=
  out.Perm block ∧ IsSortedBy v1Lt (v1Key sha) out

/-- the supplied auth events all belong to one room (otherwise every auth check fails) -/
def SameRoom (auth : List Event) : Prop := ∀ a ∈ auth, ∀ b ∈ auth, a.roomID = b.roomID

/-- An auth block: with the current winner `w` registered, the next candidate is checked against the registered
    events; if it passes it is registered and becomes the winner, otherwise the run stops. -/
inductive AuthBlockRun (valid : Bool) : V1State → Event → List Event → Event → V1State → Prop
  | done {s : V1State} {w : Event} : AuthBlockRun valid s w [] w s
  | stop {s : V1State} {w e : Event} {more : List Event} : v1Allowed s valid e = false → AuthBlockRun valid s w (e :: more) w s
  | next {s s' : V1State} {w e w' : Event} {more : List Event} : v1Allowed s valid e = true →
      AuthBlockRun valid (s.addAuthEvent e) e more w' s' → AuthBlockRun valid s w (e :: more) w' s'

/-- After a block: its winner is taken out of the registered events again (it is registered only when the whole
    phase is over) and the block's slot holds again what it held before the block — the supplied auth event, if any —
    so that every block of a phase is resolved against the same registered events, whatever the order of the blocks. -/
def afterBlock (s s1 : V1State) (c0 w : Event) : V1State :=
  let s2 := s1.removeAuthEvent w.type (w.stateKey.getD [])
  match s.authEventAt c0.type (c0.stateKey.getD []) with
  | some p => s2.addAuthEvent p
  | none => s2

/-- One phase: the blocks are resolved one after the other, each leaving the registered events as it found them. -/
inductive PhaseRun (sha : ID → Bytes) (valid : Bool) : V1State → List (List Event) → V1State → List Event → Prop
  | nil {s : V1State} : PhaseRun sha valid s [] s []
  | skip {s s' : V1State} {blocks : List (List Event)} {ws : List Event} :
      PhaseRun sha valid s blocks s' ws → PhaseRun sha valid s ([] :: blocks) s' ws
  | block {s s1 s' : V1State} {block rest : List Event} {c0 w : Event} {blocks : List (List Event)} {ws : List Event} :
      IsV1Order sha block (c0 :: rest) → AuthBlockRun valid (s.addAuthEvent c0) c0 rest w s1 →
      PhaseRun sha valid (afterBlock s s1 c0 w) blocks s' ws →
      PhaseRun sha valid s (block :: blocks) s' (w :: ws)

/-- after a phase its winners are registered -/
def registerAll (s : V1State) (ws : List Event) : V1State := ws.foldl (fun st e => st.addAuthEvent e) s

/-- A normal block: the last candidate (other than the first) that passes the auth check against the registered
    events wins; if none does, the first candidate wins. -/
def IsNormalWinner (valid : Bool) (s : V1State) (sorted : List Event) (w : Event) : Prop :=
  ∃ c0 rest, sorted = c0 :: rest ∧
    ((∃ pre post, rest = pre ++ w :: post ∧ v1Allowed s valid w = true ∧ ∀ e ∈ post, v1Allowed s valid e = false) ∨
     ((∀ e ∈ rest, v1Allowed s valid e = false) ∧ w = c0))

inductive NormalRun (sha : ID → Bytes) (valid : Bool) (s : V1State) : List (List Event) → List Event → Prop
  | nil : NormalRun sha valid s [] []
  | cons {block sorted : List Event} {w : Event} {blocks : List (List Event)} {ws : List Event} :
      IsV1Order sha block sorted → IsNormalWinner valid s sorted w → NormalRun sha valid s blocks ws →
      NormalRun sha valid s (block :: blocks) (w :: ws)

/-- `V1Resolves sha conflicted auth result`: version 1 picks one event per conflicted key, phase by phase (R1). -/
structure V1Resolves (sha : ID → Bytes) (conflicted auth : List Event) (result : List Event) : Prop where
  run : ∃ (valid : Bool) (s1 s2 s3 s4 s5 : V1State) (r1 r2 r3 r4 r5 r6 : List Event),
    (valid = true ↔ SameRoom auth) ∧
    PhaseRun sha valid (registerAll {} auth) (phaseBlocks conflicted 0) s1 r1 ∧
    PhaseRun sha valid (registerAll s1 r1) (phaseBlocks conflicted 1) s2 r2 ∧
    PhaseRun sha valid (registerAll s2 r2) (phaseBlocks conflicted 2) s3 r3 ∧
    PhaseRun sha valid (registerAll s3 r3) (phaseBlocks conflicted 3) s4 r4 ∧
    PhaseRun sha valid (registerAll s4 r4) (phaseBlocks conflicted 4) s5 r5 ∧
    NormalRun sha valid (registerAll s5 r5) (phaseBlocks conflicted 5) r6 ∧
    result = r1 ++ r2 ++ r3 ++ r4 ++ r5 ++ r6

/-- the version-1 entry point: resolve the conflicted keys (R2 split), keep the unconflicted events -/
def V1Result (sha : ID → Bytes) (sets : List (List Event)) (auth : List Event) (ids : List ID) : Prop :=
  ∃ conflicted unconflicted resolved : List Event,
    (∀ x, x ∈ conflicted ↔ ConflictedV1 sets x) ∧ (∀ x, x ∈ unconflicted ↔ UnconflictedV1 sets x) ∧
    V1Resolves sha conflicted auth resolved ∧ ids = (resolved ++ unconflicted).map (·.eventID)

end V.StateResSpec
