/-
  VModel.AuthSpec — executable statement of C08's invariant on power-level contents, evaluated by the
  driver on every power-levels event the IMPLEMENTATION accepts (specification stream of `auth.allowed`).
  Written from the property text, independently of checkEventLevels / checkUserLevels.
-/
import VModel.Auth
import VModel.AuthRules
namespace V.AuthSpec
open V V.Json V.GoJson V.Auth

def keysOf (m : List (Bytes × Int)) : List Bytes := m.map (·.1)

/-- nothing set above `L`, nothing above `L` changed or removed, no other user at or above `L` changed or removed -/
def noEscalationB (L : Int) (sender : Bytes) (old new : PowerLevels) (notifications : Bool) : Bool :=
  let named : List (Int × Int) :=
    [(old.ban, new.ban), (old.kick, new.kick), (old.invite, new.invite), (old.redact, new.redact),
     (old.eventsDefault, new.eventsDefault), (old.stateDefault, new.stateDefault), (old.usersDefault, new.usersDefault)]
  let okPair (p : Int × Int) : Bool := p.1 == p.2 || (p.1 ≤ L && p.2 ≤ L)
  let evs := (keysOf old.events ++ keysOf new.events).all (fun t =>
    okPair (old.eventLevel t false, new.eventLevel t false))
  let users := (keysOf old.users ++ keysOf new.users).all (fun u =>
    let o := old.userLevel u; let n := new.userLevel u
    o == n || (n ≤ L && (u == sender || o < L)))
  let notif := !notifications || (keysOf old.notifications ++ keysOf new.notifications).all (fun k =>
    let o := old.notificationLevel k; let n := new.notificationLevel k
    o == n || (n ≤ L && o ≤ L))
  named.all okPair && evs && users && notif

/-- "in version 10 and later never contains a non-integer level": the content of a power-levels event of a version
    with integer-only levels (the room-version pages' switch, `AuthRules.specVersion?` — not the library's table) fails
    the independent predicate `AuthRules.integerContent` -/
def nonIntegerLevels (e : Event) : Bool :=
  match AuthRules.specVersion? e.ver with
  | some sv => sv.integerLevels && !AuthRules.integerContent e.content
  | none => false

/-- Specification verdict for a power-levels event given the auth events: `some true` = the property forbids
    accepting it; `none` = the invariant alone does not decide (other rules may still reject). -/
def plMustReject (e : Event) (p : Provider) : Option Bool :=
  if nonIntegerLevels e then some true else
  match (({} : Ctx).update p) with
  | .error _ => none
  | .ok ctx =>
    match powerLevelsFromEvent e, ctx.userPowerLevel e.sender with
    | .ok newPL, .ok L =>
      -- notification levels count from version 6 (the room-version pages' switch, not the regenerated code column)
      let notif := match AuthRules.specVersion? e.ver with
        | some sv => sv.notifications
        | none => false
      if noEscalationB L e.sender ctx.pl newPL notif then none else some true
    | _, _ => none

end V.AuthSpec
